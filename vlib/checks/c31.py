"""C31 -- loop transformations preserve behaviour where they apply (differential execution)."""
import shutil

from vlib import diffexec
from vlib.loopgen import LoopGen
from vlib.core import sighash
from vlib.checks.c30 import classify_detail, innermost_loki_frame

PID = 'C31'
LEVEL = 'exploration'
TECHNIQUE = 'differential execution (gfortran run-time checks + sanitizers) over template loop nests of known legality'
LEVEL_TEXT = ('do_loop_unroll, do_loop_fusion, do_loop_fission(promote on/off), do_loop_interchange(project_bounds '
              'on/off), split_loop and block_loop_arrays are applied to generated kernels whose loop nests come from '
              'templates with a known dependence structure; the Loki pragma is only placed where the documented '
              'preconditions hold (the legality facts are part of every witness). Original and transformed kernel '
              'run under the same untouched driver on several non-linear input sets with order-sensitive scalar '
              'recurrences; every array is printed and compared.')
LEVEL_NOTE = ('gfortran -O0 -fcheck=all is the reference semantics. Legality is by construction of the templates, not '
              'checked independently. Fusion/projected interchange only with unit steps and affine bounds (the '
              'transformations assert this). block_loop_arrays only for loops 1..n step 1 over dummies with intent, '
              'indexed by the loop variable alone (the setting of its unit tests); other starts/steps are a hostile '
              'slice. Constructs with a known defect are confined to one hostile unit per case in a quarter of the '
              'cases; a violation is attributed to it only if the same transformation passes without that unit.')
RULE = ('vlib/loopgen.py: one transformation kind per case (idx%5: unroll, fusion, fission, interchange, split), 2-3 '
        'units per kernel (1 for split): unroll = constant bounds/steps incl. empty and single-trip loops, nested '
        'depths with depth(n), triangular/neighbouring/symbolic inner loops; fusion = groups, different ranges, '
        'different loop variables, range(), insert-loc, collapse(2); fission = single/multiple/conditional/collapse(2) '
        'split points, scalars crossing the split promoted by pragma or automatically; interchange = rectangular 2/3 '
        'deep with order list, strided and descending (project_bounds off), triangular (on); split = split_loop with '
        'any bounds/steps and block sizes, block_loop_arrays. idx%4==3: one hostile unit (a constant zero-trip range '
        'with |stop-start| < |step| drawn by the ordinary split generator is the split_empty_step hostile unit too). '
        'Non-trivial = transformation '
        'changed the kernel text and original and transformed program ran clean with equal output; distinct = hash '
        'of kernel + options.')
CASES = {'quick': 240, 'thorough': 3600}
MIN_NONTRIVIAL = {'quick': 100, 'thorough': 1500}
ANCHORS = ['loki/transformations/transform_loop.py', 'loki/transformations/loop_blocking.py']
REQUIRED_REACH = ['do_loop_unroll', 'do_loop_fusion', 'do_loop_fission', 'do_loop_interchange', 'split_loop',
                  'block_loop_arrays']
REQUIRED_COUNTERS = {'transformed_equal': 10}
ASSUMPTIONS = ['gfortran 12 -O0 with run-time checks is the reference semantics',
               'templates are legal for the annotated transformation by construction',
               'reals compared to relative 1e-11, integers exactly']
BUDGET_S = {'quick': 900, 'thorough': 3000}
CASE_TIMEOUT_S = 900

HOSTILES = {
    'unroll': ['unroll_neg_step', 'loopvar_after', 'unroll_cycle'],
    'fusion': ['loopvar_after'],
    'fission': ['fission_promote_lb', 'fission_array_shape'],
    'interchange': ['interchange_project_perm'],
    'split': ['split_empty_step', 'loopvar_after', 'block_start_ne_1'],
}
KINDS = ['unroll', 'fusion', 'fission', 'interchange', 'split']
# mechanism names of the hostile constructs (first part of the key of a violation attributed to them)
MECH = {
    'unroll_neg_step': 'unroll:negative-step-iterations-dropped',
    'loopvar_after': '{kind}:loop-variable-value-after-loop-lost',
    'unroll_cycle': 'unroll:cycle-in-unrolled-body',
    'fission_promote_lb': 'fission:promoted-scalar-sized-by-upper-bound-only',
    'fission_array_shape': 'fission:auto-promote-adds-dimension-to-indexed-array',
    'interchange_project_perm': 'interchange:projected-3-deep-non-reversal-order',
    'split_empty_step': 'split_loop:zero-trip-loop-with-step',
    'block_start_ne_1': 'block_loop_arrays:loop-not-1-to-n-step-1',
}


def case_flags(rng, idx):
    kind = KINDS[idx % 5]
    f = {'kind': kind, 'hostile': None}
    f['fission_promote'] = rng.random() < 0.6
    f['project_bounds'] = rng.random() < 0.5
    f['block_arrays'] = rng.random() < 0.4
    f['via_transformation_class'] = rng.random() < 0.25
    if idx % 4 == 3:
        hs = HOSTILES[kind]
        f['hostile'] = hs[(idx // 20) % len(hs)]
        if f['hostile'] == 'block_start_ne_1':
            f['block_arrays'] = True
        if f['hostile'] == 'split_empty_step':
            f['block_arrays'] = False
        if f['hostile'] == 'fission_promote_lb':
            f['fission_promote'] = False      # scalar promoted by pragma only; arrays stay as they are
        if f['hostile'] == 'interchange_project_perm':
            f['project_bounds'] = True
        if f['hostile'] == 'fission_array_shape':
            f['fission_promote'] = True
    return f


def transform(src, case, flags):
    """apply the case's transformation to kernel text; returns new text"""
    from loki import Subroutine, FindNodes
    from loki.ir import nodes as ir
    from loki.transformations import transform_loop as tl
    from loki.transformations.loop_blocking import split_loop, block_loop_arrays
    routine = Subroutine.from_source(src)
    kind = flags['kind']
    if kind == 'split':
        units = [u for u in case.units if hasattr(u, 'loopvar') and (u.hostile is None or u.lines[0] in src)]
        for u in units:
            loop = next(l for l in FindNodes(ir.Loop).visit(routine.body) if str(l.variable).lower() == u.loopvar)
            sv, inner, outer = split_loop(routine, loop, u.facts['block_size'])
            if flags['block_arrays']:
                block_loop_arrays(routine, sv, inner, outer, [u.loopvar])
    elif flags['via_transformation_class']:
        tr = tl.TransformLoopsTransformation(
            loop_interchange=kind == 'interchange', loop_fusion=kind == 'fusion', loop_fission=kind == 'fission',
            loop_unroll=kind == 'unroll', interchange_project_bounds=flags['project_bounds'],
            fission_promote=flags['fission_promote'])
        tr.apply(routine)
    elif kind == 'unroll':
        tl.do_loop_unroll(routine)
    elif kind == 'fusion':
        tl.do_loop_fusion(routine)
    elif kind == 'fission':
        tl.do_loop_fission(routine, promote=flags['fission_promote'])
    elif kind == 'interchange':
        tl.do_loop_interchange(routine, project_bounds=flags['project_bounds'])
    return routine.to_fortran() + '\n'


def identity(src):
    from loki import Subroutine
    return Subroutine.from_source(src).to_fortran() + '\n'


def evaluate(case, flags, wd, dropped, cnt):
    """returns (status, info); status equal|same-text|differ|new_build_fail|exception|orig_bad"""
    src = case.kernel(drop_hostile=dropped)
    try:
        new = transform(src, case, flags)
    except Exception as e:  # pylint: disable=broad-except
        return 'exception', {'detail': f'{type(e).__name__}: {e}'[:500],
                             'class': f'exception:{type(e).__name__}@{innermost_loki_frame(e)}'}
    if new.strip() == identity(src).strip():
        return 'same-text', {'new_text': new}
    d = diffexec.differential(wd / ('d' if dropped else 'f'), [('k.F90', src)], [('k.F90', new)],
                              ('drv.F90', case.driver()), stdins=case.stdins)
    cnt['program_builds'] += 2
    cnt['program_runs'] += 2 * d['runs']
    info = dict(d)
    info['new_text'] = new
    return d['status'], info


def run_case(idx, rng, tier, ctx):
    flags = case_flags(rng, idx)
    gen = LoopGen(rng, flags)
    case = gen.generate()
    kind = flags['kind']
    hostile_unit = next((u for u in case.units if u.hostile), None)
    hostile = hostile_unit.hostile if hostile_unit else None
    src = case.kernel()
    opts = {k: flags[k] for k in ('fission_promote', 'project_bounds', 'block_arrays', 'via_transformation_class')}
    res = {'sig': sighash([src, opts]), 'nontrivial': False, 'violations': [], 'inconclusive': None,
           'features': sorted(gen.features | {'kind-' + kind} | ({'hostile-' + hostile} if hostile else set())
                              | ({'via-TransformLoopsTransformation'} if flags['via_transformation_class'] and kind != 'split' else set())
                              | ({f'fission-promote-{flags["fission_promote"]}'} if kind == 'fission' else set())
                              | ({f'project-bounds-{flags["project_bounds"]}'} if kind == 'interchange' else set())),
           'counters': {}}
    cnt = {'program_builds': 0, 'program_runs': 0, 'transformed_equal': 0, 'unchanged': 0, 'hostile_confirmations': 0,
           'kind_' + kind: 1}
    wd = ctx['scratch'] / f'c{idx}'
    facts = [u.facts for u in case.units]
    try:
        status, info = evaluate(case, flags, wd, False, cnt)
        if status == 'orig_bad':
            res['inconclusive'] = 'generator defect: ' + info['detail'][:400]
        elif 'TIMEOUT' in (info.get('detail') or '') or 'TIMEOUT' in (info.get('new_err') or ''):
            res['inconclusive'] = 'timeout while building/running the transformed program'
        elif status == 'same-text':
            cnt['unchanged'] += 1
        elif status == 'equal':
            cnt['transformed_equal'] += 1
            res['nontrivial'] = True
        else:
            cls = info['class'] if status == 'exception' else classify_detail(
                status, (info.get('detail') or '') + ' ' + (info.get('new_err') or ''))
            key = f'{kind}:{cls}'
            attributed = None
            if hostile:
                cnt['hostile_confirmations'] += 1
                s2, i2 = evaluate(case, flags, wd, True, cnt)
                if s2 in ('equal', 'same-text'):
                    attributed = hostile
                    key = MECH[hostile].format(kind=kind)
                elif s2 == 'orig_bad':
                    res['inconclusive'] = 'generator defect (hostile-free kernel): ' + i2['detail'][:300]
                elif 'TIMEOUT' in (i2.get('detail') or '') or 'TIMEOUT' in (i2.get('new_err') or ''):
                    res['inconclusive'] = 'timeout while building/running (hostile-free kernel)'
            if not res['inconclusive']:
                res['violations'].append({
                    'key': key, 'msg': (info.get('detail') or '')[:500],
                    'witness': {'kind': kind, 'options': opts, 'legality_facts': facts,
                                'hostile_unit': hostile_unit.lines if attributed else None,
                                'kernel': src, 'transformed': (info.get('new_text') or '')[:8000],
                                'driver': case.driver(), 'stdin': info.get('stdin'), 'orig_out': info.get('orig_out'),
                                'new_out': info.get('new_out'), 'new_err': info.get('new_err')}})
    finally:
        shutil.rmtree(wd, ignore_errors=True)
    res['counters'] = cnt
    res['sample'] = {'kind': kind, 'options': opts, 'hostile': hostile, 'facts': facts[:2],
                     'units': [ln for u in case.units for ln in u.lines][:16]}
    return res
