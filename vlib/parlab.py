"""
E7 -- schedule perturbation lab shared by C42 / C43 / C44.

Two halves:

* harness side (imported by the check modules): delay-plan enumeration on top of the
  guarded hook in ``loki/jit_build/workqueue.py`` (``LOKI_VERIF_TRACE`` / ``LOKI_VERIF_JITTER``),
  trace parsing, offline checkers, and ``run_job`` which runs a *job* (several lint or build
  runs on one generated workload) in a killable subprocess with a timeout;
* subprocess side (``python -m vlib.parlab <job.json>``): executes the real ``lint_files`` /
  ``Builder`` + ``Lib.build`` for every run of the job and writes what it observed.
"""
import hashlib
import json
import os
import signal
import subprocess
import sys
import time
from collections import Counter
from pathlib import Path

PYTHON = '/venv/bin/python'
FC_WRAP = str(Path(__file__).resolve().parent.parent / 'tools' / 'fc_wrap.sh')


# --------------------------------------------------------------------------
# picklable output targets for report handlers (robust: open-append-close per message)
# --------------------------------------------------------------------------

class AppendTarget:
    """``target`` callback for lint report handlers: appends one JSON line per message."""

    def __init__(self, path):
        self.path = str(path)

    def write(self, msg):
        with open(self.path, 'a', encoding='utf-8') as f:
            f.write(json.dumps(str(msg)) + '\n')


def read_jsonl(path):
    p = Path(path)
    if not p.exists():
        return []
    out = []
    for line in p.read_text(encoding='utf-8', errors='replace').splitlines():
        line = line.strip()
        if line:
            try:
                out.append(json.loads(line))
            except ValueError:
                out.append({'_garbled': line[:200]})
    return out


# --------------------------------------------------------------------------
# delay plans realised through the seed-driven hook
# --------------------------------------------------------------------------

def hook_delay_ms(seed, fn_name, key, max_ms):
    """Mirror of the delay formula of ``_verif_traced_call`` (plan shaping only, never a verdict)."""
    digest = hashlib.sha256(f'{seed}|{fn_name}|{key}'.encode()).digest()
    return int.from_bytes(digest[:4], 'big') % (int(max_ms) + 1)


def enumerate_plans(keys, fn_name, max_ms, kinds, rng, search=400):
    """
    Turn abstract delay plans into hook seeds.

    ``keys`` are the task keys in submission order.  Kinds:
      zero       -- no jitter at all
      reverse    -- delays decrease with submission order as much as a seed allows
      forward    -- delays increase with submission order
      single:<k> -- task k is delayed, all others (nearly) not
      random     -- a random seed
    Returns a list of dicts {kind, jitter (env value or None), delays (predicted, ms)}.
    """
    plans = []
    n = len(keys)
    base = rng.randrange(1, 10 ** 6)

    def delays(seed):
        return [hook_delay_ms(seed, fn_name, k, max_ms) for k in keys]

    def inversions(d):
        return sum(1 for i in range(n) for j in range(i + 1, n) if d[i] > d[j])

    for kind in kinds:
        if kind == 'zero':
            plans.append({'kind': kind, 'jitter': None, 'delays': [0] * n})
            continue
        if kind == 'random':
            seed = rng.randrange(1, 10 ** 9)
            plans.append({'kind': kind, 'jitter': f'{seed}:{max_ms}', 'delays': delays(seed)})
            continue
        best, best_score = None, None
        for seed in range(base, base + search):
            d = delays(seed)
            if kind == 'reverse':
                score = inversions(d)
            elif kind == 'forward':
                score = -inversions(d)
            elif kind.startswith('single:'):
                k = int(kind.split(':')[1]) % max(1, n)
                others = [d[i] for i in range(n) if i != k] or [0]
                score = d[k] - 2 * max(others)
            else:
                raise ValueError(kind)
            if best_score is None or score > best_score:
                best, best_score = seed, score
        base += search
        plans.append({'kind': kind, 'jitter': f'{best}:{max_ms}', 'delays': delays(best)})
    return plans


# --------------------------------------------------------------------------
# trace analysis (offline)
# --------------------------------------------------------------------------

def read_trace(path):
    ev = [e for e in read_jsonl(path) if isinstance(e, dict) and 'phase' in e]
    ev.sort(key=lambda e: e['t'])
    return ev


def pair_events(events, keyfn=lambda e: e['key']):
    """-> {key: {'begin': [t...], 'end': [t...], 'pids': set, 'errors': [..]}}"""
    out = {}
    for e in events:
        k = keyfn(e)
        d = out.setdefault(k, {'begin': [], 'end': [], 'pids': set(), 'errors': []})
        d[e['phase']].append(e['t'])
        d['pids'].add(e['pid'])
        if e.get('error'):
            d['errors'].append(e['error'])
    return out


def order_of(events, phase, keyfn=lambda e: e['key']):
    return [keyfn(e) for e in events if e['phase'] == phase]


def max_parallelism(events):
    cur = best = 0
    for e in events:
        if e['phase'] == 'begin':
            cur += 1
            best = max(best, cur)
        else:
            cur -= 1
    return best


def multiset(items):
    return sorted(Counter(items).items())


# --------------------------------------------------------------------------
# running a job in a killable subprocess
# --------------------------------------------------------------------------

LAST_LOKI_FILE = None


class JobTimeout(Exception):
    pass


class JobCrashed(Exception):
    pass


def run_job(job, workdir, timeout):
    """
    Write ``job`` to ``workdir/job.json``, execute it with ``python -m vlib.parlab`` in its own
    session (so pools, managers and compilers die with it on timeout) and return the list of
    per-run result records.
    """
    workdir = Path(workdir)
    workdir.mkdir(parents=True, exist_ok=True)
    jobfile = workdir / 'job.json'
    resfile = workdir / 'results.jsonl'
    job = dict(job)
    job['results'] = str(resfile)
    jobfile.write_text(json.dumps(job))
    env = dict(os.environ)
    env['LOKI_VERIF'] = '1'
    env.pop('LOKI_VERIF_TRACE', None)
    env.pop('LOKI_VERIF_JITTER', None)
    errf = open(workdir / 'stderr.txt', 'w')
    try:
        p = subprocess.Popen([PYTHON, '-m', 'vlib.parlab', str(jobfile)], env=env, cwd=str(workdir),
                             stdout=errf, stderr=subprocess.STDOUT, start_new_session=True)
        try:
            p.wait(timeout=timeout)
        except subprocess.TimeoutExpired:
            try:
                os.killpg(p.pid, signal.SIGKILL)
            except OSError:
                p.kill()
            p.wait()
            raise JobTimeout(f'job exceeded {timeout}s')
    finally:
        errf.close()
        # children of a crashed job may survive; make sure the session is gone
        try:
            os.killpg(p.pid, signal.SIGKILL)
        except (OSError, UnboundLocalError):
            pass
    results = read_jsonl(resfile)
    if p.returncode != 0 or not results or not results[-1].get('job_done'):
        tail = (workdir / 'stderr.txt').read_text(errors='replace')[-1500:]
        raise JobCrashed(f'job exit {p.returncode}, {len(results)} records; stderr tail: {tail}')
    global LAST_LOKI_FILE  # pylint: disable=global-statement
    LAST_LOKI_FILE = results[-1].get('loki_file')
    return [r for r in results if not r.get('job_done')]


# --------------------------------------------------------------------------
# subprocess side
# --------------------------------------------------------------------------

def _set_env(run):
    for var, val in (('LOKI_VERIF_TRACE', run.get('trace')), ('LOKI_VERIF_JITTER', run.get('jitter'))):
        if val:
            os.environ[var] = str(val)
        else:
            os.environ.pop(var, None)


def _load_rules(names):
    import importlib
    from loki.lint import Linter
    rules = []
    for modname in ('ifs_coding_standards_2011', 'ifs_arpege_coding_standards', 'debug_rules'):
        mod = importlib.import_module(f'lint_rules.{modname}')
        rules += Linter.lookup_rules(mod)
    if names:
        rules = [r for r in rules if r.__name__ in names]
    return rules


def _lint_main(job, emit):
    import gc
    import logging
    from loki.lint import lint_files
    from loki.lint.reporter import JunitXmlHandler, ViolationFileHandler, DefaultHandler
    from loki.logging import logger as loki_logger

    from loki.logging import stream_handler

    rules = _load_rules(job.get('rules'))
    basedir = job['basedir']
    for run in job['runs']:
        _set_env(run)
        out = Path(run['out'])
        out.mkdir(parents=True, exist_ok=True)
        handlers = [
            JunitXmlHandler(target=AppendTarget(out / 'junit.jsonl').write, basedir=basedir),
            ViolationFileHandler(target=AppendTarget(out / 'yaml.jsonl').write, basedir=basedir,
                                 use_line_hashes=True),
            ViolationFileHandler(target=AppendTarget(out / 'yamlfh.jsonl').write, basedir=basedir,
                                 use_line_hashes=False),
            DefaultHandler(target=AppendTarget(out / 'deferred.jsonl').write, immediate_output=False,
                           basedir=basedir),
        ]
        config = {'basedir': basedir, 'include': list(job['include']), 'max_workers': run['workers']}
        if job.get('exclude'):
            config['exclude'] = list(job['exclude'])
        if run.get('fix'):
            config['fix'] = True
            if run.get('backup_suffix'):
                config['backup_suffix'] = run['backup_suffix']
        if run.get('lazy_outputs'):
            config['junitxml_file'] = str(out / 'lazy_junit.xml')
            config['violations_file'] = str(out / 'lazy_violations.yml')
        # default handler output: redirect Loki's own stream handler into a file; optionally add a second
        # handler the way ``loki-lint --log <file>`` does
        logf = open(out / 'log.txt', 'a', encoding='utf-8')  # pylint: disable=consider-using-with
        old_stream = stream_handler.setStream(logf)
        cap = None
        if job.get('log_file_handler'):
            cap = logging.FileHandler(str(out / 'log2.txt'), mode='a')
            cap.setLevel(logging.WARNING)
            loki_logger.addHandler(cap)
        rec = {'run': run['name'], 'status': 'ok', 'checked': None}
        t0 = time.time()
        try:
            rec['checked'] = lint_files(rules, config, handlers=handlers)
        except BaseException as e:  # pylint: disable=broad-except
            rec['status'] = 'exception'
            rec['exc_type'] = type(e).__name__
            rec['exc_msg'] = str(e)[:500]
        finally:
            stream_handler.setStream(old_stream)
            logf.close()
            if cap is not None:
                loki_logger.removeHandler(cap)
                cap.close()
        rec['wall'] = round(time.time() - t0, 3)
        del handlers, config
        gc.collect()
        emit(rec)


def _nm_symbols(path):
    r = subprocess.run(['nm', '-g', '--defined-only', str(path)], capture_output=True, text=True, check=False)
    syms = {}
    member = ''
    for line in r.stdout.splitlines():
        line = line.strip()
        if not line:
            continue
        if line.endswith(':'):
            member = line[:-1]
            continue
        parts = line.split()
        if len(parts) >= 3:
            syms.setdefault(member, []).append(f'{parts[1]} {parts[2]}')
    return {m: sorted(s) for m, s in syms.items()}


def _build_main(job, emit):
    import shutil
    from loki.jit_build import Builder, Lib, Obj, GNUCompiler

    class WrapCompiler(GNUCompiler):
        F90 = FC_WRAP
        FC = FC_WRAP
        LD = FC_WRAP

    src = Path(job['source_dir'])
    for run in job['runs']:
        _set_env(run)
        bd = Path(run['build_dir'])
        bd.mkdir(parents=True, exist_ok=True)
        os.environ['FCWRAP_LOG'] = str(run['fclog'])
        if run.get('fcplan'):
            os.environ['FCWRAP_PLAN'] = str(run['fcplan'])
        else:
            os.environ.pop('FCWRAP_PLAN', None)
        rec = {'run': run['name'], 'status': 'ok'}
        t0 = time.time()
        try:
            Obj.clear_cache()
            compiler = WrapCompiler()
            builder = Builder(source_dirs=src, build_dir=bd, workers=run['workers'], compiler=compiler)
            if job.get('lib_files'):
                objs = [Obj(source_path=src / f) for f in job['lib_files']]
                lib = Lib(name=job['libname'], objs=objs, shared=False)
            else:
                lib = Lib(name=job['libname'], pattern=job['pattern'], source_dir=src, shared=False)
            rec['objs'] = [o.name for o in lib.objs]
            rec['predicted_keys'] = {}
            for o in lib.objs:
                if o.source_path is not None:
                    args = compiler.compile_args(source=o.source_path.absolute(), include_dirs=None,
                                                 target=(bd / o.name).with_suffix('.o'),
                                                 mode=Obj.MODEMAP[o.source_path.suffix.lower()], mod_dir=bd)
                    rec['predicted_keys'][o.name] = repr(args)[:400]
            if run.get('keys_only'):
                emit(rec)
                continue
            lib.build(builder=builder)
        except BaseException as e:  # pylint: disable=broad-except
            rec['status'] = 'exception'
            rec['exc_type'] = type(e).__name__
            rec['exc_msg'] = str(e)[:600]
        rec['wall'] = round(time.time() - t0, 3)
        target = bd / f"lib{job['libname']}.a"
        rec['lib_exists'] = target.exists()
        if target.exists():
            r = subprocess.run(['ar', 't', str(target)], capture_output=True, text=True, check=False)
            rec['members'] = r.stdout.split()
            rec['symbols'] = _nm_symbols(target)
        rec['files'] = sorted(p.name for p in bd.iterdir())
        emit(rec)
        shutil.rmtree(bd, ignore_errors=True)


def _die_with_parent():
    """kill the whole process group (pools, managers, compilers) as soon as the harness worker is gone"""
    import threading
    ppid0 = os.getppid()

    def _watch():
        while True:
            time.sleep(1.0)
            if os.getppid() != ppid0:
                try:
                    os.killpg(os.getpgrp(), signal.SIGKILL)
                finally:
                    os._exit(9)
    threading.Thread(target=_watch, daemon=True).start()


def main(argv):
    if os.getpgrp() == os.getpid():
        _die_with_parent()
    job = json.loads(Path(argv[1]).read_text())
    resfile = job['results']

    def emit(rec):
        with open(resfile, 'a', encoding='utf-8') as f:
            f.write(json.dumps(rec, default=str) + '\n')

    if job['kind'] == 'lint':
        _lint_main(job, emit)
    elif job['kind'] == 'build':
        _build_main(job, emit)
    else:
        raise ValueError(job['kind'])
    import loki
    emit({'job_done': True, 'loki_file': loki.__file__})
    sys.stdout.flush()
    sys.stderr.flush()
    # leave without running interpreter-shutdown finalisers of pools/managers that may hang
    os._exit(0)


if __name__ == '__main__':
    main(sys.argv)
