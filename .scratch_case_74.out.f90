MODULE kinds_mod
  IMPLICIT NONE
  INTEGER, PARAMETER :: jprb = SELECTED_REAL_KIND(13, 300)
  INTEGER, PARAMETER :: jpim = SELECTED_INT_KIND(9)
  INTEGER, PARAMETER :: npar = 3
  INTEGER, PARAMETER :: npar2 = 2
  REAL(KIND=jprb), PARAMETER :: rpar = 1.5_jprb
END MODULE kinds_mod
MODULE KMOD
  USE Kinds_mod, ONLY: jprb, NPAR, rpar
  IMPLICIT NONE
  TYPE ttype
    REAL(KIND=JPRB) :: p
    REAL(KIND=jprb) :: q(5)
    INTEGER :: KK
  END TYPE ttype
  CONTAINS
  SUBROUTINE kern (n, m, A1, A2, c1, d1, k1, S1, s2, s3, i1, i2, lg1, T1)
    ! Loki: parameters from kinds_mod inlined
    INTEGER, INTENT(IN) :: n
    INTEGER, INTENT(IN) :: m
    REAL(KIND=SELECTED_REAL_KIND(13, 300)), INTENT(IN) :: A1(N)
    REAL(KIND=SELECTED_REAL_KIND(13, 300)), INTENT(INOUT) :: A2(n)
    REAL(KIND=SELECTED_REAL_KIND(13, 300)), INTENT(IN) :: c1(n, m)
    REAL(KIND=SELECTED_REAL_KIND(13, 300)), INTENT(INOUT) :: d1(-1:n - 2)
    INTEGER, INTENT(INOUT) :: k1(N)
    REAL(KIND=SELECTED_REAL_KIND(13, 300)), INTENT(IN) :: S1
    REAL(KIND=SELECTED_REAL_KIND(13, 300)), INTENT(INOUT) :: s2
    REAL(KIND=SELECTED_REAL_KIND(13, 300)), INTENT(OUT) :: s3
    INTEGER, INTENT(IN) :: i1
    INTEGER, INTENT(INOUT) :: i2
    LOGICAL, INTENT(IN) :: lg1
    TYPE(ttype), INTENT(INOUT) :: T1
    REAL(KIND=SELECTED_REAL_KIND(13, 300)) :: x1
    REAL(KIND=SELECTED_REAL_KIND(13, 300)) :: x2
    INTEGER :: j1
    INTEGER :: j2
    LOGICAL :: LG2
    REAL(KIND=SELECTED_REAL_KIND(13, 300)) :: f1(4)
    INTEGER :: I, j, k
    REAL(KIND=SELECTED_REAL_KIND(13, 300)) :: zw(n), zs, zv(n, M)
    REAL(KIND=SELECTED_REAL_KIND(13, 300)) :: zf(4)
    INTEGER :: jz, kz
    REAL(KIND=SELECTED_REAL_KIND(13, 300)) :: zp, ZU1, zu2
    REAL(KIND=SELECTED_REAL_KIND(13, 300)) :: zq(n, 3, 2)
    INTEGER, PARAMETER :: jploc = SELECTED_REAL_KIND(13, 300)
    REAL(KIND=SELECTED_REAL_KIND(13, 300)) :: ZLOC
    INTEGER :: ii
    ZQ = 0.75_SELECTED_REAL_KIND(13, 300)
    zw = 0.5_SELECTED_REAL_KIND(13, 300)
    zv = 0.25_SELECTED_REAL_KIND(13, 300)
    ZF = 1.0_SELECTED_REAL_KIND(13, 300)
    ZS = 0.0_SELECTED_REAL_KIND(13, 300)
    ZLOC = 1.0_jploc
    S3 = 1.0_SELECTED_REAL_KIND(13, 300)
    x1 = 3.0_SELECTED_REAL_KIND(13, 300)
    X2 = 1.0_SELECTED_REAL_KIND(13, 300)
    j1 = 11
    J2 = 11
    Lg2 = .false.
    f1 = 1.0_SELECTED_REAL_KIND(13, 300)
    DO i=1,n
      lp1: DO J=1,n,2
        a2(1:n - 1) = MIN(MAX(S2 + T1%P, -50.0_SELECTED_REAL_KIND(13, 300)), 50.0_SELECTED_REAL_KIND(13, 300))
        DO k=n,1,-1
          ! TODO
        END DO
        d1(i - 2) = 2.0_SELECTED_REAL_KIND(13, 300)*COS(REAL(I + j2, kind=SELECTED_REAL_KIND(13, 300)) + A1(i))
      END DO lp1
      IF (LG1) THEN
        ASSOCIATE (Z00=>S1)
          ! TODO
          s3 = SUM(C1) / (1.0_SELECTED_REAL_KIND(13, 300) + REAL(N*m, kind=SELECTED_REAL_KIND(13, 300)))
        END ASSOCIATE
      ELSE IF (f1(1) >= x2 .and. m > j2) THEN
        ! [Loki] inlined child subroutine: ISUB
        ! =========================================
        X1 = S1
        DO ii=1,MIN(n, n)
          X1 = X1 + xin(ii)*1.5_jprb
        END DO
        X1 = COS(X1)
        T1%p = T1%p*0.5_jprb + X1
        ! =========================================
      ELSE
        s3 = 2.0_SELECTED_REAL_KIND(13, 300)*COS(((C1(I, 1) + c1(i, M))**2)**2)
      END IF
      SELECT CASE (MODULO(j2, 7))
      CASE (3:4)
        T1%Q(4) = MIN(MAX(REAL(i2 - (i + 1), kind=SELECTED_REAL_KIND(13, 300)), -50.0_SELECTED_REAL_KIND(13, 300)),  &
        & 50.0_SELECTED_REAL_KIND(13, 300))
        ! x = 1 ! y
      CASE (0)
        WHERE (A1 <= a1*A2) D1 =  &
        & MIN(MAX(A1 + A1*10.0_SELECTED_REAL_KIND(13, 300), -50.0_SELECTED_REAL_KIND(13, 300) &
        & ), 50.0_SELECTED_REAL_KIND(13, 300))
      END SELECT
    END DO
    ! note: end do
    lp2: DO i=2,m
      ! [Loki] inlined child subroutine: ISUB
      ! =========================================
      x2 = S1
      DO ii=1,MIN(n, n)
        x2 = x2 + xin(ii)*1.5_jprb
      END DO
      x2 = COS(x2)
      s3 = s3*0.5_jprb + x2
      ! =========================================
      J2 = J2
    END DO lp2
    IF (.not.(n > 5)) THEN
      DO i=1,m
        ! note: end do
        LG2 = D1(1 - 2) > MERGE(a1(1 + MOD(5, N)), C1(1, I), j2 > j1)
        LP3: DO j=1,N
          s2 = (EXP(-ABS(a2(j))) + f1(2)) / (1.0_SELECTED_REAL_KIND(13, 300) + ABS(EXP(-ABS(a2(j))) + f1(2)))
        END DO LP3
      END DO
    ELSE
      LG2 = .not.(c1(1 + MOD(5, n), 1) < 7.5_SELECTED_REAL_KIND(13, 300))
    END IF
    T1%p = MINVAL(f1) / (1.0_SELECTED_REAL_KIND(13, 300) + REAL(n*M, kind=SELECTED_REAL_KIND(13, 300)))
    A2(1) = 2.0_SELECTED_REAL_KIND(13, 300)*COS(s1)
    WHERE (A2 <= a1 / (1.0_SELECTED_REAL_KIND(13, 300) + ABS(d1)))
      a2 =  &
      & MIN(MAX(ABS(2.0_SELECTED_REAL_KIND(13, 300) - S3), -50.0_SELECTED_REAL_KIND(13, 300)), 50.0_SELECTED_REAL_KIND(13, 300))
      a2 = SIN(3.0_SELECTED_REAL_KIND(13, 300))
    END WHERE
!$loki remove
    zs = ZS + 1.0_SELECTED_REAL_KIND(13, 300)
    DO jz=1,n
      zw(jz) = ZS
    END DO
!$loki end remove
    CALL hdup(n, N, A1, zs)
    DO jz=1,N
      zp = a1(jz)*S1
      zw(jz) = zp + 0.5_SELECTED_REAL_KIND(13, 300)
    END DO
!$loki outline name( kern_o1 ) in( n,a1,s1 ) inout( a2 )
    DO jz=1,N
      A2(jz) = a2(Jz) + a1(jz)*s1
    END DO
!$loki end outline
    CALL hlow(N, zq(:, 1, :), zs)
    zs = hfun(S1, i1) + HFUN(zs, 2)
!$loki loop-fusion group( g1 )
    DO jz=1,N
      zw(JZ) = A1(jz) + s1
    END DO
!$loki loop-fusion group( g1 )
    DO jz=1,n
      a2(JZ) = zw(jz)*0.5_SELECTED_REAL_KIND(13, 300)
    END DO
    zw(1:N) = A1(1:N) + 0.5_SELECTED_REAL_KIND(13, 300)
    Zv(:, :) = zv(:, :)*S1
    zw(:) = ZW + a1
!$loki loop-unroll depth( 1 )
    DO JZ=1,2
      DO KZ=2,4,2
        zf(kz) = ZF(kz) + REAL(JZ*kz, kind=SELECTED_REAL_KIND(13, 300))
      END DO
    END DO
    IF (LG1) THEN
      zs = 3.0_SELECTED_REAL_KIND(13, 300)
    ELSE
      zs = s1
    END IF
    CONTAINS
  END SUBROUTINE kern
  SUBROUTINE HSUB (nn, xin, xio, Sout)
    INTEGER, INTENT(IN) :: nn
    REAL(KIND=jprb), INTENT(IN) :: xin(NN)
    REAL(KIND=jprb), INTENT(INOUT) :: xio
    REAL(KIND=jprb), INTENT(OUT) :: Sout
    INTEGER :: ii
    Sout = 0.0_jprb
    DO ii=1,nn
      SOUT = SOUT + XIN(ii)*0.5_jprb
    END DO
    SOUT = sout / (1.0_jprb + REAL(Nn, kind=JPRB))
    xio = SIN(xio + SOUT)
  END SUBROUTINE HSUB
  FUNCTION Hfun (X, k) RESULT(r)
    REAL(KIND=jprb), INTENT(IN) :: X
    INTEGER, INTENT(IN) :: k
    REAL(KIND=jprb) :: R
    r = x*7.5_jprb + REAL(MOD(k, 5), kind=jprb)
    IF (k > 3) R = r - 7.5_jprb
  END FUNCTION Hfun
  SUBROUTINE hdup (n1, n2, XIN, sout)
    INTEGER, INTENT(IN) :: n1, n2
    REAL(KIND=JPRB), INTENT(IN) :: XIN(n1)
    REAL(KIND=jprb), INTENT(INOUT) :: sout
    SOUT = sout + XIN(1)*REAL(n2, kind=JPRB)
  END SUBROUTINE hdup
  SUBROUTINE HLOW (nn, X2, sout)
    INTEGER, INTENT(IN) :: nn
    REAL(KIND=JPRB), INTENT(IN) :: X2(nn, 2)
    REAL(KIND=jprb), INTENT(INOUT) :: sout
    sout = sout + X2(1, 1) + X2(Nn, 2)
  END SUBROUTINE HLOW
END MODULE KMOD