#!/bin/bash
# Compiler wrapper for the C44 monitor (second, independent event log).
#
#   FCWRAP_LOG   file that receives one line per event:
#                  START|END <epoch_ns> <pid> <object stem> <exit status or -> <mode>
#                (single short O_APPEND write per event => atomic)
#   FCWRAP_PLAN  optional file with lines "<object stem> <milliseconds>": sleep that long
#                *after* START and *before* running the real compiler (widens the window in
#                which a dependent object could start although this one has not produced
#                its .mod/.o yet)
#   FCWRAP_REAL  real compiler driver (default gfortran)
#
# The object stem is taken from the `-o <target>` argument (basename without extension);
# a command line without `-c` is a link step and is logged with mode LINK.
# Only bash builtins are used besides the compiler (and sleep), to keep the wrapper cheap.
real="${FCWRAP_REAL:-gfortran}"
target=""
mode="LINK"
prev=""
for a in "$@"; do
  if [ "$prev" = "-o" ]; then target="$a"; fi
  if [ "$a" = "-c" ]; then mode="COMPILE"; fi
  prev="$a"
done
stem="${target:-unknown}"
stem="${stem##*/}"
stem="${stem%.*}"
log="${FCWRAP_LOG:-/dev/null}"
t="$EPOCHREALTIME"; t="${t/./}"; t="${t/,/}"
echo "START ${t}000 $$ $stem - $mode" >> "$log"
if [ -n "$FCWRAP_PLAN" ] && [ -r "$FCWRAP_PLAN" ] && [ "$mode" = "COMPILE" ]; then
  while read -r s ms; do
    if [ "$s" = "$stem" ] && [ -n "$ms" ] && [ "$ms" -gt 0 ] 2>/dev/null; then
      printf -v secs '%d.%03d' $((ms / 1000)) $((ms % 1000))
      sleep "$secs"
      break
    fi
  done < "$FCWRAP_PLAN"
fi
"$real" "$@"
rc=$?
t="$EPOCHREALTIME"; t="${t/./}"; t="${t/,/}"
echo "END ${t}000 $$ $stem $rc $mode" >> "$log"
exit $rc
