"""C15 -- FindNodes / FindScopes / FindVariables / FindTypedSymbols / FindInlineCalls / FindLiterals /
FindExpressions return exactly the matching nodes (independent walk over dataclass fields and expression classes)."""
import collections

from vlib import irlab
from vlib.core import sighash

PID = 'C15'
LEVEL = 'exploration'
TECHNIQUE = 'reference-model monitor: independent recursive walk vs the real finders'
LEVEL_TEXT = ('every finder call made (node types x greedy, scope mode, FindScopes, five expression finders x unique x '
              'with_ir_node) on every generated / parsed / hand-assembled tree was compared with a walk that uses '
              'neither Loki visitors nor pymbolic mappers')
LEVEL_NOTE = ('the walk enumerates all dataclass fields of a node and class-by-class expression children; attached '
              'pragma / pragma_post / comment / CommentBlock.comments are documented as outside the traversal; the '
              'initial value of a declared symbol counts as an expression of its declaration')
RULE = ('trees: spec / body / ir of every routine and the module spec of E1 programs decorated with pragmas and '
        'comments, a zoo module with ENUM / INTERFACE / TYPE / FORALL / SELECT TYPE / STOP / PRINT / DATA / statement '
        'functions, and hand-assembled trees with duplicates; finder calls: FindNodes for classes present, base classes '
        'and class tuples (greedy on/off), scope mode for random nodes, FindScopes for random nodes, expression finders '
        'in all four mode combinations on nodes, tuples and bare expressions. Non-trivial = at least 10 finder calls '
        'returned a non-empty result; distinct = hash of tree encoding and call list.')
CASES = {'quick': 280, 'thorough': 4000}
MIN_NONTRIVIAL = {'quick': 130, 'thorough': 1800}
ANCHORS = ['loki/ir/find.py', 'loki/ir/expr_visitors.py', 'loki/expression/mappers.py']
REQUIRED_REACH = ['visit_TypeDef', 'find_uniques', 'visit_VariableDeclaration', 'map_array_subscript', 'retrieve']
REQUIRED_COUNTERS = {'findnodes_calls': 1000, 'exprfinder_calls': 1000, 'findscopes_calls': 200,
                     'expr_occurrences_checked': 50000}
ASSUMPTIONS = ['attached pragmas / inline comments / comments of a CommentBlock are not part of the searched tree '
               '(documented)',
               'expression finders are compared as multisets of object identities (no order is documented)',
               'unique mode: documented key (name, parent name, dimensions) / printed form']
BUDGET_S = {'quick': 600, 'thorough': 3000}
CASE_TIMEOUT_S = 120


def setup_worker(tier, ctx):
    import sys
    sys.setrecursionlimit(20000)
    sf = irlab.zoo()
    mod = sf['zoo_mod']
    ctx['zoo_sf'] = sf
    ctx['zoo_routine'] = mod['zoo']
    ctx['zoo_pool'] = irlab.strip_source(tuple(mod['zoo'].body.body))


# ------------------------------------------------------------------------------------------------
# trees
# ------------------------------------------------------------------------------------------------

def has_untraversed_exprs(n):
    for x in irlab.preorder(n, enter_typedef=False):
        _, un = irlab.node_exprs(x)
        if un:
            return True
    return False


def make_trees(rng, ctx, feats):
    """list of (label, tree); holder objects are kept alive by the caller via the returned list."""
    r = rng.random()
    trees = []
    holder = []
    if r < 0.72:
        io = rng.random() < 0.1
        text, f = irlab.gen_text(rng, {'io_in_kernel': io, 'max_stmts': rng.choice([6, 10, 14, 20])}, decorate_p=0.6)
        feats |= {'gen:' + x for x in f if not x.startswith('unmatched')}
        sf = irlab.parse(text)
        holder.append(sf)
        routines = irlab.all_routines(sf)
        kern = routines[0]
        trees.append(('kern.body', kern.body))
        other = rng.choice(routines)
        trees.append(('routine.body', other.body))
        pick = rng.random()
        if pick < 0.3:
            trees.append(('kern.spec', kern.spec))
        elif pick < 0.5:
            trees.append(('module.spec', sf['kmod'].spec))
        elif pick < 0.7:
            trees.append(('kern.ir', kern.ir))
        elif pick < 0.85:
            trees.append(('body.tuple', tuple(kern.body.body)))
        else:
            nodes = irlab.preorder(kern.body)
            trees.append(('single.node', rng.choice(nodes)))
        if io:
            feats.add('io_slice')
        return trees, holder
    if r < 0.82:
        sf = ctx['zoo_sf']     # finders do not modify the tree: the shared parse is safe
        mod = sf['zoo_mod']
        feats.add('zoo_parsed')
        trees.append(('zoo.body', mod['zoo'].body))
        trees.append((rng.choice(['zoo.spec', 'zoo_mod.spec', 'zoo.ir']),
                      {'zoo.spec': mod['zoo'].spec, 'zoo_mod.spec': mod.spec, 'zoo.ir': mod['zoo'].ir}[
                          rng.choice(['zoo.spec', 'zoo_mod.spec', 'zoo.ir'])]))
        return trees, holder
    pool = list(ctx['zoo_pool'])
    untrav = rng.random() < 0.35
    if not untrav:
        pool = [p for p in pool if not has_untraversed_exprs(p)]
    else:
        feats.add('hand_with_untraversed_fields')
    if rng.random() < 0.5:
        text, f = irlab.gen_text(rng, {'max_stmts': 8}, decorate_p=0.5)
        sf = irlab.parse(text)
        holder.append(sf)
        pool += list(irlab.strip_source(tuple(irlab.all_routines(sf)[0].body.body)))
    tb = irlab.TreeBuilder(rng, ctx['zoo_routine'], pool, dup_p=rng.choice([0.05, 0.2]), stop_code=untrav)
    if not untrav:
        # hand leaves with expression fields outside the traversal are part of the slice only
        orig_leaf = tb.leaf

        def leaf():
            for _ in range(20):
                n = orig_leaf()
                if not has_untraversed_exprs(n):
                    return n
            return tb.ir.Comment(text='! filler')
        tb.leaf = leaf
    for _ in range(5):
        tree = tb.tree(depth=rng.choice([2, 3, 4]), nmax=rng.choice([3, 5, 7]))
        if len(irlab.preorder(tree, enter_typedef=True)) <= 300:
            break
        tb.made = []
    feats |= tb.features
    trees.append(('hand', tree))
    return trees, holder


# ------------------------------------------------------------------------------------------------
# oracles
# ------------------------------------------------------------------------------------------------

def ids(seq):
    return [id(x) for x in seq]


def viol(res, key, msg, witness):
    if key in res['_seen']:
        res['_dups'][key] += 1
        return
    res['_seen'].add(key)
    res['violations'].append({'key': key, 'msg': msg, 'witness': witness})


def tree_text(tree):
    try:
        from loki import fgen
        return fgen(tree)[:2500]
    except Exception as e:  # pylint: disable=broad-except
        return f'<fgen failed: {type(e).__name__}>'


def check_findnodes(rng, label, tree, res, feats):
    import loki.ir as ir
    from loki.ir import FindNodes
    C = res['counters']
    nodes = irlab.preorder(tree, enter_typedef=False)
    if not nodes:
        return
    present = sorted({type(n) for n in nodes}, key=lambda c: c.__name__)
    cands = list(present)
    rng.shuffle(cands)
    cands = cands[:6]
    cands += [ir.Node, ir.InternalNode, ir.LeafNode, ir.ScopedNode, ir.Pragma, ir.TypeDef, ir.Comment]
    if len(present) >= 2:
        cands.append(tuple(rng.sample(present, 2)))
        cands.append(tuple(rng.sample(present, min(3, len(present)))))
    for T in cands:
        for greedy in (False, True):
            Ts = T if isinstance(T, tuple) else (T,)
            pred = (lambda n, Ts=Ts: isinstance(n, Ts)) if greedy else None
            expected = [n for n in irlab.preorder(tree, enter_typedef=False, greedy=pred) if isinstance(n, Ts)]
            C['findnodes_calls'] += 1
            tname = '+'.join(t.__name__ for t in Ts)
            try:
                got = FindNodes(T, greedy=greedy).visit(tree)
            except Exception as e:  # pylint: disable=broad-except
                viol(res, f'findnodes:exception:{type(e).__name__}', f'FindNodes({tname}, greedy={greedy}) raised '
                     f'{type(e).__name__}: {str(e)[:200]}', {'tree': tree_text(tree), 'label': label})
                continue
            if got:
                C['nonempty_results'] += 1
            if not isinstance(got, list) or ids(got) != ids(expected):
                kind = classify_nodes_diff(got, expected)
                viol(res, f'findnodes:{"greedy" if greedy else "all"}:{kind}',
                     f'FindNodes({tname}, greedy={greedy}) on {label}: got {len(got)} nodes, walk finds '
                     f'{len(expected)}; {kind}; got={[type(x).__name__ for x in got][:12]} '
                     f'expected={[type(x).__name__ for x in expected][:12]}',
                     {'tree': tree_text(tree), 'label': label, 'type': tname, 'greedy': greedy})
            else:
                C['findnodes_equal'] += 1
    # scope mode
    for _ in range(4):
        m = rng.choice(nodes)
        for greedy in (False, True):
            def is_parent(o, m=m):
                return any(c == m for c in irlab.node_children(o))
            expected = [o for o in irlab.preorder(tree, enter_typedef=False, greedy=is_parent if greedy else None)
                        if is_parent(o)]
            C['findnodes_calls'] += 1
            C['scope_mode_calls'] += 1
            try:
                got = FindNodes(m, mode='scope', greedy=greedy).visit(tree)
            except Exception as e:  # pylint: disable=broad-except
                viol(res, f'findnodes:scope-mode:exception:{type(e).__name__}',
                     f'FindNodes(node, mode=scope) raised {type(e).__name__}: {str(e)[:200]}',
                     {'tree': tree_text(tree), 'label': label, 'match': repr(m)})
                continue
            if got:
                C['nonempty_results'] += 1
            if ids(got) != ids(expected):
                viol(res, f'findnodes:scope-mode:{"greedy" if greedy else "all"}:{classify_nodes_diff(got, expected)}',
                     f'FindNodes({type(m).__name__} instance, mode=scope, greedy={greedy}) on {label}: got '
                     f'{[type(x).__name__ for x in got][:8]} expected {[type(x).__name__ for x in expected][:8]}',
                     {'tree': tree_text(tree), 'label': label, 'match': repr(m)})
            else:
                C['findnodes_equal'] += 1


def classify_nodes_diff(got, expected):
    gi, ei = ids(got), ids(expected)
    if collections.Counter(gi) == collections.Counter(ei):
        return 'order-differs'
    missing = [x for x in expected if id(x) not in set(gi)]
    extra = [x for x in got if id(x) not in set(ei)]
    if missing and not extra:
        return 'missing-' + type(missing[0]).__name__
    if extra and not missing:
        return 'extra-' + type(extra[0]).__name__
    if not missing and not extra:
        return 'multiplicity-differs'
    return 'missing-' + type(missing[0]).__name__ + '+extra-' + type(extra[0]).__name__


def check_findscopes(rng, label, tree, res, feats):
    import loki.ir as ir
    from loki.ir import FindScopes
    C = res['counters']
    parents = {}
    nodes = irlab.preorder(tree, enter_typedef=False, parents=parents)
    inside_typedef = [n for n in irlab.preorder(tree, enter_typedef=True) if id(n) not in parents]
    if not nodes:
        return
    picks = [rng.choice(nodes) for _ in range(4)]
    tds = [n for n in nodes if isinstance(n, ir.TypeDef)]
    if tds and rng.random() < 0.1:
        picks.append(rng.choice(tds))
        feats.add('findscopes_typedef_match_slice')
    picks = [p for p in picks if not isinstance(p, ir.TypeDef) or 'findscopes_typedef_match_slice' in feats]
    if inside_typedef and rng.random() < 0.5:
        picks.append(rng.choice(inside_typedef))
    for m in picks:
        chains = parents.get(id(m), [])
        expected = [list(ch) for ch in chains]
        for greedy in (True, False):
            if greedy and len(chains) > 1:
                continue   # "stop traversal when found" with a node object that sits at several places: not compared
            C['findscopes_calls'] += 1
            try:
                got = FindScopes(m, greedy=greedy).visit(tree)
            except Exception as e:  # pylint: disable=broad-except
                viol(res, f'findscopes:exception:{type(e).__name__}', f'FindScopes raised {type(e).__name__}: {e}',
                     {'tree': tree_text(tree), 'label': label, 'match': repr(m)})
                continue
            if got:
                C['nonempty_results'] += 1
            ok = isinstance(got, list) and len(got) == len(expected) and all(
                isinstance(g, list) and ids(g) == ids(e) for g, e in zip(got, expected))
            if not ok:
                if isinstance(m, ir.TypeDef) and got and got[0] is m:
                    viol(res, 'findscopes:TypeDef-match-returns-node-not-ancestors',
                         'FindScopes(typedef) returns [typedef] instead of the list of ancestor lists',
                         {'tree': tree_text(tree), 'label': label})
                else:
                    viol(res, f'findscopes:{"greedy" if greedy else "all"}:mismatch:{type(m).__name__}',
                         f'FindScopes({type(m).__name__}, greedy={greedy}) on {label}: got '
                         f'{[[type(x).__name__ for x in g] if isinstance(g, list) else type(g).__name__ for g in got][:3]}'
                         f' expected {[[type(x).__name__ for x in e] for e in expected][:3]}',
                         {'tree': tree_text(tree), 'label': label, 'match': repr(m)})
            else:
                C['findscopes_equal'] += 1


def finder_specs():
    from pymbolic.primitives import Expression
    from loki.expression import symbols as sym
    from loki.ir import (FindVariables, FindTypedSymbols, FindInlineCalls, FindLiterals, FindExpressions,
                         FindRealLiterals, FindLiteralLists)
    return [
        ('FindVariables', FindVariables, lambda e: isinstance(e, (sym.Scalar, sym.Array, sym.DeferredTypeSymbol))),
        ('FindTypedSymbols', FindTypedSymbols, lambda e: isinstance(e, sym.TypedSymbol)),
        ('FindInlineCalls', FindInlineCalls, lambda e: isinstance(e, sym.InlineCall)),
        ('FindLiterals', FindLiterals, lambda e: isinstance(e, (sym.FloatLiteral, sym.IntLiteral, sym.LogicLiteral,
                                                                 sym.StringLiteral, sym.IntrinsicLiteral))),
        ('FindExpressions', FindExpressions, lambda e: isinstance(e, Expression)),
        ('FindRealLiterals', FindRealLiterals, lambda e: isinstance(e, sym.FloatLiteral)),
        ('FindLiteralLists', FindLiteralLists, lambda e: isinstance(e, sym.LiteralList)),
    ]


def uniq_key(var):
    """Documented key of unique mode: (name, parent name, dimensions) for variables, printed form otherwise."""
    from loki.expression import symbols as sym
    if isinstance(var, (sym.Scalar, sym.Array)):
        par = getattr(var, 'parent', None)
        return ('v', var.name, par.name if par else None,
                tuple(str(d) for d in var.dimensions) if isinstance(var, sym.Array) else None)
    return ('s', str(var))


def owner_walk(tree):
    """[(owner node, [expr nodes owned], {field: [expr nodes]} untraversed)] in pre-order, typedefs not entered."""
    out = []
    for n in irlab.preorder(tree, enter_typedef=False):
        ex_all, un = irlab.node_exprs(n)
        out.append((n, ex_all, un))
    return out


def check_exprfinders(rng, label, tree, res, feats, with_ir_on_decls):
    import loki.ir as ir
    from pymbolic.primitives import Expression
    C = res['counters']
    try:
        owned = owner_walk(tree)
    except irlab.UnknownExpr as e:
        res['inconclusive'] = f'unknown expression class {e}'
        return
    has_decl = any(isinstance(n, ir.VariableDeclaration) for n, _, _ in owned)
    for name, F, pred in finder_specs():
        exp_full = [e for _, ex, _ in owned for e in ex if pred(e)]
        untrav_fields = collections.Counter()
        untrav_ids = collections.Counter()
        for n, _, un in owned:
            for fname, sub in un.items():
                hits = [e for e in sub if pred(e)]
                if hits:
                    untrav_fields[f'{type(n).__name__}.{fname}'] += len(hits)
                    untrav_ids.update(ids(hits))
        exp_trav = list((collections.Counter(ids(exp_full)) - untrav_ids).elements())
        C['expr_occurrences_checked'] += len(exp_full)
        # ---- plain list ----
        C['exprfinder_calls'] += 1
        try:
            got = F(unique=False).visit(tree)
        except Exception as e:  # pylint: disable=broad-except
            viol(res, f'finder:{name}:exception:{type(e).__name__}', f'{name}(unique=False) raised '
                 f'{type(e).__name__}: {str(e)[:200]}', {'tree': tree_text(tree), 'label': label})
            continue
        got = list(got)
        if got:
            C['nonempty_results'] += 1
        cg, ce = collections.Counter(ids(got)), collections.Counter(ids(exp_full))
        plain_ok = True
        if cg != ce:
            plain_ok = False
            if cg == collections.Counter(exp_trav) and untrav_fields:
                for fld, cnt in sorted(untrav_fields.items()):
                    viol(res, f'finder:untraversed-expression-field:{fld}',
                         f'{name} misses {cnt} matching expression node(s) held in {fld}, a field outside '
                         f'_traversable (tree {label})', {'tree': tree_text(tree), 'label': label, 'finder': name})
            else:
                by_id = {id(e): (n, e) for n, ex, _ in owned for e in ex}
                missing = [by_id[i] for i in (ce - cg)]
                extra = [e for e in got if id(e) in (cg - ce)]
                desc = ''
                if missing:
                    n, e = missing[0]
                    desc = f'missing-{type(e).__name__}-in-{type(n).__name__}'
                elif extra:
                    desc = f'extra-{type(extra[0]).__name__}'
                viol(res, f'finder:{name}:occurrences:{desc}',
                     f'{name}(unique=False) on {label}: {sum((ce - cg).values())} occurrence(s) missing, '
                     f'{sum((cg - ce).values())} extra; first: {desc} '
                     f'{str(missing[0][1]) if missing else (str(extra[0]) if extra else "")}',
                     {'tree': tree_text(tree), 'label': label, 'finder': name})
        else:
            C['exprfinder_equal'] += 1
        # ---- unique ----
        C['exprfinder_calls'] += 1
        try:
            ug = F(unique=True).visit(tree)
        except Exception as e:  # pylint: disable=broad-except
            viol(res, f'finder:{name}:unique:exception:{type(e).__name__}', f'{name}(unique=True) raised '
                 f'{type(e).__name__}: {str(e)[:200]}', {'tree': tree_text(tree), 'label': label})
            ug = None
        if ug is not None:
            ug = list(ug)
            base = got      # documented: unique mode reduces the non-unique result
            base_ids = set(ids(base))
            keys = [uniq_key(u) for u in ug]
            problems = []
            if any(id(u) not in base_ids for u in ug):
                problems.append('element-not-in-plain-result')
            if len(set(keys)) != len(keys):
                problems.append('duplicate-key')
            kset = set(keys)
            for v in base:
                if uniq_key(v) not in kset and not any(u == v for u in ug):
                    problems.append('class-not-represented')
                    break
            if problems:
                viol(res, f'finder:{name}:unique:{problems[0]}',
                     f'{name}(unique=True) on {label} is not the documented reduction of the plain result: {problems}',
                     {'tree': tree_text(tree), 'label': label, 'finder': name})
            else:
                C['unique_ok'] += 1
        # ---- with_ir_node ----
        if has_decl and not with_ir_on_decls:
            continue
        for unique in (False, True):
            C['exprfinder_calls'] += 1
            try:
                wg = F(unique=unique, with_ir_node=True).visit(tree)
            except Exception as e:  # pylint: disable=broad-except
                if has_decl:
                    viol(res, f'finder:with_ir_node:VariableDeclaration:raises-{type(e).__name__}',
                         f'{name}(unique={unique}, with_ir_node=True) on a tree with declarations raised '
                         f'{type(e).__name__}', {'tree': tree_text(tree), 'label': label, 'finder': name})
                else:
                    viol(res, f'finder:{name}:with_ir_node:exception:{type(e).__name__}',
                         f'{name}(unique={unique}, with_ir_node=True) raised {type(e).__name__}: {str(e)[:200]}',
                         {'tree': tree_text(tree), 'label': label, 'finder': name})
                continue
            check_with_ir(name, pred, unique, wg, owned, untrav_ids, plain_ok, label, tree, res)


def check_with_ir(name, pred, unique, wg, owned, untrav_ids, plain_ok, label, tree, res):
    import loki.ir as ir
    C = res['counters']
    exp = {}
    occ = collections.Counter(id(n) for n, _, _ in owned)
    for n, ex, un in owned:
        hits = [e for e in ex if pred(e) and id(e) not in untrav_ids]
        if hits:
            exp.setdefault(id(n), (n, []))[1].extend(hits)
    got = {}
    bad_shape = None
    for pair in wg:
        if not (isinstance(pair, tuple) and len(pair) == 2 and isinstance(pair[0], ir.Node)):
            bad_shape = repr(pair)[:120]
            break
        got.setdefault(id(pair[0]), (pair[0], []))[1].extend(list(pair[1]))
    w = {'tree': tree_text(tree), 'label': label, 'finder': name, 'unique': unique}
    if bad_shape:
        viol(res, f'finder:{name}:with_ir_node:bad-shape', f'entry is not a (node, expressions) pair: {bad_shape}', w)
        return
    all_ok = True
    for nid in set(exp) | set(got):
        n = (exp.get(nid) or got.get(nid))[0]
        e_list = exp.get(nid, (n, []))[1]
        g_list = got.get(nid, (n, []))[1]
        multi = occ[nid] > 1    # the same node object sits at several places: one entry per place
        if isinstance(n, ir.VariableDeclaration):
            ok = _with_ir_node_ok(e_list, g_list, unique, multi)
            if not ok:
                all_ok = False
                viol(res, 'finder:with_ir_node:VariableDeclaration:garbled',
                     f'{name}(unique={unique}, with_ir_node=True): entry of a VariableDeclaration holds '
                     f'{[type(x).__name__ for x in g_list][:8]} (walk: {[type(x).__name__ for x in e_list][:8]})', w)
            continue
        if not _with_ir_node_ok(e_list, g_list, unique, multi):
            all_ok = False
            if not plain_ok:
                continue    # already reported for the plain mode
            viol(res, f'finder:{name}:with_ir_node:{"unique" if unique else "all"}:wrong-group:{type(n).__name__}',
                 f'{name}(unique={unique}, with_ir_node=True) on {label}: expressions paired with a '
                 f'{type(n).__name__} are {[str(x) for x in g_list][:6]}, walk finds {[str(x) for x in e_list][:6]}', w)
    if all_ok:
        C['with_ir_node_ok'] += 1


def _with_ir_node_ok(e_list, g_list, unique, multi=False):
    if not unique:
        return collections.Counter(ids(e_list)) == collections.Counter(ids(g_list))
    eids = set(ids(e_list))
    if any(id(g) not in eids for g in g_list):
        return False
    keys = [uniq_key(g) for g in g_list]
    if len(set(keys)) != len(keys) and not multi:
        return False
    kset = set(keys)
    return all(uniq_key(e) in kset or any(g == e for g in g_list) for e in e_list)


def check_bare_expressions(rng, label, tree, res):
    """Finders applied directly to expressions and tuples of expressions."""
    C = res['counters']
    owned = owner_walk(tree)
    tops = []
    for n, _, _ in owned:
        for fname, value in irlab.own_expr_fields(n):
            if fname in n._traversable:
                t = []
                irlab._top_exprs(value, irlab._loki()[1], t)
                tops.extend(t)
    if not tops:
        return
    for _ in range(3):
        e = rng.choice(tops)
        arg = e if rng.random() < 0.6 else tuple(rng.choice(tops) for _ in range(rng.randint(1, 3)))
        sub = irlab.walk_expr(arg, [])
        for name, F, pred in finder_specs()[:5]:
            C['exprfinder_calls'] += 1
            exp = [x for x in sub if pred(x)]
            try:
                got = list(F(unique=False).visit(arg))
            except Exception as ex:  # pylint: disable=broad-except
                viol(res, f'finder:{name}:bare-expression:exception:{type(ex).__name__}',
                     f'{name}().visit(<expression>) raised {type(ex).__name__}', {'expr': str(arg)})
                continue
            if collections.Counter(ids(got)) != collections.Counter(ids(exp)):
                viol(res, f'finder:{name}:bare-expression:occurrences',
                     f'{name}(unique=False).visit({str(arg)[:80]}): got {[str(x) for x in got][:8]} walk '
                     f'{[str(x) for x in exp][:8]}', {'expr': str(arg)})
            else:
                C['exprfinder_equal'] += 1
                C['expr_occurrences_checked'] += len(exp)


def run_case(idx, rng, tier, ctx):
    feats = set()
    res = {'sig': None, 'nontrivial': False, 'violations': [], 'inconclusive': None,
           'counters': collections.Counter(), 'features': [], '_seen': set(), '_dups': collections.Counter()}
    try:
        trees, holder = make_trees(rng, ctx, feats)
    except Exception as e:  # pylint: disable=broad-except
        res['inconclusive'] = f'tree construction failed: {type(e).__name__}: {e}'
        res.pop('_seen'), res.pop('_dups')
        return res
    with_ir_on_decls = rng.random() < 0.12
    if with_ir_on_decls:
        feats.add('with_ir_node_on_declarations_slice')
    sigs = []
    for label, tree in trees:
        feats.add('tree:' + label)
        try:
            sigs.append(sighash(repr(irlab.enc(tree))))
        except irlab.UnknownExpr as e:
            res['inconclusive'] = f'unknown expression class {e}'
            break
        check_findnodes(rng, label, tree, res, feats)
        check_findscopes(rng, label, tree, res, feats)
        check_exprfinders(rng, label, tree, res, feats, with_ir_on_decls)
        check_bare_expressions(rng, label, tree, res)
        res['counters']['tree_nodes'] += len(irlab.preorder(tree))
        for n in irlab.preorder(tree):
            feats.add('node:' + type(n).__name__)
    res['nontrivial'] = res['counters']['nonempty_results'] >= 10
    res['sig'] = sighash(sigs)
    res['counters'] = dict(res['counters'])
    res['features'] = sorted(feats)
    res['sample'] = {'trees': [l for l, _ in trees], 'nodes': res['counters'].get('tree_nodes', 0),
                     'calls': {k: v for k, v in res['counters'].items() if k.endswith('_calls')}}
    res.pop('_seen'), res.pop('_dups')
    return res
