module drvmod
  use kinds_mod, only: jprb
  use kmod, only: kern
  implicit none
contains
  subroutine drv(n, m, a1, a2, c1, c2, d1, k1, s1, s2, s3, i1, i2, lg1)
    integer, intent(in) :: n
    integer, intent(in) :: m
    real(kind=jprb), intent(in) :: a1(n)
    real(kind=jprb), intent(inout) :: a2(n)
    real(kind=jprb), intent(out) :: c1(n, m)
    real(kind=jprb), intent(out) :: c2(n, m)
    real(kind=jprb), intent(inout) :: d1(-1:n - 2)
    integer, intent(inout) :: k1(n)
    real(kind=jprb), intent(in) :: s1
    real(kind=jprb), intent(inout) :: s2
    real(kind=jprb), intent(out) :: s3
    integer, intent(in) :: i1
    integer, intent(inout) :: i2
    logical, intent(in) :: lg1
    integer :: ib, nb
    nb = 2
    do ib = 1, nb
      call kern(n, m, a1, a2, c1, c2, d1, k1, s1, s2, s3, i1, i2, lg1)
    end do
  end subroutine drv
end module drvmod
