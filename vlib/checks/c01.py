"""C01 -- parse + regenerate preserves behaviour (differential execution, sanitizers on)."""
import re
from vlib import diffexec
from vlib.fgenlab import ProgGen
from vlib.core import sighash

PID = 'C01'
LEVEL = 'exploration'
RULE = ('E1 feature-flag generated Fortran modules (kernel + helpers + internal procedures + derived type), '
        'read with Sourcefile.from_source (FP frontend) and written with to_fortran(); original and regenerated '
        'units are each compiled with an untouched driver (gfortran -fcheck=all, ASan+UBSan, FPE traps) and run on '
        '4 input sets; outputs compared (integers exact, reals rtol 1e-11). Non-trivial = original compiled and ran '
        'clean and the regenerated text differs from the input text; distinct = hash of the generated source.')
CASES = {'quick': 96, 'thorough': 2400}
MIN_NONTRIVIAL = {'quick': 40, 'thorough': 800}
ANCHORS = ['loki/frontend/fparser.py', 'loki/backend/fgen.py', 'loki/sourcefile.py', 'loki/program_unit.py']
REQUIRED_REACH = ['from_source', 'to_fortran']
ASSUMPTIONS = ['gfortran 12 -O0 with run-time checks is the reference semantics',
               'generated programs are well-defined by construction (original must run clean, else discarded)',
               'real outputs compared to relative 1e-11 (Fortran permits re-association of unparenthesised reals)']
BUDGET_S = {'quick': 400, 'thorough': 3000}


def case_flags(rng, idx):
    f = {}
    f['io_in_kernel'] = rng.random() < 0.3
    f['mixed_case'] = rng.random() < 0.3
    f['overlap'] = rng.random() < 0.5
    f['long_expr'] = rng.random() < 0.3
    f['kinds_module'] = rng.random() < 0.7
    f['max_stmts'] = rng.choice([6, 10, 14, 20])
    # gated slices: mechanisms with a known finding are exercised in a small share of the cases only
    r = idx % 16
    f['associate_expr_complex'] = r == 3
    f['named_cycle_exit'] = r == 7
    f['double_not'] = r == 11
    f['named_if'] = rng.random() < 0.5
    f['quoted_strings'] = rng.random() < 0.5
    return f


def innermost_loki_frame(exc):
    import traceback
    name = '?'
    for fr in traceback.extract_tb(exc.__traceback__):
        if '/loki/' in fr.filename:
            name = fr.name
    return name


_STMT_WORDS = ['associate', 'exit', 'cycle', 'where', 'select case', 'do while', 'call', 'print', 'end do', 'end if']


def classify(detail, src, new):
    """mechanism key of a differing / non-compiling regenerated program"""
    d = detail or ''
    m = re.search(r'Error: (.{0,80})', d)
    if m:
        return 'roundtrip:compile-error:' + re.sub(r'[^A-Za-z ]+', '', m.group(1)).strip().replace(' ', '-')[:50]
    lo_s, lo_n = src.lower(), new.lower()
    if len(re.findall(r'\b(cycle|exit)[ \t]+[a-z]\w*', lo_s)) > len(re.findall(r'\b(cycle|exit)[ \t]+[a-z]\w*', lo_n)) \
            and lo_s.count('exit') == lo_n.count('exit') and lo_s.count('cycle') == lo_n.count('cycle'):
        return 'roundtrip:construct-name-lost-on-cycle-exit'
    for w in _STMT_WORDS:
        cs = len(re.findall(r'^[ \t]*(\w+:[ \t]*)?(if \(.*\) )?' + w + r'\b', lo_s, re.M))
        cn = len(re.findall(r'^[ \t]*(\w+:[ \t]*)?(if \(.*\) )?' + w + r'\b', lo_n, re.M))
        if cn < cs:
            return f"roundtrip:statement-dropped:{w.replace(' ', '-')}"
    if 'runtime error' in d or 'AddressSanitizer' in d or 'exit status' in d:
        return 'roundtrip:runtime-error-in-regenerated'
    return 'roundtrip:output-differs'


def run_case(idx, rng, tier, ctx):
    from loki import Sourcefile
    flags = case_flags(rng, idx)
    case = ProgGen(rng, flags).generate()
    if idx % 8 == 5:
        # long PRINT statements with hostile character literals (quotes of both kinds, blanks, '&', '!')
        from vlib.checks.c04 import hostile_inserts
        case.units, feats = hostile_inserts(case.units, rng)
        case.features |= {'long_print_literals'}
    res = {'sig': sighash(case.units), 'nontrivial': False, 'violations': [], 'inconclusive': None,
           'features': sorted(case.features), 'counters': {}}
    try:
        sf = Sourcefile.from_source(case.units)
        new = sf.to_fortran()
    except Exception as e:  # pylint: disable=broad-except
        res['violations'].append({'key': f'roundtrip:exception:{type(e).__name__}@{innermost_loki_frame(e)}',
                                  'msg': f'{type(e).__name__}: {e}', 'witness': {'source': case.units}})
        return res
    wd = ctx['scratch'] / f'c{idx}'
    d = diffexec.differential(wd, [('k.F90', case.units)], [('k.F90', new)], ('drv.F90', case.driver),
                              stdins=case.stdins)
    res['counters'] = {'program_runs': d['runs'] * 2, 'sanitizer_builds': 2}
    if d['status'] == 'orig_bad':
        res['inconclusive'] = 'generator defect: ' + d['detail'][:300]
    elif d['status'] in ('differ', 'new_build_fail'):
        res['violations'].append({'key': classify(d['detail'], case.units, new), 'msg': d['detail'][:600],
                                  'witness': {'source': case.units, 'regenerated': new, 'driver': case.driver,
                                              'diff': d}})
    else:
        res['nontrivial'] = new.strip() != case.units.strip()
        res['sample'] = {'features': sorted(case.features), 'lines': len(case.units.splitlines()),
                         'first_lines_of_kernel_body': case.units.splitlines()[30:36]}
    import shutil
    shutil.rmtree(wd, ignore_errors=True)
    return res
