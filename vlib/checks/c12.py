"""C12 -- symbol tables / scopes / case-insensitive dicts behave as scoped case-insensitive mappings.

Reference-model monitor: every operation of a random history is applied to the real object and to a model made
of plain dicts keyed by the lower-cased name (holding immutable value descriptors); the observable result of the
operation and the full observable state of every live table are compared after every operation.
"""
from vlib.core import sighash

PID = 'C12'
LEVEL = 'exploration'
TECHNIQUE = 'reference-model monitor (chain of plain dicts) over random operation histories, state compared after every op'
LEVEL_TEXT = ('Each history drives the real SymbolTable / Scope / CaseInsensitiveDict / CaseInsensitiveDefaultDict and a '
              'trivially correct model side by side; result (value or found/not-found outcome) of every operation and '
              'the whole observable state (keys, len, membership and look-ups of several spellings in every live '
              'table, parent links, aliasing probes) must agree after every step. A violation is a concrete history.')
LEVEL_NOTE = ('The model is trusted (about 60 lines of dict code). Histories stop at the first disagreement, so features '
              'that trigger an already listed mechanism are switched on only in small slices of the histories. '
              'Aliasing is probed by attribute assignment on inputs/returned SymbolAttributes (shallow independence).')
RULE = ('case idx picks a family (idx%4: SymbolTable chain, Scope/Associate chain, CaseInsensitiveDict, '
        'CaseInsensitiveDefaultDict) and draws a history of 40 (quick) / 120 (thorough) operations over 8 base names '
        'in random spellings on 1-4 nested tables (set, setdefault, update from dict/pairs, get, [], lookup '
        'recursive/local, in, del, pop, clone, re-parenting, declare/update/get_type/get_symbol_scope, |, copy, '
        'constructor). Non-trivial = at least 10 mutating operations executed, at least one look-up through a parent '
        'or with a non-stored spelling succeeded; distinct = hash of the operation list.')
CASES = {'quick': 6000, 'thorough': 48000}
THOROUGH_VALIDATED = True   # full thorough tier ran to completion with exit 0 on the unchanged tree
MIN_NONTRIVIAL = {'quick': 3500, 'thorough': 30000}
ANCHORS = ['loki/types/symbol_table.py', 'loki/types/scope.py', 'loki/tools/util.py']
REQUIRED_REACH = ['lookup', '__setitem__', 'setdefault', 'update', 'clone', 'declare', 'get_type',
                  'get_symbol_scope', '_reset_parent']
REQUIRED_COUNTERS = {'oracle_evals': 200000, 'ops': 50000, 'histories_symtab': 500, 'histories_scope': 500,
                     'histories_cidict': 500, 'histories_cidefaultdict': 500}
ASSUMPTIONS = ['table keys are the lower-cased name with any "(...)" suffix removed (documented in format_lookup_name)',
               'setdefault is expected to return the stored value as dict.setdefault does',
               'Scope re-parenting is exercised through Scope.clone(parent=) and Scope._reset_parent (the call Loki '
               'itself uses); SymbolTable re-parenting through the parent setter',
               'values()/items() of SymbolTable are not probed for aliasing (not look-ups)']
BUDGET_S = {'quick': 300, 'thorough': 3000}
CASE_TIMEOUT_S = 60

BASE = ['a', 'bc', 'x_1', 'tmp', 'k', 'zz', 'a%b', 'a%b%cd']


def spell(rng, name):
    m = rng.random()
    if m < 0.3:
        return name
    if m < 0.5:
        return name.upper()
    if m < 0.6:
        return name.capitalize()
    return ''.join(c.upper() if rng.random() < 0.5 else c for c in name)


class Stop(Exception):
    """History ends (first disagreement)."""


class Mon:
    def __init__(self, fam):
        self.fam = fam
        self.viol = []
        self.evals = 0
        self.ops = []          # printable op log (the witness)
        self.mutating = 0
        self.deep_hits = 0     # look-ups that succeeded through a parent or with a non-stored spelling

    def fail(self, key, msg):
        self.viol.append({'key': f'{self.fam}:{key}', 'msg': msg,
                          'witness': {'history': self.ops[-25:], 'length': len(self.ops)}})
        raise Stop()

    def eq(self, a, b, key, what):
        self.evals += 1
        if a != b:
            self.fail(key, f'{what}: real {a!r} != model {b!r} after {self.ops[-1] if self.ops else None}')


# ---------------------------------------------------------------------------
# symbol tables and scopes
# ---------------------------------------------------------------------------

def desc(attrs):
    """Immutable observable description of a SymbolAttributes (or None)."""
    if attrs is None:
        return None
    return tuple(sorted((k, repr(v)) for k, v in attrs.__dict__.items()))


def mkey(name):
    return name.lower().partition('(')[0]


class MTable:
    """The reference: a plain dict keyed by lower-cased name, with a parent link."""
    def __init__(self, parent=None):
        self.d = {}
        self.parent = parent

    def lookup(self, name, recursive=True):
        k, t = mkey(name), self
        while t is not None:
            if k in t.d:
                return t.d[k]
            if not recursive:
                return None
            t = t.parent
        return None

    def owner(self, name):
        k, t = mkey(name), self
        while t is not None:
            if k in t.d:
                return t
            t = t.parent
        return None

    def ancestors(self):
        t, out = self.parent, []
        while t is not None:
            out.append(t)
            t = t.parent
        return out


DT = {'integer': 'INTEGER', 'real': 'REAL', 'logical': 'LOGICAL', 'LOGICAL': 'LOGICAL', 'double precision': 'REAL',
      'Character': 'CHARACTER', 'REAL': 'REAL'}


class TableHistory:
    """Families 'symtab' (raw SymbolTable chains) and 'scope' (Scope / Associate chains)."""

    def __init__(self, rng, fam, nops, flags, mon):
        from loki.types import SymbolTable, Scope, SymbolAttributes, BasicType
        self.SymbolTable, self.Scope, self.SA, self.BT = SymbolTable, Scope, SymbolAttributes, BasicType
        self.rng, self.fam, self.nops, self.flags, self.mon = rng, fam, nops, flags, mon
        self.nodes = []       # list of dicts: real (table or scope), model (MTable), kind
        self.tag = 0
        self.keep = []        # keep strong refs to everything (parents are weakrefs)

    # -- helpers --------------------------------------------------------------------------
    def tab(self, n):
        return n['real'].symbol_attrs if self.fam == 'scope' else n['real']

    def name(self, other_spelling=True):
        n = self.rng.choice(BASE)
        if self.flags['dims_in_key'] and self.rng.random() < 0.3:
            return spell(self.rng, n) + self.rng.choice(['(i)', '(1:n, j)', '(:)'])
        return spell(self.rng, n) if other_spelling else n

    def mkattrs(self):
        r = self.rng
        self.tag += 1
        dt = r.choice([self.BT.INTEGER, self.BT.REAL, self.BT.LOGICAL, self.BT.DEFERRED])
        kw = {'tag': self.tag}
        if r.random() < 0.4:
            kw['intent'] = r.choice(['in', 'inout', 'out'])
        if r.random() < 0.3:
            kw['shape'] = (r.choice([1, 5, 'n']),)
        if r.random() < 0.2:
            kw['pointer'] = True
        a = self.SA(dt, **kw)
        return a, desc(a)

    def new_node(self, parent_idx, kind=None):
        from loki import ir
        pm = self.nodes[parent_idx] if parent_idx is not None else None
        if self.fam == 'symtab':
            real = self.SymbolTable(parent=pm['real']) if pm else self.SymbolTable()
            kind = 'table'
        else:
            kind = kind or self.rng.choice(['scope', 'assoc'])
            if kind == 'scope':
                real = self.Scope(parent=pm['real']) if pm else self.Scope()
            else:
                real = ir.Associate(associations=(), body=(), parent=pm['real'] if pm else None)
        node = {'real': real, 'model': MTable(pm['model'] if pm else None), 'kind': kind}
        self.nodes.append(node)
        self.keep.append(real)
        return node

    def idx_of_model(self, m):
        for i, n in enumerate(self.nodes):
            if n['model'] is m:
                return i
        return None

    def log(self, text):
        self.mon.ops.append(text)

    def call(self, fn, expected_exc=()):
        """Run an operation on the real object. Returns ('ok', value) or ('exc', ExcClassName)."""
        try:
            return 'ok', fn()
        except expected_exc as e:
            return 'exc', type(e).__name__
        except Stop:
            raise
        except Exception as e:  # pylint: disable=broad-except
            return 'exc!', f'{type(e).__name__}: {e}'

    # -- full state comparison ------------------------------------------------------------
    def compare_state(self, opname):
        mon, rng = self.mon, self.rng
        for i, n in enumerate(self.nodes):
            # parent links of every table first (a stale link shows up in the look-ups of all descendants)
            t, m = self.tab(n), n['model']
            exp_parent = None if m.parent is None else self.nodes[self.idx_of_model(m.parent)]
            if self.fam == 'scope':
                mon.evals += 1
                if n['real'].parent is not (exp_parent['real'] if exp_parent else None):
                    mon.fail(f'{opname}:state-scope-parent', f'scope {i}: parent link differs from model')
            mon.evals += 1
            exp_tab_parent = self.tab(exp_parent) if exp_parent else None
            if t.parent is not exp_tab_parent:
                self.classify_parent(opname, i, t, m, exp_tab_parent)
        for i, n in enumerate(self.nodes):
            t, m = self.tab(n), n['model']
            mon.eq(sorted(t.keys()), sorted(m.d.keys()), f'{opname}:state-keys', f'keys of table {i}')
            mon.eq(len(t), len(m.d), f'{opname}:state-len', f'len of table {i}')
            for base in BASE:
                for sp in (base, spell(rng, base)):
                    mon.eq(sp in t, mkey(sp) in m.d, f'{opname}:state-in', f'{sp!r} in table {i}')
                    got = self.observe(lambda: t.lookup(sp), opname, i, sp)
                    exp = m.lookup(sp)
                    self.check_value(got, exp, opname, f'lookup({sp!r}) on table {i}')
                    got = self.observe(lambda: t.lookup(sp, recursive=False), opname, i, sp)
                    self.check_value(got, m.lookup(sp, recursive=False), opname,
                                     f'lookup({sp!r}, recursive=False) on table {i}')
                    if exp is not None and (mkey(sp) not in m.d or sp != mkey(sp)):
                        mon.deep_hits += 1

    def observe(self, fn, opname, i, sp):
        try:
            return desc(fn())
        except Exception as e:  # pylint: disable=broad-except
            self.mon.fail(f'{opname}:state-lookup-exception:{type(e).__name__}',
                          f'look-up of {sp!r} on table {i} raised {type(e).__name__}: {e}')
        return None

    def check_value(self, got, exp, opname, what):
        self.mon.evals += 1
        if got == exp:
            return
        names = {k for k, _ in got} if got else set()
        if 'poison_in' in names:
            self.mon.fail(f'{opname}:stored-value-aliases-input', f'{what}: mutation of the object passed in is visible')
        if 'poison_ret' in names:
            self.mon.fail(f'{opname}:returned-value-aliases-stored',
                          f'{what}: mutation of a previously returned object is visible')
        self.mon.fail(f'{opname}:state-lookup', f'{what}: real {got!r} != model {exp!r}')

    def classify_parent(self, opname, i, t, m, exp_tab_parent):
        if opname.startswith('clone') and t.parent is None and exp_tab_parent is not None and len(exp_tab_parent) == 0:
            self.mon.fail('clone-drops-empty-parent',
                          f'table {i} = clone of a table whose parent is an empty table: clone has parent None')
        if opname == 'reset_parent_none' and t.parent is not None and exp_tab_parent is None:
            self.mon.fail('reset-parent-none-keeps-table-link',
                          f'scope {i}: _reset_parent(None) leaves symbol_attrs.parent pointing at the old parent table')
        self.mon.fail(f'{opname}:state-table-parent', f'table {i}: parent link differs from model')

    # -- one history ----------------------------------------------------------------------
    def run(self):
        rng = self.rng
        depth = rng.choice([1, 2, 3, 4])
        self.new_node(None, kind='scope' if self.fam == 'scope' else None)
        for d in range(1, depth):
            self.new_node(rng.choice([d - 1, d - 1, rng.randrange(d)]))
        self.log(f'init chain parents={[self.idx_of_model(n["model"].parent) for n in self.nodes]} '
                 f'kinds={[n["kind"] for n in self.nodes]}')
        self.compare_state('init')
        ops = ['set'] * 6 + ['setdefault'] * 3 + ['update_dict'] * 2 + ['update_pairs'] * 2 + ['get'] * 2 + \
              ['getitem'] * 2 + ['lookup'] * 2 + ['del'] * 3 + ['pop'] * 3 + ['clone'] * 2 + ['reparent'] * 2 + \
              ['mutate_returned'] * 2
        if self.fam == 'scope':
            ops += ['declare'] * 5 + ['update_attrs'] * 4 + ['get_type'] * 3 + ['get_symbol_scope'] * 3 + \
                   ['get_dtype'] + ['parents']
        for _ in range(self.nops):
            op = rng.choice(ops)
            i = rng.randrange(len(self.nodes))
            getattr(self, 'op_' + op)(i, self.nodes[i])
            self.compare_state(self.last)
        return self

    last = 'init'

    def stored_spelling(self, flag):
        """Other spellings for del/pop only in the flagged slice (listed mechanism)."""
        n = self.name(other_spelling=self.flags[flag])
        return n if self.flags[flag] else mkey(n)

    # mutating ops
    def op_set(self, i, n):
        name = self.name()
        a, d = self.mkattrs()
        self.last = 'set'
        self.log(f't{i}[{name!r}] = #{self.tag}')
        st, val = self.call(lambda: self.tab(n).__setitem__(name, a))
        if st != 'ok':
            self.mon.fail('set:exception', f'__setitem__ raised {val}')
        a.poison_in = True
        n['model'].d[mkey(name)] = d
        self.mon.mutating += 1

    def op_setdefault(self, i, n):
        name = self.name()
        use_default = self.rng.random() < 0.25
        a, d = (None, (('dtype', repr(self.BT.DEFERRED)),)) if use_default else self.mkattrs()
        self.last = 'setdefault'
        self.log(f't{i}.setdefault({name!r}, {"None" if use_default else "#" + str(self.tag)})')
        st, val = self.call(lambda: self.tab(n).setdefault(name, a) if not use_default
                            else self.tab(n).setdefault(name))
        if st != 'ok':
            self.mon.fail('setdefault:exception', f'setdefault raised {val}')
        if a is not None:
            a.poison_in = True
        m = n['model']
        if mkey(name) not in m.d:
            m.d[mkey(name)] = d
        if self.flags['setdefault_ret']:
            self.mon.evals += 1
            if val is None:
                self.mon.fail('setdefault-returns-none', 'setdefault returned None instead of the stored value')
            self.mon.eq(desc(val), m.d[mkey(name)], 'setdefault:result', 'setdefault return value')
            val.poison_ret = True
        self.mon.mutating += 1

    def op_update_dict(self, i, n, pairs=False):
        k = self.rng.choice([1, 2, 3])
        items = []
        for _ in range(k):
            a, d = self.mkattrs()
            items.append((self.name(), a, d))
        self.last = 'update_pairs' if pairs else 'update_dict'
        self.log(f't{i}.update({"pairs" if pairs else "dict"} {[(nm, dd[-1][1]) for nm, _, dd in items]})')
        arg = [(nm, a) for nm, a, _ in items] if pairs else {nm: a for nm, a, _ in items}
        st, val = self.call(lambda: self.tab(n).update(arg))
        if st != 'ok':
            self.mon.fail(f'{self.last}:exception', f'update raised {val}')
        descs = {id(a): d for _, a, d in items}
        for nm, a in (arg if pairs else arg.items()):      # same order / duplicate-key semantics as the argument
            n['model'].d[mkey(nm)] = descs[id(a)]
        for _, a, _ in items:
            a.poison_in = True
        self.mon.mutating += 1

    def op_update_pairs(self, i, n):
        self.op_update_dict(i, n, pairs=True)

    def op_del(self, i, n):
        name = self.stored_spelling('del_other')
        self.last = 'del'
        self.log(f'del t{i}[{name!r}]')
        m = n['model']
        st, val = self.call(lambda: self.tab(n).__delitem__(name), (KeyError,))
        present = mkey(name) in m.d
        self.mon.evals += 1
        if st == 'exc!':
            self.mon.fail('del:exception', f'del raised {val}')
        if present and st == 'exc':
            if name != mkey(name):
                self.mon.fail('del-other-spelling', f'{name!r} in t is True but del t[{name!r}] raises KeyError')
            self.mon.fail('del:keyerror-on-present-key', f'del t[{name!r}] raises KeyError for a stored key')
        if not present and st == 'ok':
            self.mon.fail('del:no-keyerror-on-absent-key', f'del t[{name!r}] succeeded for an absent key')
        m.d.pop(mkey(name), None)
        self.mon.mutating += 1

    def op_pop(self, i, n):
        name = self.stored_spelling('pop_other')
        with_default = self.rng.random() < 0.4
        self.last = 'pop'
        self.log(f't{i}.pop({name!r}{", DEFAULT" if with_default else ""})')
        m = n['model']
        st, val = self.call(lambda: self.tab(n).pop(name, 'DEFAULT') if with_default else self.tab(n).pop(name),
                            (KeyError,))
        present = mkey(name) in m.d
        self.mon.evals += 1
        if st == 'exc!':
            self.mon.fail('pop:exception', f'pop raised {val}')
        if present:
            if st == 'exc' or (with_default and isinstance(val, str)):
                if name != mkey(name):
                    self.mon.fail('pop-other-spelling',
                                  f'{name!r} in t is True but t.pop({name!r}) raises KeyError / returns the default')
                self.mon.fail('pop:misses-present-key', f't.pop({name!r}) misses a stored key')
            self.mon.eq(desc(val), m.d[mkey(name)], 'pop:result', 'value returned by pop')
            del m.d[mkey(name)]
        else:
            if with_default:
                self.mon.eq((st, val), ('ok', 'DEFAULT'), 'pop:result', 'pop of an absent key with default')
            else:
                self.mon.eq(st, 'exc', 'pop:result', 'pop of an absent key')
        self.mon.mutating += 1

    # reading ops
    def _read(self, i, n, label, fn, exp, keyerror=False):
        self.last = label
        st, val = self.call(fn, (KeyError,))
        if st == 'exc!':
            self.mon.fail(f'{label}:exception', f'{label} raised {val}')
        self.mon.evals += 1
        if exp is None and keyerror:
            if st != 'exc':
                self.mon.fail(f'{label}:result', f'{label}: expected KeyError, got {desc(val)!r}')
            return None
        if st == 'exc':
            self.mon.fail(f'{label}:result', f'{label}: KeyError but model has {exp!r}')
        if isinstance(val, str) or val is None:
            self.mon.eq(val, exp, f'{label}:result', label)
            return None
        self.mon.eq(desc(val), exp, f'{label}:result', label)
        return val

    def op_get(self, i, n):
        name = self.name()
        dflt = self.rng.random() < 0.3
        self.log(f't{i}.get({name!r}{", DEFAULT" if dflt else ""})')
        exp = n['model'].lookup(name, recursive=False)
        if exp is None and dflt:
            exp = 'DEFAULT'
        return self._read(i, n, 'get', lambda: self.tab(n).get(name, 'DEFAULT') if dflt else self.tab(n).get(name), exp)

    def op_getitem(self, i, n):
        name = self.name()
        self.log(f't{i}[{name!r}]')
        return self._read(i, n, 'getitem', lambda: self.tab(n)[name], n['model'].lookup(name, recursive=False),
                          keyerror=True)

    def op_lookup(self, i, n):
        name = self.name()
        rec = self.rng.random() < 0.7
        self.log(f't{i}.lookup({name!r}, recursive={rec})')
        return self._read(i, n, 'lookup', lambda: self.tab(n).lookup(name, recursive=rec),
                          n['model'].lookup(name, recursive=rec))

    def op_mutate_returned(self, i, n):
        val = self.rng.choice([self.op_get, self.op_getitem, self.op_lookup])(i, n)
        if val is not None:
            self.log('   (returned attributes mutated)')
            val.poison_ret = True
            val.dtype = self.BT.COMPLEX

    # structure ops
    def op_clone(self, i, n):
        rng = self.rng
        m = n['model']
        mode = rng.choice(['same', 'same', 'parent', 'noparent'])
        if self.fam == 'scope' and n['kind'] == 'scope' and not self.flags['bare_scope_clone']:
            return self.op_set(i, n)
        if len(self.nodes) >= 7:
            return self.op_set(i, n)
        if mode == 'same' and m.parent is not None and not m.parent.d and not self.flags['clone_empty_parent'] \
                and self.fam == 'symtab':
            return self.op_set(i, n)
        kwargs = {}
        newparent = m.parent
        if mode == 'parent':
            j = rng.randrange(len(self.nodes))
            kwargs['parent'] = self.nodes[j]['real']
            newparent = self.nodes[j]['model']
        elif mode == 'noparent':
            kwargs['parent'] = None
            newparent = None
        self.last = 'clone' if mode == 'same' else 'clone_parent'
        self.log(f't{len(self.nodes)} = t{i}.clone({"" if mode == "same" else "parent=" + str(self.idx_of_model(newparent))})')
        st, val = self.call(lambda: n['real'].clone(**kwargs))
        if st != 'ok':
            if self.fam == 'scope' and n['kind'] == 'scope' and 'symbol_attrs' in str(val):
                self.mon.fail('clone-bare-scope-typeerror', f'Scope.clone() on a plain Scope raised {val}')
            self.mon.fail(f'{self.last}:exception', f'clone raised {val}')
        self.mon.evals += 1
        if val is n['real'] or (self.tab({'real': val}) is self.tab(n)):
            self.mon.fail(f'{self.last}:not-a-copy', 'clone returned the same table object')
        nm = MTable(newparent)
        nm.d = dict(m.d)
        self.nodes.append({'real': val, 'model': nm, 'kind': n['kind']})
        self.keep.append(val)
        self.mon.mutating += 1
        return None

    def op_reparent(self, i, n):
        m = n['model']
        # candidates: any node that is not i and not a descendant of i (no cycles), or None
        cands = [None]
        for j, o in enumerate(self.nodes):
            if j != i and m not in o['model'].ancestors() and o['model'] is not m:
                cands.append(j)
        j = self.rng.choice(cands)
        if self.fam == 'symtab':
            self.last = 'reparent'
            self.log(f't{i}.parent = {"None" if j is None else "t" + str(j)}')
            st, val = self.call(lambda: setattr(n['real'], 'parent', None if j is None else self.nodes[j]['real']))
        else:
            if j is None and not self.flags['reset_parent_none']:
                return self.op_set(i, n)
            self.last = 'reset_parent_none' if j is None else 'reset_parent'
            self.log(f's{i}._reset_parent({"None" if j is None else "s" + str(j)})')
            st, val = self.call(lambda: n['real']._reset_parent(None if j is None else self.nodes[j]['real']))
        if st != 'ok':
            self.mon.fail(f'{self.last}:exception', f're-parenting raised {val}')
        m.parent = None if j is None else self.nodes[j]['model']
        self.mon.mutating += 1
        return None

    # Scope API
    def op_declare(self, i, n):
        rng = self.rng
        name = self.name()
        dts = rng.choice(list(DT))
        fail = rng.random() < 0.6
        kw = {'tag': self.tag + 1}
        self.tag += 1
        if rng.random() < 0.4:
            kw['intent'] = rng.choice(['in', 'out'])
        self.last = 'declare'
        self.log(f's{i}.declare({name!r}, {dts!r}, fail={fail}, {kw})')
        m = n['model']
        st, val = self.call(lambda: n['real'].declare(name, dts, fail=fail, **kw), (ValueError,))
        if st == 'exc!':
            self.mon.fail('declare:exception', f'declare raised {val}')
        self.mon.evals += 1
        if fail and mkey(name) in m.d:
            if st != 'exc':
                self.mon.fail('declare:no-error-on-redeclaration', f'declare({name!r}) of a declared name did not fail')
            return
        if st == 'exc':
            self.mon.fail('declare:spurious-error', f'declare({name!r}) failed although the name is not declared here')
        d = {'dtype': repr(getattr(self.BT, DT[dts]))}
        d.update({k: repr(v) for k, v in kw.items()})
        m.d[mkey(name)] = tuple(sorted(d.items()))
        self.mon.mutating += 1

    def op_update_attrs(self, i, n):
        rng = self.rng
        name = self.name()
        fail = rng.random() < 0.6
        m = n['model']
        kw = {}
        if rng.random() < 0.5 or (not fail and mkey(name) not in m.d):
            kw['dtype'] = rng.choice(list(DT))
        if rng.random() < 0.6:
            kw['intent'] = rng.choice(['in', 'out', None])
        if rng.random() < 0.4:
            self.tag += 1
            kw['tag'] = self.tag
        self.last = 'update_attrs'
        self.log(f's{i}.update({name!r}, fail={fail}, {kw})')
        st, val = self.call(lambda: n['real'].update(name, fail=fail, **kw), (ValueError,))
        if st == 'exc!':
            self.mon.fail('update_attrs:exception', f'Scope.update raised {val}')
        self.mon.evals += 1
        if fail and mkey(name) not in m.d:
            if st != 'exc':
                self.mon.fail('update_attrs:no-error-on-undeclared', f'update({name!r}) of an undeclared name did not fail')
            return
        if st == 'exc':
            self.mon.fail('update_attrs:spurious-error', f'update({name!r}) failed although the name is declared here')
        d = dict(m.d.get(mkey(name), ()))
        for k, v in kw.items():
            if k == 'dtype':
                v = getattr(self.BT, DT[v])
            if v is None:
                d.pop(k, None)
            else:
                d[k] = repr(v)
        m.d[mkey(name)] = tuple(sorted(d.items()))
        self.mon.mutating += 1

    def op_get_type(self, i, n, dtype_only=False):
        rng = self.rng
        name = self.name()
        rec, fail = rng.random() < 0.7, rng.random() < 0.5
        label = 'get_dtype' if dtype_only else 'get_type'
        self.last = label
        self.log(f's{i}.{label}({name!r}, recursive={rec}, fail={fail})')
        exp = n['model'].lookup(name, recursive=rec)
        fn = n['real'].get_dtype if dtype_only else n['real'].get_type
        st, val = self.call(lambda: fn(name, recursive=rec, fail=fail), (KeyError,))
        if st == 'exc!':
            self.mon.fail(f'{label}:exception', f'{label} raised {val}')
        self.mon.evals += 1
        if exp is None:
            if fail and st != 'exc':
                self.mon.fail(f'{label}:no-keyerror', f'{label}({name!r}) of an undeclared name did not raise')
            if not fail and (st != 'ok' or val is not None):
                self.mon.fail(f'{label}:result', f'{label}({name!r}, fail=False) of an undeclared name gave {val!r}')
            return
        if st != 'ok':
            self.mon.fail(f'{label}:result', f'{label}({name!r}) raised KeyError but the model finds {exp!r}')
        if dtype_only:
            self.mon.eq(repr(val), dict(exp)['dtype'], f'{label}:result', label)
        else:
            self.mon.eq(desc(val), exp, f'{label}:result', label)
            val.poison_ret = True

    def op_get_dtype(self, i, n):
        self.op_get_type(i, n, dtype_only=True)

    def op_get_symbol_scope(self, i, n):
        name = spell(self.rng, self.rng.choice(BASE))
        self.last = 'get_symbol_scope'
        self.log(f's{i}.get_symbol_scope({name!r})')
        owner = n['model'].owner(name)
        st, val = self.call(lambda: n['real'].get_symbol_scope(name))
        if st != 'ok':
            self.mon.fail('get_symbol_scope:exception', f'get_symbol_scope raised {val}')
        self.mon.evals += 1
        exp = None if owner is None else self.nodes[self.idx_of_model(owner)]['real']
        if val is not exp:
            self.mon.fail('get_symbol_scope:result', f'get_symbol_scope({name!r}) returned {val!r}, model expects '
                          f'{"None" if exp is None else "scope " + str(self.idx_of_model(owner))}')

    def op_parents(self, i, n):
        self.last = 'parents'
        self.log(f's{i}.parents')
        st, val = self.call(lambda: n['real'].parents)
        if st != 'ok':
            self.mon.fail('parents:exception', f'parents raised {val}')
        exp = [self.nodes[self.idx_of_model(a)]['real'] for a in reversed(n['model'].ancestors())]
        self.mon.evals += 1
        if len(val) != len(exp) or any(a is not b for a, b in zip(val, exp)):
            self.mon.fail('parents:result', 'Scope.parents differs from the model chain')


# ---------------------------------------------------------------------------
# case-insensitive dictionaries
# ---------------------------------------------------------------------------

def lk(key):
    return key.lower() if isinstance(key, str) else key


class DictHistory:
    """Families 'cidict' (CaseInsensitiveDict) and 'cidefaultdict' (CaseInsensitiveDefaultDict)."""
    KEYS = ['a', 'bc', 'x_1', 'tmp', 'k', 'zz', 'stra', 'Key']

    def __init__(self, rng, fam, nops, flags, mon):
        from loki.tools.util import CaseInsensitiveDict, CaseInsensitiveDefaultDict
        self.rng, self.fam, self.nops, self.flags, self.mon = rng, fam, nops, flags, mon
        self.cls = CaseInsensitiveDict if fam == 'cidict' else CaseInsensitiveDefaultDict
        self.default = fam == 'cidefaultdict'
        self.val = 0

    def key(self, flag=None):
        r = self.rng
        if r.random() < 0.08:
            return r.choice([3, (1, 'A'), 7.5])          # non-string keys pass through unchanged
        k = r.choice(self.KEYS)
        if flag is not None and not self.flags[flag]:
            return k.lower()
        return spell(r, k)

    def value(self):
        self.val += 1
        return [self.val] if self.default or self.rng.random() < 0.3 else self.val

    def new(self, *args, **kw):
        return self.cls(list, *args, **kw) if self.default else self.cls(*args, **kw)

    def call(self, fn, exc=(KeyError,)):
        try:
            return 'ok', fn()
        except exc as e:
            return 'exc', type(e).__name__
        except Exception as e:  # pylint: disable=broad-except
            return 'exc!', f'{type(e).__name__}: {e}'

    def log(self, t):
        self.mon.ops.append(t)

    def compare_state(self, op, real=None, model=None, what='d'):
        mon = self.mon
        real = self.real if real is None else real
        model = self.model if model is None else model
        mon.evals += 1
        keys = list(real.keys())
        if keys != list(model.keys()):
            raw = [k for k in keys if isinstance(k, str) and k != k.lower()]
            if raw:
                mon.fail(f'{op}:stores-raw-key', f'{what}: keys {keys!r} contain non-folded key(s) {raw!r} '
                         f'(model keys {list(model.keys())!r})')
            mon.fail(f'{op}:state-keys', f'{what}: keys {keys!r} != model {list(model.keys())!r}')
        mon.eq(len(real), len(model), f'{op}:state-len', f'len({what})')
        mon.eq(list(real.values()), list(model.values()), f'{op}:state-values', f'values of {what}')
        for base in self.KEYS + [3, (1, 'A')]:
            for sp in ((base, spell(self.rng, base)) if isinstance(base, str) else (base,)):
                mon.eq(sp in real, lk(sp) in model, f'{op}:state-in', f'{sp!r} in {what}')
                mon.eq(real.get(sp, 'MISSING'), model.get(lk(sp), 'MISSING'), f'{op}:state-get', f'{what}.get({sp!r})')
                if lk(sp) in model and sp != lk(sp):
                    mon.deep_hits += 1
        mon.eq(len(real), len(model), f'{op}:state-len-after-reads', f'len({what}) after get/in (no insertion by reads)')
        mon.evals += 1
        if type(real) is not self.cls:  # pylint: disable=unidiomatic-typecheck
            mon.fail(f'{op}:result-type', f'{what} is a {type(real).__name__}')

    def run(self):
        rng, mon = self.rng, self.mon
        self.real, self.model = self.new(), {}
        self.log(f'd = {self.cls.__name__}({"list" if self.default else ""})')
        ops = ['set'] * 6 + ['getitem'] * 3 + ['get'] * 2 + ['del'] * 3 + ['pop'] * 3 + ['setdefault'] * 3 + \
              ['update'] * 3 + ['ctor'] * 2 + ['or'] * 2 + ['ior'] + ['copy'] + ['eq'] + ['popitem'] + ['append']
        for _ in range(self.nops):
            op = rng.choice(ops)
            getattr(self, 'op_' + op)()
            self.compare_state(self.last)
        return self

    last = 'init'

    def op_set(self):
        k, v = self.key(), self.value()
        self.last = 'set'
        self.log(f'd[{k!r}] = {v!r}')
        st, val = self.call(lambda: self.real.__setitem__(k, v))
        if st != 'ok':
            self.mon.fail('set:exception', f'__setitem__ raised {val}')
        self.model[lk(k)] = v
        self.mon.mutating += 1

    def op_getitem(self):
        k = self.key()
        self.last = 'getitem'
        self.log(f'd[{k!r}]')
        st, val = self.call(lambda: self.real[k])
        if st == 'exc!':
            self.mon.fail('getitem:exception', f'__getitem__ raised {val}')
        if lk(k) in self.model:
            self.mon.eq((st, val), ('ok', self.model[lk(k)]), 'getitem:result', f'd[{k!r}]')
        elif self.default:
            self.mon.eq((st, val), ('ok', []), 'getitem:result', f'd[{k!r}] (default factory)')
            self.model[lk(k)] = val
            self.mon.mutating += 1
        else:
            self.mon.eq(st, 'exc', 'getitem:result', f'd[{k!r}] of an absent key')

    def op_append(self):
        if not self.default:
            return self.op_set()
        k = self.key()
        self.last = 'getitem'
        self.val += 1
        self.log(f'd[{k!r}].append({self.val})')
        st, val = self.call(lambda: self.real[k].append(self.val))
        if st != 'ok':
            self.mon.fail('getitem:exception', f'd[k].append raised {val}')
        if lk(k) not in self.model:
            # value lists are shared by identity between real and model (as for every other stored value)
            lst = dict.get(self.real, lk(k))
            self.model[lk(k)] = lst if lst is not None else [self.val]
        self.mon.mutating += 1
        return None

    def op_get(self):
        k = self.key()
        self.last = 'get'
        self.log(f'd.get({k!r}, -1)')
        st, val = self.call(lambda: self.real.get(k, -1))
        self.mon.eq((st, val), ('ok', self.model.get(lk(k), -1)), 'get:result', f'd.get({k!r})')

    def op_del(self):
        k = self.key('del_other')
        self.last = 'del'
        self.log(f'del d[{k!r}]')
        st, val = self.call(lambda: self.real.__delitem__(k))
        self.mon.evals += 1
        if st == 'exc!':
            self.mon.fail('del:exception', f'del raised {val}')
        present = lk(k) in self.model
        if present and st == 'exc':
            if k != lk(k):
                self.mon.fail('del-other-spelling', f'{k!r} in d is True but del d[{k!r}] raises KeyError')
            self.mon.fail('del:keyerror-on-present-key', f'del d[{k!r}] raises KeyError for a stored key')
        if not present and st == 'ok':
            self.mon.fail('del:no-keyerror-on-absent-key', f'del d[{k!r}] succeeded for an absent key')
        self.model.pop(lk(k), None)
        self.mon.mutating += 1

    def op_pop(self):
        k = self.key('pop_other')
        dflt = self.rng.random() < 0.4
        self.last = 'pop'
        self.log(f'd.pop({k!r}{", DEFAULT" if dflt else ""})')
        st, val = self.call(lambda: self.real.pop(k, 'DEFAULT') if dflt else self.real.pop(k))
        self.mon.evals += 1
        if st == 'exc!':
            self.mon.fail('pop:exception', f'pop raised {val}')
        if lk(k) in self.model:
            if st == 'exc' or (dflt and val == 'DEFAULT'):
                if k != lk(k):
                    self.mon.fail('pop-other-spelling',
                                  f'{k!r} in d is True but d.pop({k!r}) raises KeyError / returns the default')
                self.mon.fail('pop:misses-present-key', f'd.pop({k!r}) misses a stored key')
            self.mon.eq(val, self.model.pop(lk(k)), 'pop:result', 'value returned by pop')
        elif dflt:
            self.mon.eq((st, val), ('ok', 'DEFAULT'), 'pop:result', 'pop of an absent key with default')
        else:
            self.mon.eq(st, 'exc', 'pop:result', 'pop of an absent key')
        self.mon.mutating += 1

    def op_setdefault(self):
        k, v = self.key('setdefault_other' if self.default else None), self.value()
        self.last = 'setdefault'
        self.log(f'd.setdefault({k!r}, {v!r})')
        st, val = self.call(lambda: self.real.setdefault(k, v))
        if st != 'ok':
            self.mon.fail('setdefault:exception', f'setdefault raised {val}')
        exp = self.model.setdefault(lk(k), v)
        self.mon.evals += 1
        if val != exp:
            if k != lk(k):
                self.mon.fail('setdefault:stores-raw-key', f'd.setdefault({k!r}, v) returned {val!r} although '
                              f'{k!r} in d is True with value {exp!r}')
            self.mon.fail('setdefault:result', f'd.setdefault({k!r}) returned {val!r}, model {exp!r}')
        self.mon.mutating += 1

    def _items(self, flag):
        n = self.rng.choice([1, 2, 3])
        return [(self.key(flag if self.default else None), self.value()) for _ in range(n)]

    def op_update(self):
        items = self._items('update_other')
        mode = self.rng.choice(['dict', 'pairs', 'kwargs'])
        if mode == 'kwargs':
            items = [(k, v) for k, v in items if isinstance(k, str) and k.isidentifier()]
        self.last = 'update'
        self.log(f'd.update({mode}: {items!r})')
        if mode == 'dict':
            st, val = self.call(lambda: self.real.update(dict(items)))
        elif mode == 'pairs':
            st, val = self.call(lambda: self.real.update(items))
        else:
            st, val = self.call(lambda: self.real.update(**dict(items)))
        if st != 'ok':
            self.mon.fail('update:exception', f'update raised {val}')
        for k, v in (dict(items).items() if mode != 'pairs' else items):
            self.model[lk(k)] = v
        self.mon.mutating += 1

    def op_ctor(self):
        items = self._items('ctor_other')
        mode = self.rng.choice(['dict', 'pairs'])
        self.last = 'ctor'
        self.log(f'd = {self.cls.__name__}({mode}: {items!r})')
        st, val = self.call(lambda: self.new(dict(items) if mode == 'dict' else items))
        if st != 'ok':
            self.mon.fail('ctor:exception', f'constructor raised {val}')
        self.real, self.model = val, {}
        for k, v in (dict(items).items() if mode == 'dict' else items):
            self.model[lk(k)] = v
        self.mon.mutating += 1

    def op_or(self):
        items = self._items('or_other')
        self.last = 'or'
        self.log(f'd = d | {dict(items)!r}')
        st, val = self.call(lambda: self.real | dict(items))
        if st != 'ok':
            self.mon.fail('or:exception', f'd | other raised {val}')
        m = dict(self.model)
        for k, v in dict(items).items():
            m[lk(k)] = v
        self.compare_state('or-left-operand')      # left operand unchanged
        self.real, self.model = val, m
        self.mon.mutating += 1

    def op_ior(self):
        items = self._items('or_other')
        self.last = 'ior'
        self.log(f'd |= {dict(items)!r}')
        d = self.real

        def f():
            nonlocal d
            d |= dict(items)
            return d
        st, val = self.call(f)
        if st != 'ok':
            self.mon.fail('ior:exception', f'd |= other raised {val}')
        self.real = val
        for k, v in dict(items).items():
            self.model[lk(k)] = v
        self.mon.mutating += 1

    def op_copy(self):
        self.last = 'copy'
        self.log('c = d.copy(); c[new] = ..; d unchanged')
        st, c = self.call(lambda: self.real.copy())
        if st != 'ok':
            self.mon.fail('copy:exception', f'copy raised {c}')
        self.compare_state('copy', c, dict(self.model), 'copy')
        k = self.key()
        c[k] = 'only-in-copy'
        m = dict(self.model)
        m[lk(k)] = 'only-in-copy'
        self.compare_state('copy', c, m, 'copy')
        if self.default:
            self.mon.eq(c.default_factory, list, 'copy:default-factory', 'default_factory of the copy')

    def op_eq(self):
        self.last = 'eq'
        self.log('d == same content inserted with other spellings')
        other = self.new()
        for k, v in self.model.items():
            other[spell(self.rng, k) if isinstance(k, str) else k] = v
        st, val = self.call(lambda: (self.real == other, other == self.real))
        self.mon.eq((st, val), ('ok', (True, True)), 'eq:result', 'equality with a re-spelled twin')

    def op_popitem(self):
        self.last = 'popitem'
        self.log('d.popitem()')
        st, val = self.call(lambda: self.real.popitem())
        if st == 'exc!':
            self.mon.fail('popitem:exception', f'popitem raised {val}')
        if not self.model:
            self.mon.eq(st, 'exc', 'popitem:result', 'popitem on an empty dict')
        else:
            self.mon.eq((st, val), ('ok', self.model.popitem()), 'popitem:result', 'popitem')
        self.mon.mutating += 1


# ---------------------------------------------------------------------------

FAMILIES = ['symtab', 'scope', 'cidict', 'cidefaultdict']
FLAGS = {
    'symtab': {'del_other': 0.08, 'pop_other': 0.08, 'setdefault_ret': 0.08, 'clone_empty_parent': 0.1,
               'dims_in_key': 0.1},
    'scope': {'del_other': 0.0, 'pop_other': 0.0, 'setdefault_ret': 0.0, 'clone_empty_parent': 0.0,
              'dims_in_key': 0.1, 'bare_scope_clone': 0.06, 'reset_parent_none': 0.08},
    'cidict': {'del_other': 0.1, 'pop_other': 0.1},
    'cidefaultdict': {'del_other': 0.07, 'pop_other': 0.07, 'setdefault_other': 0.07, 'update_other': 0.07,
                      'ctor_other': 0.07, 'or_other': 0.07},
}


def run_case(idx, rng, tier, ctx):
    fam = FAMILIES[idx % 4]
    flags = {f: rng.random() < p for f, p in FLAGS[fam].items()}
    nops = 40 if tier == 'quick' else 120
    mon = Mon(fam)
    hist = (TableHistory if fam in ('symtab', 'scope') else DictHistory)(rng, fam, nops, flags, mon)
    try:
        hist.run()
    except Stop:
        pass
    on = sorted(f for f, v in flags.items() if v)
    return {'sig': sighash(mon.ops), 'nontrivial': mon.mutating >= 10 and mon.deep_hits >= 1,
            'violations': mon.viol, 'inconclusive': None,
            'sample': {'family': fam, 'flags_on': on, 'ops': len(mon.ops), 'history_head': mon.ops[:10]},
            'counters': {'oracle_evals': mon.evals, 'ops': len(mon.ops), 'mutating_ops': mon.mutating,
                         'lookups_via_parent_or_other_spelling': mon.deep_hits, f'histories_{fam}': 1,
                         'histories_stopped_at_violation': 1 if mon.viol else 0},
            'features': [fam] + [f'{fam}:{f}' for f in on]}
