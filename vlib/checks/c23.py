"""C23 -- batch processing does not depend on the letter case of names.

Metamorphic / differential monitor: one schedlab project is written twice, P (lower case) and
P' (every name and keyword occurrence, config keys/values, seeds, file suffixes and name-valued
transformation options in another letter case).  Both are run through the real Scheduler,
a probe transformation and a renaming / duplicating / writing pipeline; the case-folded
observations must coincide.  In addition the Item equality / hash / lookup contract is checked
on the real items with re-spelled names.
"""
import re
import shutil
from vlib import schedlab as L
from vlib.core import sighash

PID = 'C23'
LEVEL = 'exploration'
TECHNIQUE = 'metamorphic differential execution (project vs. case-permuted twin) + equality/hash contract on Item'
LEVEL_TEXT = ('Random projects and configurations, each executed as written in lower case and as a case-permuted twin '
              '(sources, config keys/values, seeds, suffix case of file names, suffix options of DependencyTransformation / '
              'ModuleWrapTransformation / DuplicateKernel); graph, probe log (roles, modes, targets, order constraints) and '
              'written files are compared after case folding; Item.__eq__/__hash__/cache/graph membership are exercised '
              'with re-spelled names on every real item.')
LEVEL_NOTE = ('Outcomes that are equal for P and P\' (including an exception of the same type at the same place) count as '
              'agreement: defects that do not depend on letter case belong to C21/C22/C24/C25.')
RULE = ('schedlab project (6-20 routines, default features) + config; twin spelled upper/random with flipped file '
        'suffixes; 1 (quick) / 2 (thorough) twins per project. Non-trivial = both graphs built, >= 4 nodes, the '
        'probe recorded >= 4 applications and the twin differs from P in >= 20 characters; distinct = hash of twin '
        'sources + config.')
CASES = {'quick': 150, 'thorough': 2000}
MIN_NONTRIVIAL = {'quick': 60, 'thorough': 900}
ANCHORS = ['loki/batch/item.py', 'loki/batch/item_factory.py', 'loki/batch/configure.py',
           'loki/transformations/dependency.py', 'loki/transformations/build_system/dependency.py', 'loki/tools/util.py']
REQUIRED_REACH = ['__eq__', '__hash__', 'match_item_keys', 'get_or_create_item', '_get_new_item_name']
REQUIRED_COUNTERS = {'twin_graphs_compared': 100, 'twin_logs_compared': 60, 'twin_outputs_compared': 40,
                     'twin_written_outputs_compared': 30, 'hash_contract_checks': 1000, 'duplicate_kernel_runs': 10}
ASSUMPTIONS = ['Fortran names are case-insensitive, so P and its twin are the same program; file stems keep their case '
               '(only suffix case changes), output file names are compared case-folded']
BUDGET_S = {'quick': 400, 'thorough': 3000}
CASE_TIMEOUT_S = 300


RENAMED_IGNORED = 'case:pipeline:renamed-ignored-callee-not-excluded'


def fold_path(p, root):
    p = str(p).lower()
    root = str(root).lower()
    return p.replace(root + '/', '').replace(root, '')


def observe(root, out, config, seeds, opts, cnt):
    """Run graph construction, probe and pipeline on one spelling; returns a dict of case-folded observations."""
    import loki.batch as B   # pylint: disable=import-outside-toplevel
    from loki.transformations.build_system import (   # pylint: disable=import-outside-toplevel
        DependencyTransformation, ModuleWrapTransformation, FileWriteTransformation)
    from loki.transformations.dependency import DuplicateKernel   # pylint: disable=import-outside-toplevel
    obs = {}

    def err(e):
        import traceback   # pylint: disable=import-outside-toplevel
        tb = traceback.extract_tb(e.__traceback__)
        where = next((f'{fr.filename.split("/")[-1]}:{fr.name}' for fr in reversed(tb) if '/loki/' in fr.filename), '?')
        return f'{type(e).__name__}@{where}'
    # 1. REGEX graph
    try:
        s0 = L.build_scheduler(root, config, seeds, False)
        g = L.graph_summary(s0, root)
        obs['regex_graph'] = {'nodes': g['nodes'], 'edges': sorted(g['edges']), 'ignored': g['ignored']}
    except Exception as e:  # pylint: disable=broad-except
        obs['regex_graph'] = {'error': err(e)}
    # 2. full graph + probe (all item kinds, plan mode and sequence mode for procedures)
    try:
        sched = L.build_scheduler(root, config, seeds, True, output_dir=str(out))
    except Exception as e:  # pylint: disable=broad-except
        obs['full_graph'] = {'error': err(e)}
        return obs, None
    g = L.graph_summary(sched, root)
    obs['full_graph'] = {'nodes': g['nodes'], 'edges': sorted(g['edges']), 'ignored': g['ignored']}
    obs['files'] = {k: (v or '').lower() for k, v in g['files'].items()}
    for name, kw, plan in (('probe_plan_all', {'item_filter': B.Item, 'process_ignored_items': True}, True),
                           ('probe_seq_proc', {'item_filter': B.ProcedureItem, 'reverse_traversal': True}, False)):
        log = []
        try:
            sched.process(L.ProbeTransformation(log=log, **kw),
                          proc_strategy=B.ProcessingStrategy.PLAN if plan else B.ProcessingStrategy.SEQUENCE)
            e = None
        except Exception as ex:  # pylint: disable=broad-except
            e = err(ex)
        obs[name] = {'error': e, 'records': {(r['method'], r['ir'], r['item']): (r['role'], r['mode'], tuple(r['targets'] or ()))
                                            for r in log},
                     'order': [r['item'] for r in log]}
    # 3. Item equality / hash / lookup contract with re-spelled names
    obs['contract'] = contract(sched, cnt, opts.get('hash_contract', True))
    # 4. pipeline
    pipe = []
    if opts.get('duplicate'):
        pipe.append(DuplicateKernel(duplicate_kernels=opts['duplicate'], duplicate_suffix=opts['dup_suffix'],
                                    duplicate_module_suffix=opts['dup_module_suffix']))
        cnt['duplicate_kernel_runs'] = cnt.get('duplicate_kernel_runs', 0) + 1
    if opts.get('module_wrap'):
        pipe.append(ModuleWrapTransformation(module_suffix=opts['module_suffix']))
    pipe.append(DependencyTransformation(suffix=opts['suffix'], module_suffix=opts['module_suffix']))
    pipe.append(FileWriteTransformation())
    perr = None
    for t in pipe:
        try:
            sched.process(t)
        except Exception as e:  # pylint: disable=broad-except
            perr = f'{type(t).__name__}:{err(e)}'
            obs['pipeline_stage'] = type(t).__name__
            break
    obs['pipeline_error'] = perr
    obs['pipeline_order'] = [type(t).__name__ for t in pipe]
    if perr is None:
        try:
            g = L.graph_summary(sched, root)
            obs['graph_after'] = {'nodes': g['nodes'], 'edges': sorted(g['edges'])}
        except Exception as e:  # pylint: disable=broad-except
            obs['graph_after'] = {'error': err(e)}
        obs['cache_keys_after'] = sorted(fold_path(k, root) for k in sched.item_factory.item_cache)
    written = {}
    if out.exists():
        for f in sorted(out.rglob('*')):
            if f.is_file():
                written[f.name.lower()] = normalise(f.read_text())
    obs['written'] = written
    return obs, sched


def normalise(text):
    """Case-fold, drop blank lines and collapse white space (the code is the same up to letter case)"""
    out = []
    for line in text.lower().splitlines():
        line = re.sub(r'\s+', ' ', line.strip())
        if line:
            out.append(line)
    return '\n'.join(out)


def respell(name, k):
    return name.upper() if k == 0 else ''.join(c.upper() if i % 2 else c.lower() for i, c in enumerate(name))


def contract(sched, cnt, with_hash):
    """Item equality => hash equality; items differing only in case are one item for cache, graph, lookup."""
    import loki.batch as B   # pylint: disable=import-outside-toplevel
    bad = []
    graph = sched.sgraph._graph   # pylint: disable=protected-access
    cache = sched.item_factory.item_cache
    n = 0
    for it in list(sched.items):
        if isinstance(it, B.ExternalItem):
            continue
        for k in (0, 1):
            alt_name = respell(it.name, k)
            if alt_name == it.name:
                continue
            twin = type(it)(alt_name, source=it.source, config=dict(it.config))
            n += 1
            if with_hash and twin == it and hash(twin) != hash(it):
                bad.append(('item:eq-without-hash-eq', f'{it!r} == {twin!r} but their hashes differ'))
            if twin == it and hash(twin) == hash(it) and (twin in graph) != (it in graph):
                bad.append(('item:graph-membership-case-sensitive', f'{twin!r} equals graph node {it!r} but '
                            f'"in graph" is {twin in graph}'))
            if twin == it and hash(twin) == hash(it) and len({it, twin}) != 1:
                bad.append(('item:set-keeps-equal-items-apart', f'{{{it!r}, {twin!r}}} has two elements'))
            if alt_name not in cache or cache[alt_name] is not it:
                bad.append(('item:cache-lookup-case-sensitive', f'item_cache[{alt_name!r}] does not return {it!r}'))
            if sched[alt_name] is not it:
                bad.append(('item:scheduler-getitem-case-sensitive', f'scheduler[{alt_name!r}] does not return {it!r}'))
            if it != alt_name:
                bad.append(('item:eq-string-case-sensitive', f'{it!r} != {alt_name!r}'))
    cnt['hash_contract_checks'] = cnt.get('hash_contract_checks', 0) + n
    seen, out = set(), []
    for k, m in bad:
        if k not in seen:
            seen.add(k)
            out.append((k, m))
    return out


def diff_obs(a, b, viol, cnt, ctx=None):
    """Compare the observations of P (a) and the twin (b)"""
    def bump(k):
        cnt[k] = cnt.get(k, 0) + 1
    for key in ('regex_graph', 'full_graph', 'graph_after'):
        if key not in a and key not in b:
            continue
        ga, gb = a.get(key), b.get(key)
        if key == 'graph_after' and a.get('pipeline_error') != b.get('pipeline_error'):
            continue     # reported below as a pipeline difference
        bump('twin_graphs_compared')
        if ga is None or gb is None:
            viol(f'case:{key}:present-in-one-run-only', f'{key}: {"P" if ga else "twin"} only')
            continue
        if ('error' in ga) != ('error' in gb) or ga.get('error') != gb.get('error'):
            viol(f'case:{key}:error-differs', f'P: {ga.get("error")}  twin: {gb.get("error")}')
            continue
        if 'error' in ga:
            continue
        if ga['nodes'] != gb['nodes']:
            only_a = sorted(set(ga['nodes']) - set(gb['nodes']))[:4]
            only_b = sorted(set(gb['nodes']) - set(ga['nodes']))[:4]
            kinds = sorted(n for n in set(ga['nodes']) & set(gb['nodes']) if ga['nodes'][n] != gb['nodes'][n])[:3]
            diff = set(ga['nodes']) ^ set(gb['nodes'])
            if key == 'graph_after':
                a['graph_after_differs'] = True
            if key == 'graph_after' and ctx and diff and all(ctx['suffix'].lower() in n for n in diff) \
                    and ctx['twin_ignore_mixed_case']:
                viol(RENAMED_IGNORED, f'only in P: {only_a}; only in twin: {only_b}')
            else:
                viol(f'case:{key}:nodes-differ', f'only in P: {only_a}; only in twin: {only_b}; kind differs: {kinds}')
        elif ga['edges'] != gb['edges']:
            d = sorted(set(map(tuple, ga['edges'])) ^ set(map(tuple, gb['edges'])))
            if key == 'graph_after' and ctx and all(ctx['suffix'].lower() in e[1] for e in d) \
                    and ctx['twin_ignore_mixed_case']:
                viol(RENAMED_IGNORED, f'edges in one graph only: {d[:4]}')
            else:
                viol(f'case:{key}:edges-differ', f'edges in one graph only: {d[:4]}')
        elif ga.get('ignored') != gb.get('ignored'):
            d = sorted(n for n in ga['ignored'] if ga['ignored'][n] != gb['ignored'].get(n))[:4]
            viol(f'case:{key}:ignored-flags-differ', f'is_ignored differs for {d}')
    if 'files' in a and 'files' in b and a['files'] != b['files']:
        d = sorted(n for n in a['files'] if L.flip_suffix(a['files'][n]) != b['files'].get(n)
                   and a['files'][n] != b['files'].get(n))[:4]
        if d:
            viol('case:item-files-differ', f'defining file differs for {d}')
    for key in ('probe_plan_all', 'probe_seq_proc'):
        if key in a and key in b:
            bump('twin_logs_compared')
            pa, pb = a[key], b[key]
            if pa['error'] != pb['error']:
                viol(f'case:{key}:error-differs', f'P: {pa["error"]}  twin: {pb["error"]}')
                continue
            ra = {(m, fold_tail(i), it): v for (m, i, it), v in pa['records'].items()}
            rb = {(m, fold_tail(i), it): v for (m, i, it), v in pb['records'].items()}
            if set(ra) != set(rb):
                d = sorted(set(ra) ^ set(rb), key=str)[:4]
                viol(f'case:{key}:applications-differ', f'applications in one run only: {d}')
            else:
                for k in ra:
                    if ra[k] != rb[k]:
                        what = 'role' if ra[k][0] != rb[k][0] else ('mode' if ra[k][1] != rb[k][1] else 'targets')
                        viol(f'case:{key}:{what}-differs', f'{k}: P {ra[k]}  twin {rb[k]}')
                        break
            # order constraints: each order must respect the edges of the other run's graph
            edges = a.get('full_graph', {}).get('edges') or []
            for order, who in ((pa['order'], 'P'), (pb['order'], 'twin')):
                pos = {}
                for k, it in enumerate(order):
                    pos.setdefault(it, k)
                rev = key == 'probe_seq_proc'
                for x, y in edges:
                    if x in pos and y in pos and (pos[x] < pos[y]) == rev:
                        viol(f'case:{key}:order-violates-common-graph', f'{who}: {x} / {y} at {pos[x]} / {pos[y]}')
                        break
    ca, cb = a.get('contract'), b.get('contract')
    for c in (ca or []) + (cb or []):
        viol(c[0], c[1])
    if 'pipeline_error' in a and 'pipeline_error' in b:
        bump('twin_outputs_compared')
        if a['pipeline_error'] != b['pipeline_error']:
            order = a['pipeline_order']
            stages = [order.index(o['pipeline_stage']) for o in (a, b) if o.get('pipeline_stage') in order]
            first = order[min(stages)] if stages else 'unknown'
            if first == 'DependencyTransformation' and ctx and ctx.get('twin_ignore_mixed_case') and \
                    '_get_procedure_item' in str(b['pipeline_error']) and a['pipeline_error'] is None:
                # strict: the renamed, no longer excluded callee is not found
                viol(RENAMED_IGNORED, f'P: {a["pipeline_error"]}  twin: {b["pipeline_error"]}')
            else:
                viol(f'case:pipeline:error-differs:{first}', f'P: {a["pipeline_error"]}  twin: {b["pipeline_error"]}')
            return
        if a.get('cache_keys_after') != b.get('cache_keys_after') and not a.pop('graph_after_differs', False):
            d = sorted(set(a.get('cache_keys_after') or []) ^ set(b.get('cache_keys_after') or []))[:6]
            viol('case:pipeline:item-cache-differs', f'cache keys in one run only: {d}')
        wa, wb = a['written'], b['written']
        if set(wa) != set(wb):
            viol('case:pipeline:written-file-names-differ', f'P: {sorted(set(wa) - set(wb))[:4]} twin: '
                 f'{sorted(set(wb) - set(wa))[:4]}')
        else:
            for f in sorted(wa):
                if wa[f] != wb[f]:
                    la, lb = wa[f].splitlines(), wb[f].splitlines()
                    k = next((i for i, (x, y) in enumerate(zip(la, lb)) if x != y), min(len(la), len(lb)))
                    viol('case:pipeline:written-code-differs', f'{f} line {k}: P "{la[k] if k < len(la) else None}" '
                         f'twin "{lb[k] if k < len(lb) else None}"')
                    break


def fold_tail(ir_name):
    """ir names of file records are absolute paths: keep the file name, suffix case folded"""
    return ir_name.rsplit('/', 1)[-1].lower() if '/' in ir_name else ir_name


def run_case(idx, rng, tier, ctx):
    import loki  # pylint: disable=import-outside-toplevel,unused-import
    n = rng.choice([6, 8, 10, 12, 14, 16, 20])
    pf = {'n_routines': n, 'p_free': rng.choice([0.2, 0.4, 0.6]), 'subdirs': False}
    project = L.gen_project(rng, pf)
    config, seeds = L.gen_config(rng, project, {'strict': rng.random() < 0.5})
    truth = project.truth()
    exp = L.reference_closure(truth, config, seeds)
    # name-valued options
    cands = [nm for nm, k in exp.nodes.items() if k == 'ProcedureItem' and nm not in exp.seeds
             and not truth['items'][nm]['function'] and not truth['items'][nm]['recursive']]
    opts = {'suffix': rng.choice(['_loki', '_xk', '_tr']), 'module_suffix': rng.choice(['_mod', '_mod', '_m']),
            'module_wrap': rng.random() < 0.6,
            # the hash part of the Item contract is a deterministic known finding: checked in a slice only
            'hash_contract': rng.random() < 0.1}
    if cands and rng.random() < 0.4:
        opts['duplicate'] = [rng.choice(cands).split('#')[-1]]
        opts['dup_suffix'] = rng.choice(['_dup', '_dp2'])
        opts['dup_module_suffix'] = rng.choice(['_dupm', '_dup'])
    base = ctx['scratch'] / f'c{idx}'
    shutil.rmtree(base, ignore_errors=True)
    res = {'sig': None, 'nontrivial': False, 'violations': [], 'inconclusive': None,
           'features': sorted(project.features | ({'duplicate_kernel'} if opts.get('duplicate') else set())
                              | ({'module_wrap'} if opts['module_wrap'] else set())), 'counters': {}}
    cnt = res['counters']
    root_a, out_a = base / 'p' / 'src', base / 'p' / 'out'
    out_a.mkdir(parents=True)
    src_a = project.write(root_a, L.Speller(0, 'lower'))
    obs_a, _ = observe(root_a, out_a, config, seeds, opts, cnt)
    ntw = 1 if tier == 'quick' else 2
    sigs = []
    for t in range(ntw):
        mode = rng.choice(['upper', 'random', 'random'])
        sp = L.Speller(rng.randrange(1 << 30), mode)
        flip = rng.random() < 0.7
        root_b, out_b = base / f't{t}' / 'src', base / f't{t}' / 'out'
        out_b.mkdir(parents=True)
        src_b = project.write(root_b, sp, suffix_flip=flip)
        cfg_b, seeds_b = L.respell_config(config, seeds, sp)
        opts_b = dict(opts)
        option_case = rng.random() < 0.25
        if option_case:
            # slice: the letter case of the suffix options is permuted as well
            for k in ('suffix', 'module_suffix', 'dup_suffix', 'dup_module_suffix'):
                if k in opts_b and isinstance(opts_b[k], str):
                    opts_b[k] = opts_b[k].upper() if sp(opts_b[k]) == opts_b[k] else sp(opts_b[k])
            res['features'] = sorted(set(res['features']) | {'option_case_permuted'})
        if 'duplicate' in opts_b:
            opts_b['duplicate'] = [sp(x) for x in opts_b['duplicate']]
        obs_b, _ = observe(root_b, out_b, cfg_b, seeds_b, opts_b, cnt)
        info = {'options': opts, 'twin_options': opts_b, 'config': config, 'twin_config': cfg_b, 'seeds': seeds,
                'twin_seeds': seeds_b, 'sources': src_a, 'twin_sources': src_b, 'suffix_flip': flip}

        def viol(key, msg, info=info, option_case=option_case):
            if option_case and key.startswith('case:') and key != RENAMED_IGNORED:
                key += ':option-case'
            if not any(v['key'] == key for v in res['violations']):
                res['violations'].append({'key': key, 'msg': msg, 'witness': info})
        has_ignore = any(sc.get('ignore') for sc in [config['default']] + list(config['routines'].values()))
        mixed = any(e != e.lower() for sc in [cfg_b['default']] + list(cfg_b['routines'].values())
                    for e in sc.get('ignore', []) or [])
        diff_obs(obs_a, obs_b, viol, cnt, {'suffix': opts['suffix'], 'has_ignore': has_ignore,
                                            'twin_ignore_mixed_case': mixed})
        post = [v for v in res['violations'] if v['witness'] is info and
                (v['key'].startswith('case:pipeline') or v['key'].startswith('case:graph_after'))
                and v['key'] != RENAMED_IGNORED]
        if post and mixed:
            # causal attribution: repeat the twin with only the ignore entries in lower case; if the difference
            # disappears it is the known mechanism (raw ignore entries compared with lower-cased keys on renaming)
            cfg_c = {'default': dict(cfg_b['default']), 'routines': {k: dict(e) for k, e in cfg_b['routines'].items()}}
            for sc in [cfg_c['default']] + list(cfg_c['routines'].values()):
                if sc.get('ignore'):
                    sc['ignore'] = [e.lower() for e in sc['ignore']]
            root_c, out_c = base / f't{t}c' / 'src', base / f't{t}c' / 'out'
            out_c.mkdir(parents=True)
            for rel, text in src_b.items():
                (root_c / rel).parent.mkdir(parents=True, exist_ok=True)
                (root_c / rel).write_text(text)
            tmp = []
            obs_c, _ = observe(root_c, out_c, cfg_c, seeds_b, opts_b, {})
            obs_a.pop('graph_after_differs', None)
            diff_obs(obs_a, obs_c, lambda k, m: tmp.append(k), {}, None)
            cnt['attribution_reruns'] = cnt.get('attribution_reruns', 0) + 1
            if not any(k.startswith('case:pipeline') or k.startswith('case:graph_after') for k in tmp):
                res['violations'] = [v for v in res['violations'] if v not in post]
                viol(RENAMED_IGNORED, 'difference disappears when the ignore entries of the twin config are written '
                     'in lower case: ' + post[0]['key'] + ': ' + post[0]['msg'])
        sigs.append([src_b, cfg_b, seeds_b, opts_b])
        ndiff = sum(x != y for ta, tb in zip(src_a.values(), src_b.values()) for x, y in zip(ta, tb))
        if ('nodes' in obs_a.get('full_graph', {}) and len(obs_a['full_graph']['nodes']) >= 4
                and 'nodes' in obs_b.get('full_graph', {}) and ndiff >= 20
                and len(obs_a.get('probe_plan_all', {}).get('records', {})) >= 4):
            res['nontrivial'] = True
        if obs_a.get('pipeline_error') is None and len(obs_a.get('written', {})) >= 1:
            cnt['twin_written_outputs_compared'] = cnt.get('twin_written_outputs_compared', 0) + 1
    res['sig'] = sighash(sigs)
    res['sample'] = {'routines': n, 'options': opts, 'nodes': len(obs_a.get('full_graph', {}).get('nodes', {})),
                     'written_files': sorted(obs_a.get('written', {}))[:6], 'pipeline_error': obs_a.get('pipeline_error'),
                     'records': len(obs_a.get('probe_plan_all', {}).get('records', {}))}
    if obs_a.get('pipeline_error'):
        cnt['pipeline_failed_in_both'] = cnt.get('pipeline_failed_in_both', 0) + 1
    shutil.rmtree(base, ignore_errors=True)
    return res
