"""C32 -- constant propagation and code removal preserve behaviour (differential execution, sanitizers on)."""
import random
import re
import shutil

from vlib import tfdiff
from vlib.core import sighash
from vlib.cpgen import CPGen

PID = 'C32'
LEVEL = 'exploration'
TECHNIQUE = 'differential execution of generated call trees, original vs transformed (gfortran run-time checks, ASan/UBSan, FPE traps)'
LEVEL_TEXT = ('Every generated call tree (driver -> entry -> kernel -> helpers in the same module, in another file and '
              'an internal procedure) is transformed by the real do_constant_propagation / do_remove_dead_code / '
              'do_remove_unused_vars / do_remove_unused_dummy_args + do_remove_unused_call_args / '
              'RemoveCodeTransformation (through the real Scheduler), compiled next to the untouched original with an '
              'untouched driver and run on 4 input sets, two calls each; all outputs are compared.')
LEVEL_NOTE = ('gfortran 12 -O0 with -fcheck=all is the reference semantics; programs are well-defined by construction '
              '(the original must compile and run clean); reals compared to rtol/atol 1e-9; mechanisms with a known '
              'finding are exercised by one dedicated snippet each in a small slice and kept out of the random slice.')
RULE = ('CPGen call trees: constants vs input-dependent values, decidable/undecidable conditions (literals, parameters, '
        'conditions on constants), constants assigned in branches and loop prologues, parameter arrays, loops with '
        'constant and input bounds, DO WHILE, SELECT CASE, calls with keyword arguments, unused locals and unused '
        'dummies in the middle of argument lists, callers in the same module / another file / internal. One of 9 '
        'transformation modes per case (constprop +-unroll, dead code +-simplify, constprop+dead code, unused vars, '
        'unused args, full direct pipeline, RemoveCodeTransformation via Scheduler). 1 case in 4 carries one hazard '
        'snippet (known-finding mechanisms, attributed by re-running the same program without the snippet). '
        'Non-trivial = transformed text differs from the regenerated original and both programs ran on all inputs; '
        'distinct = hash of sources + mode + options.')
CASES = {'quick': 240, 'thorough': 3600}
MIN_NONTRIVIAL = {'quick': 100, 'thorough': 1500}
ANCHORS = ['loki/transformations/constant_propagation.py', 'loki/transformations/remove_code.py']
REQUIRED_REACH = ['do_constant_propagation', 'do_remove_dead_code', 'do_remove_unused_vars',
                  'do_remove_unused_dummy_args', 'do_remove_unused_call_args', 'transform_subroutine']
REQUIRED_COUNTERS = {'program_runs': 100}
ASSUMPTIONS = ['gfortran 12 -O0 with run-time checks is the reference semantics',
               'generated programs are well-defined by construction (original must run clean, else discarded)',
               'real outputs compared to rtol 1e-9 / atol 1e-9 (folding and re-association of real expressions allowed)',
               'a time-out of the transformed program is inconclusive, never a violation']
BUDGET_S = {'quick': 400, 'thorough': 3000}
CASE_TIMEOUT_S = 240

MODES = ['cp', 'cpu', 'dce0', 'dce1', 'cp_dce', 'uvars', 'uargs', 'pipeline', 'sched']

# hazard -> (modes in which the snippet is exercised, mechanism key)
HAZ = {
    'call_out': (['cp', 'cpu'], 'constprop:call-with-intent-out-actual-does-not-invalidate-constant'),
    'call_inout': (['cp', 'cpu'], 'constprop:call-with-intent-inout-actual-does-not-invalidate-constant'),
    'loop_carried': (['cp', 'cpu'], 'constprop:value-from-before-loop-propagated-to-read-before-redefinition-in-loop'),
    'accumulator': (['cp', 'cpu'], 'constprop:self-update-in-constant-bounds-loop-keeps-initial-constant'),
    'accumulator_varbound': (['cp', 'cpu'], 'constprop:self-update-in-loop-body-ignored-for-later-reads-in-body'),
    'cond_assign_in_loop': (['cp', 'cpu'], 'constprop:conditional-assignment-in-constant-bounds-loop-taken-as-constant'),
    'save_init': (['cp', 'cpu'], 'constprop:saved-variable-initialiser-taken-as-constant'),
    'while_literal_counter': (['cp', 'cpu'], 'constprop:do-while-body-and-condition-use-constant-from-before-loop'),
    'while_zero_trip_assign': (['cp', 'cpu'], 'constprop:assignment-in-do-while-body-taken-as-executed'),
    'select_assign': (['cp', 'cpu'], 'constprop:select-case-branches-not-merged'),
    'associate_alias': (['cp', 'cpu'], 'constprop:assignment-through-associate-name-not-seen'),
    'zero_trip_const': (['cp', 'cpu'], 'constprop:assignment-in-zero-trip-constant-loop-taken-as-executed'),
    'zero_trip_inner': (['cp', 'cpu'], 'constprop:assignment-in-inner-loop-with-input-bounds-taken-as-executed'),
    'exit_in_loop': (['cp'], 'constprop:assignment-after-conditional-exit-taken-as-executed'),
    'cycle_in_loop': (['cp'], 'constprop:assignment-after-conditional-cycle-taken-as-executed'),
    'unroll_cycle': (['cpu'], 'constprop:unroll:cycle-in-unrolled-loop'),
    'unroll_exit': (['cpu'], 'constprop:unroll:exit-in-unrolled-loop'),
    'neg_folded_pow_base': (['cp', 'cpu'], 'constprop:base-of-power-folded-to-negative-literal-printed-without-brackets'),
    'real_kind_fold': (['cp', 'cpu'], 'constprop:folded-real-literal-loses-kind'),
    'internal_present': (['cp', 'cpu'], 'constprop:routine-with-internal-procedure'),
    'simp_int_quot_sum': (['cp', 'cpu'], 'constprop:simplify:integer-quotient-distributed-over-sum'),
    'simp_int_quot_product': (['cp', 'cpu'], 'constprop:simplify:integer-quotient-factor-pulled-out-of-product'),
    'simp_int_quot_like_terms': (['cp', 'cpu'], 'constprop:simplify:integer-quotient-like-terms-collected'),
    'simp_real_div_literal': (['cp', 'cpu'], 'constprop:simplify:quotient-with-real-literal'),
    'simp_real_quot_sum_literal': (['cp', 'cpu'], 'constprop:simplify:quotient-of-sum-with-real-literal-term'),
    'simp_real_coeff_div_int': (['cp', 'cpu'], 'constprop:simplify:real-coefficient-over-integer-literal'),
    'simp_real_cancel_to_int': (['cp', 'cpu'], 'constprop:simplify:real-terms-cancel-to-integer-literal'),
    'simp_neg_product': (['cp', 'cpu'], 'constprop:simplify:nested-negated-product'),
    'simp_cond_int_quot': (['dce1'], 'deadcode:simplify:integer-quotient-distributed-over-sum-in-condition'),
    'simp_cond_real_literal': (['dce1'], 'deadcode:simplify:quotient-with-real-literal-in-condition'),
    'sched_both': (['sched'], 'removecode-scheduler:unused-vars-and-unused-args-together'),
    'stale_second_pass': (['cpu'], 'constprop:unroll-second-pass-starts-from-end-of-routine-constants'),
    'mixed_case_redef': (['cp', 'cpu'], 'constprop:redefinition-with-other-spelling-not-seen'),
    'member_basename': (['cp', 'cpu'], 'constprop:derived-type-members-keyed-by-component-name-only'),
    'pointer_alias': (['cp', 'cpu'], 'constprop:assignment-through-pointer-not-seen'),
    'neg_step_unroll': (['cpu'], 'constprop:unroll:negative-step-loop'),
    'param_array_2d': (['cp', 'cpu'], 'constprop:rank2-parameter-array'),
    'nested_loop_prologue_outer': (['cp', 'cpu'], 'constprop:inner-loop-assignment-visible-before-it-in-outer-body'),
    'int_div_neg': (['cp', 'cpu'], 'constprop:integer-division-folding'),
    'array_const_elems': (['cp', 'cpu'], 'constprop:saved-array-initialiser-taken-as-constant'),
    'elseif_true_body_starts_with_if': (['dce0', 'dce1'], 'deadcode:taken-else-if-branch-starting-with-inline-if-kept-as-else-if'),
    'elseif_true_body_starts_with_block_if': (['dce0', 'dce1'], 'deadcode:taken-else-if-branch-starting-with-if-kept-as-else-if'),
    'elseif_false_else_starts_with_if': (['dce0', 'dce1'], 'deadcode:else-branch-starting-with-if-after-pruned-else-if-kept-as-else-if'),
    'elseif_false_no_else': (['dce0', 'dce1'], 'deadcode:last-else-if-pruned-without-else'),
    'nested_fun_call': (['uargs', 'sched'], 'unused-args:nested-reference-to-same-function-not-updated'),
    'select_literal_range': (['dce0', 'dce1'], 'deadcode:select-case-literal-selector-range'),
    'select_logical': (['dce0', 'dce1'], 'deadcode:select-case-logical-selector'),
    'select_body_emptied': (['dce0', 'dce1'], 'deadcode:select-case-body-emptied-by-pruning-shifts-later-bodies'),
    'uvars_scalars_with_loops': (['uvars'], 'unused-vars:loop-variable-declaration-removed'),
    'local_kind_param': (['uvars'], 'unused-vars:local-kind-parameter-removed'),
    'param_in_initializer': (['uvars'], 'unused-vars:parameter-used-only-in-initialiser-removed'),
    'char_len_local': (['uvars'], 'unused-vars:parameter-used-only-as-character-length-removed'),
    'dummy_only_in_print': (['uargs', 'sched'], 'unused-args:dummy-used-only-in-print-removed'),
    'local_only_in_internal': (['uvars'], 'unused-vars:local-used-only-in-internal-procedure-removed'),
    'dummy_only_in_internal': (['uargs', 'sched'], 'unused-args:dummy-used-only-in-internal-procedure-removed'),
    'optional_present': (['uargs', 'sched'], 'unused-args:optional-dummy-used-only-in-present'),
    'dummy_only_in_dimension': (['uargs', 'sched'], 'unused-args:dummy-used-only-in-dimension'),
}
HAZ_ORDER = sorted(HAZ)
OPTION_HAZARDS = {'uvars_scalars_with_loops': {'only_arrays': True}, 'sched_both': {'sched_what': 'args'}}


def plan(idx, rng):
    """(mode, hazard, flags, opts)"""
    flags = {'max_stmts': rng.choice([6, 9, 12, 16]), 'max_depth': rng.choice([2, 3, 3]),
             'internal': rng.random() < 0.7, 'derived': rng.random() < 0.6, 'keyword_calls': rng.random() < 0.8,
             'neg_step': rng.random() < 0.25}
    hazard = None
    if idx % 4 == 3:
        hazard = HAZ_ORDER[(idx // 4) % len(HAZ_ORDER)]
        mode = HAZ[hazard][0][(idx // (4 * len(HAZ_ORDER))) % len(HAZ[hazard][0])]
        if hazard == 'member_basename':
            flags['derived'] = True
    else:
        mode = MODES[(idx - idx // 4) % len(MODES)]
    opts = {'simplify': rng.random() < 0.5, 'only_arrays': rng.random() < 0.5, 'unroll': rng.random() < 0.5,
            'members': rng.random() < 0.5, 'sched_what': rng.choice(['args', 'vars'])}
    if hazard == 'sched_both':
        opts['sched_what'] = 'both'
    # do_remove_unused_vars(remove_only_arrays=False) removes the declarations of loop variables (known): scalars are
    # removed only from programs without DO loops, and in the slice of the 'uvars_scalars_with_loops' hazard
    opts['only_arrays'] = True
    if hazard in ('local_kind_param', 'param_in_initializer', 'char_len_local', 'local_only_in_internal') or \
            (hazard is None and mode in ('uvars', 'sched', 'pipeline') and rng.random() < 0.35):
        opts['only_arrays'] = False
        flags['do_loops'] = False
    if hazard == 'uvars_scalars_with_loops':
        opts['only_arrays'] = False
    if mode in ('cp', 'cpu', 'cp_dce', 'pipeline'):
        flags['internal'] = False        # do_constant_propagation raises on routines with internal procedures (known)
    return mode, hazard, flags, opts


# ---------------------------------------------------------------------------- transformation drivers
class ParseFailure(Exception):
    """the frontend could not read the generated program (not the business of this property)"""


def _routines(sfs, members=True):
    out = []
    for sf in sfs:
        for r in sf.all_subroutines:
            out.append(r)
            if members:
                out.extend(r.members)
    return out


def transform_direct(case, mode, opts):
    """returns (before_files, after_files)"""
    from loki import Sourcefile
    from loki.transformations.constant_propagation import do_constant_propagation
    from loki.transformations import remove_code as RC
    try:
        h = Sourcefile.from_source(case.files[0][1])
        c = Sourcefile.from_source(case.files[1][1], definitions=h.definitions)
    except Exception as e:  # pylint: disable=broad-except
        raise ParseFailure(f'{type(e).__name__}: {str(e)[:200]}') from e
    sfs = [h, c]
    before = [(case.files[0][0], h.to_fortran()), (case.files[1][0], c.to_fortran())]

    def constprop(unroll):
        for r in _routines(sfs, members=False):
            do_constant_propagation(r, unroll_loops=unroll)

    def deadcode(simp):
        for r in _routines(sfs):
            RC.do_remove_dead_code(r, use_simplify=simp)

    def uvars(only_arrays):
        for r in _routines(sfs, members=opts['members']):
            RC.do_remove_unused_vars(r, remove_only_arrays=only_arrays)

    def uargs():
        # as RemoveCodeTransformation does: call sites first, then the dummies (the map is keyed by routine)
        amap = {}
        for r in _routines(sfs, members=True):
            if r.name.lower() == 'entry':
                continue
            ua, _ = RC.find_unused_dummy_args_and_vars(r)
            amap[r] = ua
        for r in _routines(sfs):
            RC.do_remove_unused_call_args(r, amap)
        for r, ua in list(amap.items()):
            RC.do_remove_unused_dummy_args(r, ua)

    if mode == 'cp':
        constprop(False)
    elif mode == 'cpu':
        constprop(True)
    elif mode == 'dce0':
        deadcode(False)
    elif mode == 'dce1':
        deadcode(True)
    elif mode == 'cp_dce':
        constprop(opts['unroll'])
        deadcode(opts['simplify'])
    elif mode == 'uvars':
        uvars(opts['only_arrays'])
    elif mode == 'uargs':
        uargs()
    elif mode == 'pipeline':
        constprop(opts['unroll'])
        deadcode(opts['simplify'])
        uargs()
        uvars(opts['only_arrays'])
    else:
        raise ValueError(mode)
    after = [(case.files[0][0], h.to_fortran()), (case.files[1][0], c.to_fortran())]
    return before, after


def transform_scheduler(case, opts, wd):
    from loki import Scheduler, SchedulerConfig, Sourcefile
    from loki.frontend import FP
    from loki.transformations.remove_code import RemoveCodeTransformation
    src = wd / 'src'
    shutil.rmtree(src, ignore_errors=True)
    src.mkdir(parents=True, exist_ok=True)
    for name, text in case.files:
        (src / name).write_text(text)
    config = SchedulerConfig.from_dict({'default': {'role': 'kernel', 'expand': True, 'strict': False,
                                                    'enable_imports': True},
                                        'routines': {'entry': {'role': 'driver'}}})
    sched = Scheduler(paths=[src], config=config, seed_routines=['entry'], frontend=FP, xmods=[wd / 'xmods'])
    by_name = {}
    for item in sched.items:
        sf = item.source
        while sf is not None and not isinstance(sf, Sourcefile):
            sf = getattr(sf, 'parent', None)
        if sf is not None and sf.path is not None:
            by_name[sf.path.name] = sf
    before = [(name, by_name[name].to_fortran() if name in by_name else text) for name, text in case.files]
    sched.process(RemoveCodeTransformation(remove_dead_code=True, use_simplify=opts['simplify'],
                                           remove_unused_args=opts['sched_what'] in ('args', 'both'),
                                           remove_unused_vars=opts['sched_what'] in ('vars', 'both'),
                                           remove_only_arrays=opts['only_arrays']))
    after = [(name, by_name[name].to_fortran() if name in by_name else text) for name, text in case.files]
    return before, after, len(by_name)


def transform(case, mode, opts, wd):
    if mode == 'sched':
        b, a, _ = transform_scheduler(case, opts, wd)
        return b, a
    return transform_direct(case, mode, opts)


# ---------------------------------------------------------------------------- evaluation
FAMILY = {'cp': 'constprop', 'cpu': 'constprop-unroll', 'dce0': 'deadcode', 'dce1': 'deadcode-simplify',
          'cp_dce': 'constprop+deadcode', 'uvars': 'unused-vars', 'uargs': 'unused-args', 'pipeline': 'pipeline',
          'sched': 'removecode-scheduler'}


def evaluate(case, mode, opts, wd, counters):
    """
    returns dict(outcome= ok | violation | inconclusive, symptom, detail, changed, before, after, diff)
    """
    out = {'outcome': 'ok', 'symptom': None, 'detail': '', 'changed': False, 'after': None, 'exc': None, 'diff': None}
    try:
        before, after = transform(case, mode, opts, wd)
    except ParseFailure as e:
        out.update(outcome='inconclusive', detail=f'frontend failed on the generated program: {e}')
        return out
    except Exception as e:  # pylint: disable=broad-except
        out.update(outcome='violation', symptom='exception', exc=e,
                   detail=f'{type(e).__name__}: {str(e)[:300]} @{tfdiff.innermost_loki_frame(e)}')
        return out
    out['after'] = after
    out['changed'] = [t for _, t in before] != [t for _, t in after]
    d = tfdiff.differential(wd / 'x', case.files, after, case.driver, case.stdins)
    counters['program_runs'] = counters.get('program_runs', 0) + 2 * d['runs']
    counters['sanitizer_builds'] = counters.get('sanitizer_builds', 0) + 2
    out['diff'] = d
    if d['status'] == 'orig_bad':
        out.update(outcome='inconclusive', detail='generator defect: ' + d['detail'][:400])
    elif d['status'] == 'new_timeout':
        out.update(outcome='inconclusive', detail='transformed program timed out')
    elif d['status'] != 'equal':
        out.update(outcome='violation', symptom=tfdiff.SYMPTOM[d['status']], detail=d['detail'][:600])
    return out


def _only_real_conditions_differ(after1, after0):
    """True if the two transformed sources differ only in IF / ELSE IF / DO WHILE / WHERE condition lines and at least
    one of the differing lines holds a real literal (simplify re-associated a kept real-valued condition)"""
    from collections import Counter

    def lines(after):
        text = '\n'.join(t for _n, t in after) if not isinstance(after, str) else after
        text = re.sub(r'&\s*\n\s*&?', '', text)
        return [re.sub(r'\s+', '', l.lower()) for l in text.split('\n') if l.strip()]
    c1, c0 = Counter(lines(after1)), Counter(lines(after0))
    diff = list((c1 - c0).elements()) + list((c0 - c1).elements())
    if not diff:
        return False
    cond = re.compile(r'^(\w+:)?(elseif|if|dowhile|where)\(')
    if not all(cond.match(l) for l in diff):
        return False
    return any(re.search(r'\d\.\d|\d\.?_8|\d\.(?!\w)', l) for l in diff)


def generic_key(mode, ev):
    fam = FAMILY[mode]
    if ev['symptom'] == 'exception':
        e = ev['exc']
        return f'{fam}:exception:{type(e).__name__}@{tfdiff.innermost_loki_frame(e)}'
    if ev['symptom'] == 'compile':
        return f'{fam}:compile-error:{tfdiff.norm_compile_error(ev["detail"])}'
    if ev['symptom'] == 'runtime':
        return f'{fam}:runtime-error-in-transformed'
    return f'{fam}:output-differs'


def run_case(idx, rng, tier, ctx):
    mode, hazard, flags, opts = plan(idx, rng)
    gseed = rng.getrandbits(60)
    case = CPGen(random.Random(gseed), flags, hazard).generate()
    feats = sorted(case.features | {'mode_' + mode})
    res = {'sig': sighash([case.units, mode, opts]), 'nontrivial': False, 'violations': [], 'inconclusive': None,
           'features': feats, 'counters': {'cases_' + FAMILY[mode]: 1}}
    wd = ctx['scratch'] / f'c{idx}'
    try:
        ev = evaluate(case, mode, opts, wd, res['counters'])
        if ev['outcome'] == 'inconclusive':
            res['inconclusive'] = ev['detail']
        elif ev['outcome'] == 'violation':
            key = generic_key(mode, ev)
            wcase, wev = case, ev
            if hazard:
                # attribution: the same program without the snippet (for option hazards: the same program with the
                # option reverted) must pass, else the hazard is not the cause
                if hazard in OPTION_HAZARDS:
                    base, bopts = case, dict(opts, **OPTION_HAZARDS[hazard])
                else:
                    base, bopts = CPGen(random.Random(gseed), flags, None).generate(), opts
                bev = evaluate(base, mode, bopts, wd, res['counters'])
                res['counters']['hazard_attribution_runs'] = 1
                if bev['outcome'] == 'violation':
                    key, wcase, wev = generic_key(mode, bev), base, bev
                elif bev['outcome'] == 'ok':
                    key = f"{HAZ[hazard][1]}:{ev['symptom']}"
            elif ev['symptom'] not in ('exception', 'compile', 'runtime') and opts.get('simplify') and mode in ('dce1',):
                # attribution for the simplify-rewrites-a-kept-real-condition mechanism: the same program with
                # use_simplify=False must pass and the two transformed texts may differ only in condition lines
                bev = evaluate(case, 'dce0', dict(opts, simplify=False), wd, res['counters'])
                res['counters']['simplify_attribution_runs'] = 1
                if bev['outcome'] == 'ok' and _only_real_conditions_differ(ev['after'], bev['after']):
                    key = 'deadcode-simplify:kept-real-condition-reassociated-by-simplify:differ'
            res['violations'].append({
                'key': key, 'msg': f"mode={mode} opts={opts} hazard={hazard}: {wev['detail']}"[:700],
                'witness': {'mode': mode, 'opts': opts, 'hazard': hazard, 'files': wcase.files,
                            'transformed': wev['after'], 'driver': wcase.driver[1],
                            'diff': {k: v for k, v in (wev['diff'] or {}).items() if k != 'runs'}}})
        else:
            res['nontrivial'] = bool(ev['changed'])
            res['counters']['oracle_evals'] = 1
            if hazard:
                res['counters']['hazard_cases_without_violation'] = 1
            res['sample'] = {'mode': mode, 'hazard': hazard, 'opts': opts, 'features': feats[:12],
                             'kern_lines': len(case.files[1][1].splitlines())}
    finally:
        shutil.rmtree(wd, ignore_errors=True)
    return res
