"""C14 -- Transformer / NestedTransformer / MaskedTransformer / NestedMaskedTransformer apply exactly the
requested node mapping (reference rebuild on an s-expression encoding; original-tree snapshot; ``rebuilt``)."""
import random

from vlib import irlab
from vlib.core import sighash

PID = 'C14'
LEVEL = 'exploration'
TECHNIQUE = 'reference-model monitor: independent s-expression rebuild vs the real transformers'
LEVEL_TEXT = ('every (tree, mapping, transformer, options) pair generated was executed on the real transformer classes '
              'and its result, the original tree and the `rebuilt` record were compared against an independent model')
LEVEL_NOTE = ('mapping keys follow the API key semantics (dict membership = node value equality); replacement nodes '
              'other than the key itself are key-free; Masked variants are checked with an empty mapper against '
              'their documented start/stop semantics; NestedTransformer one-to-one handles are attribute-changed '
              'clones of the key')
RULE = ('trees: bodies/specs of E1-generated routines decorated with pragmas/comments (FP frontend) and hand-assembled '
        'trees (Section, Associate, Loop, WhileLoop, Conditional/else-if, MultiConditional, MaskedStatement, Forall, '
        'PragmaRegion, Interface, TypeDef, Enumeration, comments, pragmas, same-object and value-equal duplicates) over '
        'a zoo of parsed statements; per tree several random mappings (to None, node -- 22 % of the fresh replacement '
        'nodes are falsy or empty containers: empty Section, blank-comment Section, empty Associate / Loop --, tuple, tuple containing the '
        'key, empty tuple, tuple keys, nested keys) x transformer class x inplace/rebuild_scopes/invalidate_source, '
        'or start/stop sets for the masked variants. Non-trivial = the reference result differs from the input tree; '
        'distinct = hash of (tree encoding, mapping description, options).')
CASES = {'quick': 400, 'thorough': 6000}
MIN_NONTRIVIAL = {'quick': 180, 'thorough': 2500}
ANCHORS = ['loki/ir/transformer.py', 'loki/ir/nodes/abstract_nodes.py']
REQUIRED_REACH = ['visit_ScopedNode', '_inject_tuple_mapping', 'visit_InternalNode', '_rebuild', '_update']
REQUIRED_COUNTERS = {'pairs_checked': 500, 'original_snapshots_compared': 200, 'rebuilt_entries_checked': 1000}
ASSUMPTIONS = ['node equality / hashing of the IR dataclasses is the key semantics of the mapper (dict contract)',
               'fields pragma / pragma_post / comment / CommentBlock.comments are attachments outside the tree',
               'the source field is excluded from content comparison of changed nodes (documented invalidation) but '
               'nodes whose subtree contains no mapped node must come back equal including source']
BUDGET_S = {'quick': 600, 'thorough': 3000}
CASE_TIMEOUT_S = 120

PAIRS_PER_CASE = 10
INNER = ('MultiConditional', 'MaskedStatement', 'TypeConditional')


# ------------------------------------------------------------------------------------------------
# worker setup: zoo pool
# ------------------------------------------------------------------------------------------------

def setup_worker(tier, ctx):
    import sys
    sys.setrecursionlimit(20000)   # hashing a node recurses through its whole subtree and expression trees
    sf = irlab.zoo()
    mod = sf['zoo_mod']
    ctx['zoo_sf'] = sf
    ctx['zoo_routine'] = mod['zoo']
    ctx['zoo_pool'] = irlab.strip_source(tuple(mod['zoo'].body.body))
    ctx['zoo_spec'] = mod.spec


# ------------------------------------------------------------------------------------------------
# reference model
# ------------------------------------------------------------------------------------------------

class Ref:
    """Reference rebuild producing s-expressions. Uses only dataclass fields and dict membership."""

    def __init__(self, mapper, drop_empty_inner=False):
        import loki.ir as ir
        self.ir = ir
        self.mapper = mapper
        self.drop_empty_inner = drop_empty_inner   # model of the known defect (for classification only)
        self.memo = {}
        self.visited = []      # (original node, reference result sexp or None) for the `rebuilt` check
        self.changed = set()   # id of original nodes whose subtree is changed
        self.empty_inner = False
        self.elseif_broken = False
        self.window_bug = False
        self.keys_seen = set()     # ids of nodes that were mapper keys at reference time
        self.key_nodes = []
        self.invalid_request = False
        self.window_replaced = set()

    def is_key(self, n):
        try:
            return n in self.mapper
        except TypeError:
            return False

    # -- sequences -------------------------------------------------------------------------------
    def inject(self, items):
        """Phase 1 of a tuple visit: window keys and one-to-many keys, in mapper order."""
        ir = self.ir
        items = list(items)
        for k, h in self.mapper.items():
            if isinstance(k, tuple):
                g = len(k)
                out, i = [], 0
                subs = list(h) if isinstance(h, tuple) else ([] if h is None else [h])
                while i < len(items):
                    if g and tuple(items[i:i + g]) == k:
                        out.extend(subs)
                        i += g
                    else:
                        out.append(items[i])
                        i += 1
                items = out
                continue
            if isinstance(h, tuple):
                out = []
                for it in items:
                    if isinstance(it, ir.Node) and it == k:
                        out.extend(h)
                    else:
                        out.append(it)
                items = out
        return items

    def seq(self, items, nested_level=0):
        """Transformed flat list of s-expressions for a tuple of nodes (a body)."""
        ir = self.ir
        out = []
        injected = self.inject(items)
        changed = len(injected) != len(items) or any(a is not b for a, b in zip(injected, items))
        for it in injected:
            if isinstance(it, (tuple, list)):
                sub, ch = self.seq(it, nested_level)
                out.extend(sub)
                changed |= ch
                continue
            if not isinstance(it, ir.Node):
                out.append(irlab.enc_value(it, self.memo, False))
                continue
            r, ch = self.node(it)
            changed |= ch
            out.extend(r)
        if len(out) != len(items):
            changed = True
        return out, changed

    # -- nodes -----------------------------------------------------------------------------------
    def node(self, n, in_tuple=True):
        """(list of s-expressions replacing ``n``, changed?)"""
        if self.is_key(n):
            h = self.mapper[n]
            self.keys_seen.add(id(n))
            self.key_nodes.append(n)
            if h is None:
                self.visited.append((n, None))
                return [], True
            if isinstance(h, tuple):
                if not any(x == n for x in h):
                    if in_tuple:
                        # only reachable when the node was not injected (cannot happen inside tuples)
                        raise AssertionError('one-to-many key visited outside of a tuple')
                    raise AssertionError('root mapped to tuple')
                # injected already; the node itself stays a tree node: children are transformed
            else:
                r = irlab.enc(h, self.memo)
                self.visited.append((n, r))
                return [r], True
        r, ch = self.rebuild(n)
        self.visited.append((n, r))
        if ch:
            self.changed.add(id(n))
        return [r], ch

    def field(self, n, name, value):
        """Transformed encoding of one dataclass field."""
        ir = self.ir
        holder = []
        irlab._nodes_in(value, ir.Node, holder)
        if not holder or name in irlab.ATTACHED_FIELDS:
            return irlab.enc_value(value, self.memo, False), False
        if isinstance(value, ir.Node):
            # single node field (not in a tuple): no such traversable field exists; keep as is
            return irlab.enc_value(value, self.memo, False), False
        if name == 'bodies':
            out = []
            changed = False
            for inner in value:
                sub, ch = self.seq(inner)
                changed |= ch
                if not sub:
                    self.empty_inner = True
                    if self.drop_empty_inner:
                        changed = True
                        continue
                out.append(tuple(sub))
            return tuple(out), changed
        sub, ch = self.seq(value)
        return tuple(sub), ch

    def rebuild(self, n, override=None):
        items = []
        changed = False
        for name, value in irlab.field_items(n):
            if name in irlab.SKIP_FIELDS:
                continue
            if name == 'text' and isinstance(n, (self.ir.PrintStmt, self.ir.FormatStmt)):
                continue
            if name == 'bodies' and any(not b for b in value):
                self.empty_inner = True
            if override is not None and name in override:
                items.append((name, irlab.enc_value(override[name], self.memo, False)))
                continue
            v, ch = self.field(n, name, value)
            changed |= ch
            if name == 'else_body' and getattr(n, 'has_elseif', False) and \
                    not (len(v) == 1 and irlab.class_of(v[0]) == 'Conditional'):
                self.elseif_broken = True
            if getattr(n, 'inline', False) and ch and (
                    (name == 'bodies' and isinstance(n, self.ir.MaskedStatement) and
                     not (len(v) == 1 and len(v[0]) == 1)) or
                    (name == 'body' and isinstance(n, self.ir.Forall) and len(v) != 1)):
                self.elseif_broken = True    # single-statement form cannot hold the requested result
            items.append((name, v))
        return ('@' + type(n).__name__, tuple(items)), changed

    def top(self, tree):
        """Reference result for ``visit(tree)``: ('node', sexp|None) or ('seq', [sexp...])."""
        ir = self.ir
        if isinstance(tree, ir.Node):
            r, _ = self.node(tree, in_tuple=False)
            return ('node', r[0] if r else None)
        sub, _ = self.seq(tree)
        return ('seq', tuple(sub))


class NestedRef(Ref):
    """Depth-first variant: children first, then the mapping (documented for NestedTransformer)."""

    def seq(self, items, nested_level=0):
        ir = self.ir
        visited = []     # list of (original item or None, [sexps])
        changed = False
        # children first; window / one-to-many keys are matched on the visited (rebuilt) nodes, which are equal
        # to the originals exactly when their subtree was not changed
        res = []
        for it in items:
            if isinstance(it, (tuple, list)):
                sub, ch = self.seq(it)
                changed |= ch
                res.append((None, sub))
            elif isinstance(it, ir.Node):
                r, ch = self.node(it)
                changed |= ch
                res.append((it if not ch else None, r))
            else:
                res.append((None, [irlab.enc_value(it, self.memo, False)]))
        for k, h in self.mapper.items():
            if not isinstance(k, tuple):
                continue
            g = len(k)
            out, i = [], 0
            subs = list(h) if isinstance(h, tuple) else ([] if h is None else [h])
            while i < len(res):
                grp = res[i:i + g]
                if len(grp) == g and all(o is not None and len(r) == 1 for o, r in grp) and \
                        tuple(o for o, _ in grp) == k and not (
                            self.window_bug and any(irlab.node_children(o) for o, _ in grp)):
                    for s in subs:
                        out.append((None, [irlab.enc(s, self.memo)]))
                    for o, _ in grp:
                        self.window_replaced.add(id(o))
                    i += g
                    changed = True
                else:
                    out.append(res[i])
                    i += 1
            res = out
        flat = [s for _, r in res for s in r]
        if len(flat) != len(items):
            changed = True
        return flat, changed

    def node(self, n, in_tuple=True):
        if self.is_key(n):
            h = self.mapper[n]
            self.keys_seen.add(id(n))
            self.key_nodes.append(n)
            if h is None:
                self.visited.append((n, None))
                return [], True
            if isinstance(h, tuple):
                raise AssertionError('one-to-many not modelled for NestedTransformer')
            if type(h) is not type(n):
                # a childless leaf replaced by another node: nothing to carry over
                r = irlab.enc(h, self.memo)
                self.visited.append((n, r))
                return [r], True
            # handle = clone of n with non-traversable attributes changed: children of n transformed
            override = {name: value for name, value in irlab.field_items(h)
                        if name not in n._traversable and name not in irlab.SKIP_FIELDS}
            r, _ = self.rebuild(n, override=override)
            self.visited.append((n, r))
            self.changed.add(id(n))
            return [r], True
        return super().node(n, in_tuple)


class MaskedRef:
    """Model of the documented start/stop semantics of MaskedTransformer (empty mapper)."""

    def __init__(self, start, stop, active, require_all_start, greedy_stop):
        import loki.ir as ir
        self.ir = ir
        self.start = set(start)
        self.stop = set(stop)
        self.active = active
        self.require_all_start = require_all_start
        self.greedy_stop = greedy_stop
        self.memo = {}
        self.empty_inner = False
        self.scoped_inactive = False
        self.elseif_broken = False
        self.elseif_dissolved = False
        self.dissolved = set()
        self.included = 0

    def enter(self, n):
        if self.require_all_start:
            if n in self.start:
                self.start.remove(n)
                self.active = self.active or not self.start
            else:
                self.active = self.active and n not in self.stop
        else:
            self.active = (self.active and n not in self.stop) or n in self.start
        if self.greedy_stop and n in self.stop:
            self.start.clear()
            self.active = False

    keep_objects = False   # non-node entries (program units in interface bodies) follow the parent's state

    def seq(self, items, parent_active=False):
        out = []
        for it in items:
            if isinstance(it, (tuple, list)):
                out.extend(self.seq(it, parent_active))
            elif isinstance(it, self.ir.Node):
                out.extend(self.node(it))
            elif it is not None and (parent_active or self.keep_objects):
                out.append(irlab.enc_value(it, self.memo, False))
        return out

    def node(self, n):
        """list of s-expressions that appear in place of n"""
        ir = self.ir
        self.enter(n)
        parent_active = self.active
        items = []
        spliced = []
        for name, value in irlab.field_items(n):
            if name in irlab.SKIP_FIELDS:
                continue
            if name == 'text' and isinstance(n, (ir.PrintStmt, ir.FormatStmt)):
                continue
            holder = []
            irlab._nodes_in(value, ir.Node, holder)
            if name == 'bodies' and any(not b for b in value):
                self.empty_inner = True
            if not holder or name in irlab.ATTACHED_FIELDS or isinstance(value, ir.Node):
                items.append((name, irlab.enc_value(value, self.memo, False)))
                continue
            if name == 'bodies':
                inner = []
                for b in value:
                    sub = self.seq(b, parent_active)
                    if not sub:
                        self.empty_inner = True
                    inner.append(tuple(sub))
                    spliced.extend(sub)
                items.append((name, tuple(inner)))
            else:
                sub = self.seq(value, parent_active)
                spliced.extend(sub)
                items.append((name, tuple(sub)))
        if parent_active:
            self.included += 1
            if getattr(n, 'has_elseif', False):
                eb = dict(items).get('else_body')
                if not (len(eb) == 1 and irlab.class_of(eb[0]) == 'Conditional'):
                    self.elseif_broken = True
            return [('@' + type(n).__name__, tuple(items))]
        return spliced

    def top(self, tree):
        if isinstance(tree, self.ir.Node):
            return tuple(self.node(tree))
        return tuple(self.seq(tree))


class NestedMaskedRef(MaskedRef):
    """Model of NestedMaskedTransformer: internal nodes are kept while any body child is kept."""

    keep_objects = True    # documented: non-node objects are kept regardless of the state

    def node(self, n):
        ir = self.ir
        self.enter(n)
        if isinstance(n, ir.ScopedNode):
            # scoped nodes are documented for MaskedTransformer only (handled by the inherited handler)
            return self.scoped(n)
        if isinstance(n, ir.Conditional):
            body = self.seq(n.body)
            else_body = self.seq(n.else_body)
            if not body:
                self.dissolved.add(id(n))
                return else_body
            self.included += 1
            # ELSE IF form only survives if the else-if conditional itself is still there
            has_elseif = bool(n.has_elseif and len(else_body) == 1 and id(n.else_body[0]) not in self.dissolved)
            if n.has_elseif and else_body and id(n.else_body[0]) in self.dissolved:
                self.elseif_dissolved = True
            return [self.encode(n, {'body': tuple(body), 'else_body': tuple(else_body), 'has_elseif': has_elseif})]
        if isinstance(n, (ir.MultiConditional, ir.TypeConditional)):
            branches = []
            for v, b in zip(n.values, n.bodies):
                sub = self.seq(b)
                if sub:
                    branches.append((v, tuple(sub)))
            else_body = self.seq(n.else_body)
            if not branches:
                return else_body
            self.included += 1
            return [self.encode(n, {'values': tuple(irlab.enc_value(v, self.memo, False) for v, _ in branches),
                                    'bodies': tuple(b for _, b in branches), 'else_body': tuple(else_body)},
                                raw=('values',))]
        if isinstance(n, ir.InternalNode):
            body = self.seq(n.body)
            if not body:
                return []
            self.included += 1
            return [self.encode(n, {'body': tuple(body)})]
        # leaf nodes (MaskedStatement is a leaf: kept as a whole iff active on entry)
        if not self.active:
            return []
        self.included += 1
        over = {}
        for name, value in irlab.field_items(n):
            holder = []
            irlab._nodes_in(value, ir.Node, holder)
            if name == 'bodies' and any(not b for b in value):
                self.empty_inner = True
            if holder and name not in irlab.ATTACHED_FIELDS and not isinstance(value, ir.Node):
                if name == 'bodies':
                    inner = [tuple(self.seq(b)) for b in value]
                    if any(not b for b in inner):
                        self.empty_inner = True
                    over[name] = tuple(inner)
                else:
                    over[name] = tuple(self.seq(value))
        return [self.encode(n, over)]

    def scoped(self, n):
        parent_active = self.active
        if not hasattr(n, 'body'):
            # statement function: a leaf
            if parent_active:
                self.included += 1
                return [self.encode(n, {})]
            self.scoped_inactive = True
            return []
        body = self.seq(n.body)
        if parent_active:
            self.included += 1
            return [self.encode(n, {'body': tuple(body)})]
        # documented rule for internal nodes: kept while any child is kept
        self.scoped_inactive = True
        if not body:
            return []
        self.included += 1
        return [self.encode(n, {'body': tuple(body)})]

    def encode(self, n, over, raw=()):
        ir = self.ir
        items = []
        for name, value in irlab.field_items(n):
            if name in irlab.SKIP_FIELDS:
                continue
            if name == 'text' and isinstance(n, (ir.PrintStmt, ir.FormatStmt)):
                continue
            if name in over:
                items.append((name, over[name]))
            else:
                items.append((name, irlab.enc_value(value, self.memo, False)))
        return ('@' + type(n).__name__, tuple(items))


# ------------------------------------------------------------------------------------------------
# case generation
# ------------------------------------------------------------------------------------------------

def make_tree(rng, ctx, feats):
    """Returns (tree, kind, holder) -- holder keeps parsed objects alive."""
    import loki.ir as ir
    r = rng.random()
    if r < 0.45:
        text, f = irlab.gen_text(rng, {'io_in_kernel': rng.random() < 0.2, 'max_stmts': rng.choice([6, 10, 14])},
                                 decorate_p=0.7)
        feats |= {'gen:' + x for x in f if not x.startswith('unmatched')}
        sf = irlab.parse(text)
        routines = irlab.all_routines(sf)
        rt = routines[0] if rng.random() < 0.7 else rng.choice(routines)
        which = rng.random()
        if which < 0.7:
            tree = rt.body
        elif which < 0.8:
            tree = rt.spec
        elif which < 0.9:
            tree = tuple(rt.body.body)
        else:
            tree = sf['kmod'].spec
        if rng.random() < 0.35:
            tree = irlab.strip_source(tree)
            feats.add('source_stripped')
        return tree, 'generated', (sf, text)
    stop_code = rng.random() < 0.05    # STOP with a code: known rebuild mechanism, kept in a small slice
    if stop_code:
        feats.add('stop_code_slice')
    if r < 0.55:
        # zoo trees as parsed (sources present), fresh parse because in-place runs modify them
        sf = irlab.zoo(stop_code=stop_code)
        mod = sf['zoo_mod']
        tree = rng.choice([mod['zoo'].body, mod['zoo'].spec, mod.spec, mod['swap_i'].body])
        feats.add('zoo_parsed')
        return tree, 'zoo', (sf, None)
    pool = list(irlab.strip_source(ctx['zoo_pool']))   # deep copy: in-place runs must not leak between cases
    if not stop_code:
        pool = [p for p in pool if not any(isinstance(x, ir.StopStmt) and x.text for x in irlab.preorder(p))]
    holder = None
    if rng.random() < 0.5:
        text, f = irlab.gen_text(rng, {'max_stmts': 8}, decorate_p=0.5)
        sf = irlab.parse(text)
        rt = irlab.all_routines(sf)[0]
        pool += list(irlab.strip_source(tuple(rt.body.body)))
        holder = (sf, text)
        feats.add('pool_from_generated')
    empty_inner = rng.random() < 0.04
    tb = irlab.TreeBuilder(rng, ctx['zoo_routine'], pool, dup_p=rng.choice([0.05, 0.15, 0.3]),
                           empty_inner=empty_inner, stop_code=stop_code)
    for _ in range(5):
        tree = tb.tree(depth=rng.choice([2, 3, 3, 4]), nmax=rng.choice([3, 5, 7]))
        if len(irlab.preorder(tree, enter_typedef=True)) <= 300:
            break
        tb.made = []
    feats |= tb.features
    return tree, 'hand', holder


def fresh_node(rng, ctx, tag):
    import loki.ir as ir
    from loki.expression import symbols as sym
    scope = ctx['zoo_routine']
    # unique per case, so that nodes made for different pairs of a case are never value-equal by accident
    ctx['fresh_counter'] = ctx.get('fresh_counter', 0) + 1
    tag = ctx['fresh_counter'] * 100 + tag % 100
    k = rng.choice(['comment', 'assign', 'loop', 'section', 'pragma', 'cond', 'assoc'])
    if rng.random() < 0.22:
        # replacement nodes that are falsy / empty containers (a Section behaves like its body: len() == 0 makes it
        # falsy): a handle tested with 'if not handle' instead of 'is None' would be taken for "remove the node"
        k = rng.choice(['empty_section', 'empty_section', 'empty_labelled_section', 'blank_comment_section',
                        'empty_assoc', 'empty_loop', 'blank_comment'])
        if ctx.get('fresh_feats') is not None:
            ctx['fresh_feats'].add('fresh:' + k)
        if k == 'empty_section':
            return ir.Section(body=())
        if k == 'empty_labelled_section':
            return ir.Section(body=(), label=f'e{tag}')
        if k == 'blank_comment_section':
            return ir.Section(body=(ir.Comment(text=''),))
        if k == 'blank_comment':
            return ir.Comment(text='')
        if k == 'empty_loop':
            return ir.Loop(variable=sym.Variable(name='j', scope=scope),
                           bounds=sym.LoopRange((sym.IntLiteral(1), sym.IntLiteral(tag + 2))), body=())
        return ir.Associate(associations=((sym.Variable(name='n', scope=scope), sym.Variable(name=f'nn{tag}')),),
                            body=(), parent=scope)
    if k == 'comment':
        return ir.Comment(text=f'! new {tag}')
    if k == 'pragma':
        return ir.Pragma(keyword='loki', content=f'new {tag}')
    asg = ir.Assignment(lhs=sym.Variable(name='i', scope=scope), rhs=sym.IntLiteral(1000 + tag))
    if k == 'assign':
        return asg
    if k == 'loop':
        return ir.Loop(variable=sym.Variable(name='j', scope=scope),
                       bounds=sym.LoopRange((sym.IntLiteral(1), sym.IntLiteral(tag + 2))), body=(asg,))
    if k == 'section':
        return ir.Section(body=(asg, ir.Comment(text=f'! in new section {tag}')))
    if k == 'cond':
        return ir.Conditional(condition=sym.LogicLiteral(True), body=(asg,), else_body=(ir.Comment(text='! e'),))
    return ir.Associate(associations=((sym.Variable(name='n', scope=scope), sym.Variable(name=f'nn{tag}')),),
                        body=(asg,), parent=scope)


def subtree_has_key(x, mapper):
    for n in irlab.preorder(x, enter_typedef=True):
        try:
            if n in mapper:
                return True
        except TypeError:
            pass
    return False


def parent_map(tree):
    """id(node) -> (parent node or None, field name) via the independent walk."""
    import loki.ir as ir
    out = {}
    for n in irlab.preorder(tree, enter_typedef=True):
        for name, value in irlab.field_items(n):
            if name in irlab.SKIP_FIELDS or name in irlab.ATTACHED_FIELDS:
                continue
            sub = []
            irlab._nodes_in(value, ir.Node, sub)
            for c in sub:
                out.setdefault(id(c), (n, name))
    return out


def gen_mapping(rng, ctx, tree, nodes, kind, allow_empty_inner, feats, inplace=False):
    """Random mapper (dict) + json description. Returns (mapper, desc) or None."""
    import loki.ir as ir
    if not nodes:
        return None
    pmap = parent_map(tree)
    mapper = {}
    desc = []
    nkeys = rng.choice([1, 1, 2, 2, 3, 4])
    root = tree if isinstance(tree, ir.Node) else None
    cand = [n for n in nodes if n is not root]
    if not cand:
        return None
    tag = 0
    for _ in range(nkeys):
        n = rng.choice(cand)
        par = pmap.get(id(n), (None, None))[0]
        if isinstance(par, (ir.MaskedStatement, ir.Forall)) and par.inline:
            continue   # single-statement forms cannot hold anything but their one assignment
        try:
            if n in mapper:
                continue
        except TypeError:
            continue
        tag += 1
        if kind == 'NT':
            act = rng.choice(['none', 'attr', 'attr', 'window'])
        else:
            act = rng.choice(['none', 'none', 'node', 'node', 'tuple', 'self_tuple', 'self_tuple', 'empty_tuple',
                              'tree_node', 'self', 'window'])
        if act == 'none':
            mapper[n] = None
        elif act == 'node':
            mapper[n] = fresh_node(rng, ctx, tag)
        elif act == 'tree_node':
            # (with inplace the replacement node would itself be updated during the run: order dependent)
            other = rng.choice(nodes) if not inplace else fresh_node(rng, ctx, tag)
            if any(x is n for x in irlab.preorder(other, enter_typedef=True)):
                other = fresh_node(rng, ctx, tag)   # an ancestor as replacement would nest the tree into itself
            if isinstance(other, ir.ScopedNode) and rng.random() < 0.7:
                other = fresh_node(rng, ctx, tag)
            mapper[n] = other
        elif act == 'self':
            mapper[n] = n
        elif act == 'tuple':
            mapper[n] = tuple(fresh_node(rng, ctx, tag * 10 + i) for i in range(rng.randint(1, 3)))
        elif act == 'empty_tuple':
            mapper[n] = ()
        elif act == 'self_tuple':
            form = rng.choice(['pre', 'post', 'both', 'only', 'twice'] if not inplace else
                              ['pre', 'post', 'both', 'only'])
            x, y = fresh_node(rng, ctx, tag * 10 + 1), fresh_node(rng, ctx, tag * 10 + 2)
            mapper[n] = {'pre': (x, n), 'post': (n, y), 'both': (x, n, y), 'only': (n,), 'twice': (n, n)}[form]
            act += ':' + form
        elif act == 'attr':
            changes = {}
            if isinstance(n, (ir.Loop, ir.WhileLoop)):
                changes = {'pragma': (ir.Pragma(keyword='loki', content=f'attr {tag}'),)} \
                    if isinstance(n, ir.Loop) else {'name': f'wname{tag}'}
            elif isinstance(n, ir.Conditional):
                changes = {'name': f'cname{tag}'}
            elif isinstance(n, (ir.Comment, ir.Pragma, ir.GenericStmt, ir.CommentBlock)) or not n._traversable:
                mapper[n] = fresh_node(rng, ctx, tag) if not n._traversable and rng.random() < 0.5 else n.clone()
                desc.append({'key': type(n).__name__, 'act': 'leaf-replace'})
                if mapper[n]._traversable:
                    # replacing a childless leaf by a node with children is well defined (no children to carry over)
                    pass
                continue
            else:
                changes = {'label': str(100 + tag)}
            mapper[n] = n.clone(**changes)
        elif act == 'window':
            # tuple key over consecutive siblings
            parent, fname = pmap.get(id(n), (None, None))
            sibs = None
            if parent is not None and fname in ('body', 'else_body', 'default'):
                sibs = getattr(parent, fname)
            elif parent is None and isinstance(tree, tuple):
                sibs = tree
            if not sibs or isinstance(parent, ir.TypeDef):
                continue
            idx = [i for i, s in enumerate(sibs) if s is n]
            if not idx:
                continue
            i0 = idx[0]
            g = rng.randint(1, min(3, len(sibs) - i0))
            grp = tuple(sibs[i0:i0 + g])
            if any(not isinstance(s, ir.Node) for s in grp):
                continue
            if kind == 'NT' and any(irlab.node_children(s) for s in grp):
                # known mechanism: rebuilt inner nodes lose source validity, so the window no longer matches
                if rng.random() > 0.1:
                    continue
                feats.add('map:nt_window_internal_slice')
            from loki.expression import symbols as sym
            # the depth-first class does not revisit the replacement, so it may wrap the group itself (documented
            # use); for the plain class a replacement containing the group would be replaced again without end
            inner = tuple(s.clone() for s in grp) if kind == 'NT' else \
                tuple(fresh_node(rng, ctx, tag * 10 + i) for i in range(g))
            wrap = ir.Section(body=inner, label=f'w{tag}') if rng.random() < 0.5 else \
                ir.Loop(variable=sym.Variable(name='j', scope=ctx['zoo_routine']),
                        bounds=sym.LoopRange((sym.IntLiteral(1), sym.IntLiteral(3))), body=inner)
            try:
                mapper[grp] = wrap
            except TypeError:
                continue
            desc.append({'key': [type(s).__name__ for s in grp], 'act': 'window->' + type(wrap).__name__})
            feats.add('map:window')
            continue
        desc.append({'key': type(n).__name__, 'act': act,
                     'to': [type(x).__name__ for x in mapper[n]] if isinstance(mapper[n], tuple)
                     else type(mapper[n]).__name__})
        feats.add('map:' + act.split(':')[0])
    if not mapper:
        return None
    # well-definedness: elements of tuple handles other than the key are key-free; window groups and their
    # handles are key-free and do not overlap other keys
    single = {k: v for k, v in mapper.items() if not isinstance(k, tuple)}
    for k, h in list(mapper.items()):
        if isinstance(k, tuple):
            others = {kk: vv for kk, vv in mapper.items() if kk is not k}
            if any(subtree_has_key(s, _node_keys(others)) for s in k) or _window_overlap(k, others):
                del mapper[k]
                continue
            members = [m for kk in others if isinstance(kk, tuple) for m in kk]
            if any(x == m for s in k for x in irlab.preorder(s, enter_typedef=True) for m in members):
                del mapper[k]
                continue
            if kind != 'NT' and (subtree_has_key(h, _node_keys(mapper)) or any(
                    x == m for x in irlab.preorder(h, enter_typedef=True)
                    for kk in mapper if isinstance(kk, tuple) for m in kk)):
                del mapper[k]
            continue
        if isinstance(h, tuple):
            for x in h:
                if x is k or x == k:
                    continue
                if subtree_has_key(x, single):
                    del mapper[k]
                    break
    if not mapper:
        return None
    # nested keys feature
    for k in mapper:
        if not isinstance(k, tuple) and any(subtree_has_key(c, mapper) for c in irlab.node_children(k)):
            feats.add('map:nested_keys')
            break
    return mapper, desc


def _node_keys(mapper):
    return {k: v for k, v in mapper.items() if not isinstance(k, tuple)}


def _window_overlap(grp, others):
    for k in others:
        if isinstance(k, tuple) and any(a == b for a in k for b in grp):
            return True
    return False


# ------------------------------------------------------------------------------------------------
# checks
# ------------------------------------------------------------------------------------------------

def norm_result(ir, x, memo):
    """('node', sexp|None) / ('seq', tuple of sexps) of the real result."""
    if x is None:
        return ('node', None)
    if isinstance(x, ir.Node):
        return ('node', irlab.enc(x, memo))
    flat = []

    def rec(v):
        if isinstance(v, (tuple, list)):
            for y in v:
                rec(y)
        elif v is not None:
            flat.append(v)
    rec(x)
    return ('seq', tuple(irlab.enc_value(v, memo, False) for v in flat))


def viol(res, key, msg, witness):
    res['violations'].append({'key': key, 'msg': msg, 'witness': witness})


def tree_text(tree):
    try:
        from loki import fgen
        return fgen(tree)[:3000]
    except Exception as e:  # pylint: disable=broad-except
        return f'<fgen failed: {type(e).__name__}>'


def source_valid(n):
    from loki.frontend.source import Source
    s = getattr(n, 'source', None)
    return bool(s) and isinstance(s, Source) and s.is_valid()


def run_transformer_pair(rng, ctx, tree, kind, res, feats, desc_out):
    """One (mapping, options) pair for Transformer / NestedTransformer on ``tree``."""
    import loki.ir as ir
    from loki.ir import Transformer, NestedTransformer
    C = res['counters']
    nodes = irlab.preorder(tree, enter_typedef=True)
    allow_empty = rng.random() < 0.04
    all_ids = [id(n) for n in irlab.preorder(tree, enter_typedef=True, attached=True)]
    shared = len(set(all_ids)) < len(all_ids)
    if shared:
        feats.add('tree_with_shared_node_objects')
    # in-place updates of a node object that sits at two places of the tree are applied twice: not a tree any more
    has_scoped = any(isinstance(n, ir.ScopedNode) for n in nodes)
    inplace = rng.random() < 0.3 and not shared
    # rebuild_scopes=False without inplace on a tree with scoped nodes: known mechanism, small slice
    rs = rng.random() < 0.7 if (inplace or not has_scoped) else rng.random() < 0.96
    opts = {'inplace': inplace, 'rebuild_scopes': rs, 'invalidate_source': rng.random() < 0.6}
    gm = gen_mapping(rng, ctx, tree, nodes, kind, allow_empty, feats, inplace=inplace)
    if gm is None:
        return None
    mapper, desc = gm
    # known mechanism (every rebuilt inner node loses its source validity): compared in a slice of the pairs only
    check_src = not opts['invalidate_source'] or rng.random() < 0.1
    nested_one_to_many = False
    if kind == 'NT' and rng.random() < 0.04:
        # documented one-to-many request through the depth-first class (small slice)
        cand = [n for n in nodes if n is not tree and not subtree_has_key(n, mapper)]
        if cand:
            n = rng.choice(cand)
            mapper = {n: (fresh_node(rng, ctx, 7), n) if rng.random() < 0.5 else (fresh_node(rng, ctx, 8),)}
            desc = [{'key': type(n).__name__, 'act': 'nested-one-to-many',
                     'to': [type(x).__name__ for x in mapper[n]]}]
            nested_one_to_many = True
            feats.add('map:nested_one_to_many')
    # reference
    RefC = NestedRef if kind == 'NT' and not nested_one_to_many else Ref
    ref = RefC(mapper)
    try:
        expected = ref.top(tree)
    except AssertionError:
        return None
    if ref.elseif_broken:
        return None    # request leaves an ELSE IF chain without its conditional: not a well-formed request
    if ref.empty_inner and not allow_empty:
        return None    # keep the known empty-inner-body mechanism inside its small slice
    if ref.empty_inner:
        feats.add('empty_inner_body_slice')
    before = irlab.enc(tree, None, with_private=True)
    before_src = [(n, n.source) for n in nodes[:400]]
    ids_before = [id(n) for n in irlab.preorder(tree, enter_typedef=True, attached=True)]
    under_scoped = set()
    for sn in nodes:
        if isinstance(sn, ir.ScopedNode):
            under_scoped |= {id(x) for x in irlab.preorder(sn, enter_typedef=True, attached=True)[1:]}
    T = NestedTransformer if kind == 'NT' else Transformer
    desc_full = {'transformer': T.__name__, 'opts': opts, 'mapping': desc}
    desc_out.append(desc_full)
    witness = {'desc': desc_full, 'tree': None}
    tr = T(mapper, **opts)
    C['pairs_checked'] += 1
    try:
        result = tr.visit(tree)
    except Exception as e:  # pylint: disable=broad-except
        witness['tree'] = tree_text(tree)
        if nested_one_to_many:
            viol(res, f'nested-transformer:one-to-many:raises-{type(e).__name__}',
                 f'NestedTransformer with a one-to-many mapping raised {type(e).__name__}: {str(e)[:200]}', witness)
        elif ref.empty_inner:
            viol(res, f'transformer:empty-inner-body:raises-{type(e).__name__}',
                 f'{T.__name__} raised {type(e).__name__} on a tree whose MultiConditional/MaskedStatement has an '
                 f'empty branch body (before or after the mapping): {str(e)[:200]}', witness)
        else:
            viol(res, f'transformer:exception:{T.__name__}:{type(e).__name__}',
                 f'{T.__name__}.visit raised {type(e).__name__}: {str(e)[:300]}', witness)
        return True
    memo = {}
    after = irlab.enc(tree, None, with_private=True)
    scoped_mutation = (not opts['inplace'] and not opts['rebuild_scopes'] and after != before
                       and _scoped_on_path(irlab.first_diff(before, after)))
    actual = norm_result(ir, result, memo)
    exp_cmp = expected
    if expected[0] == 'node' and actual[0] == 'seq' and len(actual[1]) == 1:
        actual = ('node', actual[1][0])
    nontrivial = False
    try:
        nontrivial = expected != norm_result(ir, tree, {})
    except Exception:  # pylint: disable=broad-except
        pass
    if actual != exp_cmp:
        witness['tree'] = tree_text(tree)
        diff = irlab.first_diff(exp_cmp, actual)
        witness['diff'] = diff
        if nested_one_to_many:
            viol(res, 'nested-transformer:one-to-many:wrong-result',
                 f'NestedTransformer one-to-many result differs from splicing: {diff}', witness)
        elif ref.empty_inner:
            buggy = RefC(mapper, drop_empty_inner=True)
            try:
                bexp = buggy.top(tree)
            except AssertionError:
                bexp = None
            cls = _inner_class(diff)
            if bexp == actual:
                viol(res, f'transformer:empty-inner-body-dropped:{cls}',
                     f'an empty branch body of {cls} is dropped by the tuple visit, shifting the remaining bodies '
                     f'against their values/conditions: {diff}', witness)
            else:
                viol(res, f'transformer:result-mismatch:{T.__name__}:with-empty-inner-body', str(diff), witness)
        elif 'map:nt_window_internal_slice' in feats and kind == 'NT' \
                and _nt_window_bug_explains(mapper, tree, actual):
            viol(res, 'nested-transformer:window-key-with-inner-node-not-matched',
                 f'tuple key containing a node with children is not replaced (rebuilt member compares unequal '
                 f'because its source was invalidated): {diff}', witness)
        elif scoped_mutation:
            pass   # reported below as the scoped in-place mechanism, which also disturbs key lookup mid-traversal
        elif _stop_text(diff):
            viol(res, 'transformer:rebuild-rewraps-literal:StopStmt.text',
                 f'rebuilding a STOP statement wraps its code in one more IntrinsicLiteral each time: {diff}', witness)
        else:
            viol(res, f'transformer:result-mismatch:{T.__name__}:{_diff_class(diff)}',
                 f'result differs from reference rebuild: {diff}', witness)
    else:
        C['results_equal_reference'] += 1
    # original tree
    if not opts['inplace']:
        C['original_snapshots_compared'] += 1
        if after != before:
            witness['tree'] = witness['tree'] or '(original already modified)'
            diff = irlab.first_diff(before, after)
            scoped = _scoped_on_path(diff)
            if not opts['rebuild_scopes'] and scoped:
                viol(res, 'transformer:scoped-node-inplace-without-rebuild_scopes',
                     f'original tree modified without inplace (rebuild_scopes=False): {diff}', witness)
            else:
                viol(res, f'transformer:original-modified:{T.__name__}:{_diff_class(diff)}',
                     f'original tree modified without inplace: {diff}', witness)
        ids_after = [id(n) for n in irlab.preorder(tree, enter_typedef=True, attached=True)]
        if ids_after != ids_before and after == before:
            gone = {a for a, b in zip(ids_before, ids_after) if a != b} if len(ids_before) == len(ids_after) \
                else set(ids_before) - set(ids_after)
            if not opts['rebuild_scopes'] and gone and gone <= under_scoped:
                viol(res, 'transformer:scoped-node-inplace-without-rebuild_scopes',
                     'nodes below a scoped node of the original tree were replaced by rebuilt copies without inplace '
                     '(rebuild_scopes=False)', witness)
            else:
                viol(res, f'transformer:original-identities-changed:{T.__name__}',
                     'node identities of the original tree changed without inplace', witness)
    else:
        feats.add('opt:inplace')
        # surviving nodes must still be the same objects in the result
        if actual == exp_cmp:
            res_ids = {id(n) for n in irlab.preorder(result, enter_typedef=True)} if result is not None else set()
            # (one replacement object serves every value-equal occurrence of a key: nodes below keys are left out)
            for kn in ref.key_nodes:
                res_ids |= {id(x) for x in irlab.preorder(kn, enter_typedef=True)}
            missing = [type(n).__name__ for n, r in ref.visited
                       if r is not None and id(n) not in ref.keys_seen and id(n) not in res_ids
                       and id(n) not in ref.window_replaced]
            C['inplace_identity_checks'] += 1
            if missing:
                viol(res, f'transformer:inplace-node-replaced:{missing[0]}',
                     f'inplace=True: surviving original nodes are no longer in the tree: {missing[:5]}', witness)
    # rebuilt record
    if actual == exp_cmp and not nested_one_to_many:
        memo2 = {}
        res_ids = None
        for n, r in ref.visited:
            if id(n) in ref.window_replaced:
                continue
            C['rebuilt_entries_checked'] += 1
            try:
                present = n in tr.rebuilt
            except TypeError:
                continue
            if not present:
                # allowed only when the node was returned identically
                if res_ids is None:
                    res_ids = {id(x) for x in irlab.preorder(result, enter_typedef=True)} if result is not None \
                        else set()
                if id(n) not in res_ids and after == before:
                    witness['tree'] = witness['tree'] or tree_text(tree)
                    viol(res, f'transformer:rebuilt-missing:{type(n).__name__}',
                         f'`rebuilt` has no entry for original {type(n).__name__} that was not returned identically',
                         witness)
                    break
                continue
            got = tr.rebuilt[n]
            genc = None if got is None else irlab.enc(got, memo2)
            if genc != r and after == before and _stop_text(irlab.first_diff(r, genc)):
                viol(res, 'transformer:rebuild-rewraps-literal:StopStmt.text',
                     f'rebuilding a STOP statement wraps its code in one more IntrinsicLiteral each time: '
                     f'{irlab.first_diff(r, genc)}', witness)
                break
            if genc != r and after == before:
                witness['tree'] = witness['tree'] or tree_text(tree)
                viol(res, f'transformer:rebuilt-wrong:{type(n).__name__}',
                     f'rebuilt[{type(n).__name__}] is not the rebuilt node: {irlab.first_diff(r, genc)}', witness)
                break
            # untouched subtrees come back equal including source
            if got is not None and id(n) not in ref.changed and id(n) not in ref.keys_seen and after == before \
                    and not isinstance(n, ir.ScopedNode):
                C['unchanged_subtree_equalities'] += 1
                if not got == n:
                    # the encodings are equal, so the difference lies in `source` objects at some depth
                    if opts['invalidate_source'] and \
                            any(not source_valid(c) for c in irlab.preorder(n, enter_typedef=True)[1:]):
                        continue   # documented: a child without valid source invalidates the parent's source
                    if not check_src:
                        continue
                    w2 = dict(witness)
                    w2['node'] = type(n).__name__
                    w2['statuses'] = {'original': str(getattr(n.source, 'status', None)),
                                      'rebuilt': str(getattr(got.source, 'status', None))}
                    viol(res, 'transformer:unchanged-node-source-invalidated',
                         f'{type(n).__name__} without any mapped descendant and with only validly sourced '
                         f'descendants came back unequal; source status {getattr(n.source, "status", None)} -> '
                         f'{getattr(got.source, "status", None)}', w2)
                    break
    if not opts['inplace'] and after == before:
        for n, s in before_src:
            if n.source is not s:
                viol(res, f'transformer:original-source-replaced:{type(n).__name__}',
                     'source object of an original node replaced without inplace', witness)
                break
    for k, v in opts.items():
        if v:
            feats.add('opt:' + k)
    feats.add('class:' + T.__name__)
    return nontrivial


def _diff_class(diff):
    """Narrow, seed-independent part of a diff location: class names along the path tail + field."""
    import re
    if not diff:
        return 'unknown'
    head = diff.split(':')[0]
    parts = re.findall(r'/([A-Za-z]+)|\.([a-z_]+)', head)
    names = [a or b for a, b in parts]
    return '-'.join(names[-2:]) if names else 'top'


def _nt_window_bug_explains(mapper, tree, actual):
    ref = NestedRef(mapper)
    ref.window_bug = True
    try:
        return ref.top(tree) == actual
    except AssertionError:
        return False


def _stop_text(diff):
    return bool(diff) and ('StopStmt[0]/text' in diff or 'ExitStmt[0]/text' in diff or 'root/StopStmt' in diff)


def _flat_nodes(value, out):
    for v in value:
        if irlab.class_of(v):
            out.append(dejunk(v))
        elif isinstance(v, tuple) and len(v) == 2 and isinstance(v[0], str) and v[0].startswith('<'):
            out.append(v)     # opaque object (program unit in an interface body)
        elif isinstance(v, tuple):
            _flat_nodes(v, out)
    return out


def dejunk(x):
    """Flatten nested tuples in the node lists of an s-expression (empty ones vanish)."""
    if irlab.class_of(x):
        items = []
        for name, value in x[1]:
            if name in ('body', 'else_body', 'default') and isinstance(value, tuple):
                value = tuple(_flat_nodes(value, []))
            elif name == 'bodies' and isinstance(value, tuple):
                value = tuple(tuple(_flat_nodes(b, [])) if isinstance(b, tuple) else b for b in value)
            items.append((name, value))
        return (x[0], tuple(items))
    if isinstance(x, tuple):
        return tuple(_flat_nodes(x, []))
    return x


def _inner_class(diff):
    for c in INNER:
        if diff and c in diff:
            return c
    return 'inner'


def _scoped_on_path(diff):
    return bool(diff) and any(c in diff for c in ('/Associate', '/TypeDef', 'node Associate', 'node TypeDef'))


def run_masked_pair(rng, ctx, tree, kind, res, feats, desc_out):
    import loki.ir as ir
    from loki.ir import MaskedTransformer, NestedMaskedTransformer
    C = res['counters']
    nodes = irlab.preorder(tree, enter_typedef=True)
    if len(nodes) < 3:
        return None
    pmap = parent_map(tree)

    def ok_marker(n):
        # markers inside WHERE/SELECT branch bodies can empty a branch: kept for the small slice only
        p = n
        while True:
            p = pmap.get(id(p), (None, None))[0]
            if p is None:
                return True
            if type(p).__name__ in INNER or (isinstance(p, ir.Forall) and p.inline):
                return False
    allow_inner = rng.random() < 0.04
    cand = [n for n in nodes if n is not tree and (allow_inner or ok_marker(n))]
    if not cand:
        return None
    nstart = rng.choice([0, 1, 1, 1, 2, 3])
    nstop = rng.choice([0, 0, 1, 1, 2])
    start = [rng.choice(cand) for _ in range(nstart)]
    stop = [rng.choice(cand) for _ in range(nstop)]
    opts = {'active': rng.random() < 0.35 or not start, 'require_all_start': rng.random() < 0.3 and len(start) > 1,
            'greedy_stop': rng.random() < 0.3}
    inplace = False
    T = NestedMaskedTransformer if kind == 'NMT' else MaskedTransformer
    RefC = NestedMaskedRef if kind == 'NMT' else MaskedRef
    ref = RefC(start, stop, **opts)
    expected = ref.top(tree)
    scoped_inactive = ref.scoped_inactive
    if scoped_inactive and rng.random() > 0.1:
        return None    # known mechanism (scoped node inactive on entry of the nested variant): small slice only
    if scoped_inactive:
        feats.add('nested_masked_scoped_inactive_slice')
    if ref.empty_inner and not allow_inner:
        return None
    if ref.elseif_broken and rng.random() > 0.1:
        return None    # known mechanism (has_elseif not updated by MaskedTransformer): small slice only
    if ref.elseif_broken:
        feats.add('masked_elseif_slice')
    if ref.elseif_dissolved and rng.random() > 0.15:
        return None    # known mechanism (has_elseif kept after the ELSE IF conditional was dissolved): small slice

    before = irlab.enc(tree, None, with_private=True)
    desc_full = {'transformer': T.__name__, 'opts': opts,
                 'start': [type(n).__name__ for n in start], 'stop': [type(n).__name__ for n in stop],
                 'start_index': [nodes.index(n) for n in start], 'stop_index': [nodes.index(n) for n in stop]}
    desc_out.append(desc_full)
    witness = {'desc': desc_full, 'tree': None}
    C['pairs_checked'] += 1
    C['masked_pairs'] += 1
    try:
        tr = T(start=start, stop=stop, **opts)
        result = tr.visit(tree)
    except Exception as e:  # pylint: disable=broad-except
        witness['tree'] = tree_text(tree)
        if ref.elseif_dissolved:
            viol(res, f'nested-masked:has_elseif-after-dissolved-elseif:raises-{type(e).__name__}',
                 f'NestedMaskedTransformer replaces an ELSE IF conditional whose body is empty by its else-body but '
                 f'keeps has_elseif=True on the parent: {str(e)[:200]}', witness)
        elif ref.elseif_broken:
            viol(res, f'masked:has_elseif-not-updated:raises-{type(e).__name__}',
                 f'{T.__name__} keeps has_elseif=True on an IF whose ELSE IF conditional was masked out and fails '
                 f'in the node constructor: {str(e)[:200]}', witness)
        elif scoped_inactive:
            viol(res, f'nested-masked:scoped-node-inactive-on-entry:raises-{type(e).__name__}',
                 f'NestedMaskedTransformer raised {type(e).__name__} for an ASSOCIATE / scoped node that is inactive '
                 f'on entry but has included children: {str(e)[:200]}', witness)
        elif ref.empty_inner:
            viol(res, f'masked:empty-inner-body:raises-{type(e).__name__}',
                 f'{T.__name__} raised {type(e).__name__} when a WHERE/SELECT branch body became empty', witness)
        else:
            viol(res, f'masked:exception:{T.__name__}:{type(e).__name__}',
                 f'{T.__name__}.visit raised {type(e).__name__}: {str(e)[:300]}', witness)
        return True
    actual = norm_result(ir, result, {})
    actual = actual[1] if actual[0] == 'seq' else (() if actual[1] is None else (actual[1],))
    if actual != expected:
        witness['tree'] = tree_text(tree)
        diff = irlab.first_diff(expected, actual)
        witness['diff'] = diff
        if ref.elseif_dissolved and 'has_elseif' in str(diff):
            viol(res, 'nested-masked:has_elseif-after-dissolved-elseif:wrong-result',
                 f'has_elseif stays True after the ELSE IF conditional was replaced by its else-body: {diff}', witness)
        elif scoped_inactive:
            viol(res, 'nested-masked:scoped-node-inactive-on-entry:wrong-result',
                 f'scoped node inactive on entry is not retained with its included children: {diff}', witness)
        elif _stop_text(diff):
            viol(res, 'transformer:rebuild-rewraps-literal:StopStmt.text',
                 f'rebuilding a STOP statement wraps its code in one more IntrinsicLiteral each time: {diff}', witness)
        elif ref.empty_inner and dejunk(actual) != expected:
            cls = _inner_class(diff)
            if cls == 'inner' and _scoped_on_path(diff):
                cls = 'in-scoped-node'
            viol(res, f'masked:empty-inner-body-dropped:{cls}', str(diff), witness)
        elif dejunk(actual) == expected:
            viol(res, f'masked:tuples-left-in-scoped-body:{T.__name__}',
                 f'body of an in-place updated scoped node contains (empty or nested) tuples instead of nodes: {diff}',
                 witness)
        else:
            viol(res, f'masked:result-mismatch:{T.__name__}:{_diff_class(diff)}',
                 f'result differs from documented start/stop semantics: {diff}', witness)
    else:
        C['results_equal_reference'] += 1
    after = irlab.enc(tree, None, with_private=True)
    C['original_snapshots_compared'] += 1
    if after != before:
        viol(res, f'masked:original-modified:{T.__name__}:{_diff_class(irlab.first_diff(before, after))}',
             f'original tree modified: {irlab.first_diff(before, after)}', witness)
    feats.add('class:' + T.__name__)
    for k, v in opts.items():
        if v:
            feats.add('mopt:' + k)
    return 0 < ref.included < len(nodes)


def _flat_strings(x):
    if isinstance(x, str):
        yield x
    elif isinstance(x, tuple) and not (len(x) == 2 and isinstance(x[0], str) and isinstance(x[1], tuple)):
        for y in x:
            yield from _flat_strings(y)


def run_case(idx, rng, tier, ctx):
    import collections
    feats = set()
    ctx['fresh_counter'] = 0
    ctx['fresh_feats'] = feats
    res = {'sig': None, 'nontrivial': False, 'violations': [], 'inconclusive': None,
           'counters': collections.Counter(), 'features': []}
    try:
        tree, tkind, holder = make_tree(rng, ctx, feats)
    except Exception as e:  # pylint: disable=broad-except
        res['inconclusive'] = f'tree construction failed: {type(e).__name__}: {e}'
        return res
    feats.add('tree:' + tkind)
    try:
        tree_sig = sighash(repr(irlab.enc(tree)))
    except irlab.UnknownExpr as e:
        res['inconclusive'] = f'unknown expression class {e}'
        return res
    descs = []
    nontriv = 0
    seen_keys = set()
    for p in range(PAIRS_PER_CASE):
        kind = rng.choice(['T', 'T', 'T', 'T', 'T', 'NT', 'NT', 'MT', 'MT', 'NMT'])
        nv = len(res['violations'])
        try:
            if kind in ('T', 'NT'):
                r = run_transformer_pair(rng, ctx, tree, kind, res, feats, descs)
            else:
                r = run_masked_pair(rng, ctx, tree, kind, res, feats, descs)
        except RecursionError:
            import traceback
            fr = [f'{f.name}:{f.lineno}' for f in traceback.extract_tb(__import__('sys').exc_info()[2])[-12:]]
            res['inconclusive'] = f'harness recursion idx={idx} pair {p} ({kind}) frames={fr}'
            break
        if r:
            nontriv += 1
        # one witness per key and case
        new = res['violations'][nv:]
        del res['violations'][nv:]
        for v in new:
            if v['key'] not in seen_keys:
                seen_keys.add(v['key'])
                res['violations'].append(v)
        if any(not v['key'].startswith(('transformer:unchanged-node-source-invalidated',
                                         'transformer:rebuild-rewraps-literal')) for v in new):
            # the tree may have been damaged by the defect just seen: do not continue on it
            break
    res['nontrivial'] = nontriv > 0
    res['sig'] = sighash([tree_sig, descs])
    res['counters'] = dict(res['counters'])
    res['counters']['nontrivial_pairs'] = nontriv
    res['counters']['tree_nodes'] = len(irlab.preorder(tree, enter_typedef=True))
    res['features'] = sorted(feats)
    res['sample'] = {'tree_kind': tkind, 'nodes': res['counters']['tree_nodes'], 'pairs': descs[:3]}
    return res
