module Kmod
  implicit none
  type :: TTYPE
    real(kind=8) :: p
    REAL(KIND=8) :: q(5)
    integer :: KK
  end type ttype
CONTAINS
  SUBROUTINE kern(n, m, A1, A2, a3, c1, c2, K1, s1, s2, S3, I1, i2, Lg1, t1)
    integer, intent(in) :: n
    integer, INTENT(in) :: M
    REAL(kind=8), intent(in) :: A1(N)
    real(kind=8), intent(inout) :: A2(N)
    real(kind=8), intent(inout) :: a3(N)
    real(KIND=8), intent(Out) :: C1(n, m)
    REAL(kind=8), intent(In) :: c2(N, M)
    integer, intent(inout) :: K1(N)
    REAL(kind=8), intent(In) :: S1
    REAL(KIND=8), intent(inout) :: S2
    real(KIND=8), intent(Out) :: s3
    integer, INTENT(IN) :: i1
    integer, intent(INOUT) :: I2
    logical, intent(in) :: Lg1
    type(TTYPE), intent(inout) :: T1
    Real(KIND=8) :: X1
    real(KIND=8) :: x2
    Integer :: j1
    logical :: Lg2
    INTEGER :: i, J, k
    real(kind=8) :: zw(n), zs, zv(n, m)
    REAL(kind=8) :: ZF(4)
    integer :: JZ, kz
    real(kind=8) :: ZP, ZU1, Zu2
    REAL(kind=8) :: zq(1:n, 3, 1:2)
    real(Kind=8) :: SFN, SFX
    sfn(Sfx) = SFX*2.0_8 + 1.0_8
    !$loki region-hoist target
    Zq = 0.75_8
    zw = 0.5_8
    zv = 0.25_8
    zf = 1.0_8
    zs = 0.0_8
    ZS = sfn(s1) + sfn(zs + 0.5_8)
    c1 = 1.0_8
    s3 = 1.5_8
    X1 = 2.0_8
    x2 = 3.0_8
    j1 = 11
    Lg2 = .false.
    LP1: DO i = 1, m
      call isub(N, a3, sout=s3, Xio=s2)
    end do LP1
    X1 = 2.0_8*cos(IFUN(sin(T1%q(5)), T1%KK + j1) + x1)
    CALL isub(n, A3, S2, X2)
    if (N == i1) a2(1) = 2.0_8*Cos(t1%p / (1.0_8 + abs(x2)))
    s3 = (REAL(4, 8) + X2 + s2 - ((s2) + s1 + c1(1, 1))) / (1.0_8 + ABS(real(4, 8) + x2 + s2 - ((S2) + S1 + c1(1, 1))))
    CALL hsub(n, a3, x1, x2)
    !$loki inline
    call Hsub(n, a1, ZS, s2)
    call hlow(n, zq(:, 1, :), Zs)
    do jz = 1, N
      zw(Jz) = a1(Jz)*S1
      !$loki loop-fission
      A2(jz) = ZW(jz) + 0.25_8
    end do
    !$loki outline name(kern_o1) in(n,a1,s1) inout(a2)
    do JZ = 1, N
      A2(jz) = a2(Jz) + a1(Jz)*s1
    END DO
    !$loki end outline
    zw(1:n) = A1(1:n) + 0.5_8
    ZV(:, :) = ZV(:, :)*s1
    zw(:) = zw + a1
    !$loki loop-fusion group(g1)
    do jz = 1, n
      ZW(jz) = A1(jz) + s1
    end do
    !$loki loop-fusion group(g1)
    DO JZ = 1, n
      A2(jz) = zw(Jz)*0.5_8
    end do
    !$loki region-hoist
    zs = 2.0_8*s1
    !$loki end region-hoist
    do jz = 1, n
      zp = A1(JZ)*s1
      ZW(JZ) = zp + 0.5_8
    end DO
    !$loki remove
    ZS = zs + 1.0_8
    Do jz = 1, n
      zw(JZ) = ZS
    end do
    !$loki end remove
    IF (.false.) then
      zs = 3.0_8
    end if
    ZS = HFUN(s1, i1) + HFUN(zs, 2)
    call hdup(n, N, A1, zs)
    !$loki loop-unroll
    Do jz = 1, 3
      zf(jz) = A1(1)*REAL(jz, 8)
    END Do
    !$loki loop-interchange
    do Jz = 1, n
      DO kz = 1, m
        zv(jz, kz) = A1(jz) + real(kz, 8)
      END do
    end Do
  CONTAINS
  SUBROUTINE Isub(NN, XIN, Xio, SOUT)
    integer, INTENT(IN) :: NN
    real(kind=8), intent(IN) :: Xin(Nn)
    REAL(kind=8), Intent(inout) :: xio
    REAL(KIND=8), intent(out) :: SOUT
    Integer :: ii
    sout = s1
    DO ii = 1, Min(nn, N)
      sout = sout + xin(II)*10.0_8
    end do
    sout = COS(sout)
    xio = xio*0.5_8 + SOUT
  end SUBROUTINE isub
  function IFUN(X, k) result(r)
    real(kind=8), intent(in) :: X
    integer, intent(in) :: K
    real(KIND=8) :: r
    R = X + s1*real(K + i1, 8)*0.01_8
  End FUNCTION ifun
  end SUBROUTINE kern
  subroutine HSUB(nn, XIN, XIO, sout)
    INTEGER, intent(in) :: nn
    real(kind=8), Intent(in) :: xin(NN)
    real(kind=8), intent(inout) :: Xio
    real(kind=8), intent(OUT) :: sout
    integer :: II
    sout = 0.0_8
    Do ii = 1, nn
      SOUT = sout + XIN(ii)*2.0_8
    end do
    sout = sout / (1.0_8 + REAL(NN, 8))
    xio = sin(xio + SOUT)
  END SUBROUTINE hsub
  function HFUN(x, k) result(r)
    Real(kind=8), INTENT(IN) :: x
    INTEGER, intent(in) :: k
    REAL(kind=8) :: R
    r = X*7.5_8 + REAL(mod(k, 5), 8)
    if (k > 3) r = R - 10.0_8
  end FUNCTION Hfun
  subroutine hdup(n1, N2, xin, SOUT)
    INTEGER, INTENT(in) :: n1, N2
    REAL(KIND=8), intent(in) :: Xin(n1)
    Real(kind=8), INTENT(inout) :: SOUT
    sout = SOUT + xin(1)*real(n2, 8)
  end subroutine hdup
  subroutine HLOW(NN, x2, SOUT)
    integer, intent(in) :: nn
    real(Kind=8), intent(in) :: x2(NN, 2)
    real(kind=8), Intent(inout) :: SOUT
    sout = SOUT + x2(1, 1) + x2(NN, 2)
  end subroutine hlow
End module KMOD
