"""
sccfind -- mechanism keys for C37 / C38 violations.

``diagnose`` turns the raw observation (exception root cause, first compiler error, run-time report class) into a
mechanism key.  Known mechanisms are recognised from what was *observed* (compiler / run-time message, transformed
text) and get a family-independent key; everything else keeps ``<family>:<raw observation>`` so that a different
break shows up under a different key.
"""
import re


def _kwargs(spec):
    kw = {}
    for _, k in spec['steps']:
        kw.update(k)
    return kw


def _joined(text):
    """free-form source with continuation lines joined"""
    return re.sub(r'&\s*\n\s*&?', ' ', text)


def _detail(v):
    w = v.get('witness') or {}
    d = w.get('diff') or {}
    return ' '.join([v.get('msg') or '', d.get('detail') or '', d.get('new_err') or ''])


def _transformed(v, out):
    files = (v.get('witness') or {}).get('transformed') or out.get('files') or {}
    return {n: _joined(t) for n, t in files.items()}


def _call_mixes(texts, positional_pattern):
    """a CALL that carries keyword actuals and a positional actual matching ``positional_pattern``"""
    for t in texts.values():
        for m in re.finditer(r'^\s*CALL\s+\w+\s*\((.*)\)\s*$', t, re.M | re.I):
            args = m.group(1)
            first_kw = re.search(r'(?<![=<>/])\b\w+\s*=(?!=)', args)
            if first_kw and re.search(positional_pattern, args[:first_kw.start()], re.I):
                return True
    return False


def _missing_kind(texts):
    """(file, kind) where ``kind=<K>`` is used but parkind1's K is imported nowhere in the file"""
    for name, t in texts.items():
        for k in ('jprm', 'jprb', 'jpim'):
            if re.search(r'kind\s*=\s*%s\b' % k, t, re.I) and not re.search(r'use\s+parkind1[^\n]*\b%s\b' % k, t, re.I):
                return name, k
    return None


def diagnose(pid, spec, case, out, v):     # pylint: disable=unused-argument,too-many-return-statements,too-many-branches
    raw, fam = v['key'], spec['family']
    det = _detail(v)
    kw = _kwargs(spec)
    feats = case.features
    texts = _transformed(v, out)

    # -- documented value directive=None is rejected by PragmaModelTransformation (assert directive in [False, ...])
    if raw == 'exc:AssertionError@pragma_model.__init__' and 'directive' in kw and kw['directive'] is None:
        return 'scc:directive-None-rejected-by-pragma-model-assert'

    # -- CONTIGUOUS on explicit-shape stack dummies (FtrPtr / DirectIdx kernels)
    if raw.startswith('build:') and 'CONTIGUOUS attribute but is not' in det:
        return 'index-stack:contiguous-attribute-on-explicit-shape-stack-dummy'

    # -- positional actuals appended to calls that carry keyword arguments
    if raw.startswith('build:') and re.search(r'Type mismatch in argument|Rank mismatch in argument|already associated '
                                              r'with another actual|More actual than formal', det):
        if 'hoist' in fam and kw.get('as_kwarguments') is not True and \
                _call_mixes(texts, r'\bkern_l\d+_\d+_\w+'):
            return 'hoist:positional-hoisted-actuals-on-call-with-keyword-arguments'
        if 'rawstack' in fam and _call_mixes(texts, r'\w+_STACK\s*\('):
            return 'rawstack:positional-stack-actuals-on-call-with-keyword-arguments'

    # -- kind parameter of hoisted / stack-allocated temporaries used in a file that does not import it
    if raw.startswith('build:'):
        # (the first compiler message kept may be a follow-up error of the undeclared kind: decide on the text)
        miss = _missing_kind(texts)
        if miss:
            if 'imports:module-level' in feats and 'hoist' in fam:
                return 'hoist:kind-imported-at-module-level-not-imported-where-hoisted'
            if 'imports:module-level' in feats and 'pool' in fam:
                return 'pool:kind-imported-at-module-level-not-imported-in-driver'
            # files are compiled in dependency order and the build stops at the first file that fails: a kind missing
            # in a *later* file (the driver) was never seen by the compiler and is not what was observed
            failed = re.match(r'\s*fc: ([\w.]+):', det)
            seen = failed is None or failed.group(1) == miss[0]
            if 'rawstack' in fam and miss[0] == 'driver_mod.F90' and seen:
                return 'rawstack:kind-of-kernel-temporaries-not-imported-in-driver'
            if seen:
                return f'{fam}:build:kind-parameter-not-imported'

    # -- temporaries declared with a literal kind: analysis does ``k.name in import_map``
    if raw == 'exc:AttributeError@hoist_variables.transform_subroutine' and "'IntLiteral' object has no attribute" in det:
        return 'hoist:literal-kind-of-temporary-AttributeError'

    # -- raw stack: caller passes J_<type>_<kind>_STACK_USED of a stack only its callee needs, never declared
    m = re.search(r"Symbol ‘(j_\w+_stack_used)’ at \(1\) has no IMPLICIT type", det, re.I)
    if raw.startswith('build:') and 'rawstack' in fam and m:
        return 'rawstack:stack-used-counter-of-callee-only-kind-undeclared-in-caller'

    # -- driver vector section wraps the assignments of block index / upper bound of an IFS-style block loop
    if 'driver:ifs-block-loop' in feats and 'driver:horizontal-loop-in-block-loop' in feats:
        if raw == 'exc:AssertionError@pool_allocator.create_pool_allocator':
            return 'scc-driver:block-index-assignment-moved-into-vector-loop:pool-allocator-assert'
        drv = texts.get('driver_mod.F90', '')
        n = case.names
        pat = (r'DO\s+%s\s*=[^\n]*\n(?:(?!\s*END\s*DO)[^\n]*\n)*?\s*(%s|%s)\s*=' % (n['hidx'], n['hup'], n['bidx']))
        if raw.startswith('run:') and re.search(pat, drv, re.I):
            return 'scc-driver:vector-section-wraps-block-index-and-bound-assignments'

    # -- FtrPtr: pointer target section STACK(incr:incr+size) ends one element past the stack
    m = re.search(r"Index '(\d+)' of dimension 1 of array '(\w+_stack)' outside of expected range \((\d+):", det)
    if raw.startswith('run:rtcheck-Index') and 'ftrptr' in fam and m:
        over = int(m.group(1)) - int(m.group(3))
        return 'ftrptr:pointer-target-section-one-past-stack-end' if over == 1 else \
            'ftrptr:pointer-target-section-beyond-stack-end'

    # -- DirectIdx: offset variable JD_<name> dropped when the element index simplifies to a single term
    if 'directidx' in fam and raw.startswith('run:'):
        for t in texts.values():
            t = '\n'.join(ln for ln in t.splitlines() if '::' not in ln)
            if re.search(r'\b\w+_STACK\((?![^()]*JD_)[^():]*\)', t) and re.search(r'\bJD_\w+\s*=', t):
                return 'directidx:stack-offset-dropped-from-subscript'
        m = re.search(r"Index '(\d+)' of dimension 1 of array '(\w+_stack)' (?:outside of expected range|above upper "
                      r"bound of) \(?(\d+)", det)
        if m and int(m.group(1)) - int(m.group(3)) == 1:
            return 'directidx:last-element-one-past-stack-end'

    return f'{fam}:{raw}'
