"""C05 -- frontend input sanitisation leaves untargeted text untouched and restores its targets."""
import re
import shutil
from vlib import diffexec
from vlib.core import sighash

PID = 'C05'
LEVEL = 'exploration'
TECHNIQUE = 'ground-truth monitor on IR literals/comments/identifiers/OPEN arguments + differential execution (file bytes dumped)'
LEVEL_TEXT = ('Each case places one sanitiser trigger (__FILE__, __FILENAME__, __DATE__, __VERSION__, __LINE__, @PROCESS, CONVERT=, '
              'NEWUNIT=) in one syntactic position (string literal, comment, inline comment, identifier, literal inside OPEN, or as the '
              'targeted construct itself) next to real OPEN statements in varied layouts; the real frontend parses it and the monitor '
              'compares the IR string literals, comment texts, declared identifiers and regenerated OPEN arguments with the generator\'s '
              'ground truth, then compiles original and regenerated code and compares printed values and the bytes of the written file. '
              'Held on the enumerated trigger x position x layout combinations explored.')
LEVEL_NOTE = 'gfortran is the reference; cases with bare cpp macros or @PROCESS directives are checked on tokens only (not compilable without cpp)'
RULE = ('case = (trigger, position, OPEN layout variant, filler statements) enumerated round-robin over trigger x position with random '
        'layouts; non-trivial = the sanitiser rewrote at least one line of the source (sanitised text differs from input) or the case '
        'contains a real OPEN with CONVERT=/NEWUNIT=; distinct = hash of the source text')
CASES = {'quick': 320, 'thorough': 4000}
MIN_NONTRIVIAL = {'quick': 100, 'thorough': 1200}
ANCHORS = ['loki/frontend/preprocessing.py']
REQUIRED_REACH = ['sanitize_input', 'filter']
ASSUMPTIONS = ['string literal values are compared after undoubling quotes',
               'comment text is compared after stripping surrounding blanks']
BUDGET_S = {'quick': 400, 'thorough': 3000}

STRING_MACROS = ['__FILE__', '__FILENAME__', '__DATE__', '__VERSION__']
TRIGGERS = STRING_MACROS + ['__LINE__', '@PROCESS', 'CONVERT=', 'NEWUNIT=']
POSITIONS = ['string', 'dstring', 'comment', 'inline_comment', 'identifier', 'open_string', 'target', 'none']


def trigger_text(trig, rng):
    if trig == 'CONVERT=':
        return rng.choice(["CONVERT='BIG_ENDIAN'", "CONVERT='LITTLE_ENDIAN'", "convert='big_endian'", 'CONVERT=x'])
    if trig == 'NEWUNIT=':
        return rng.choice(['NEWUNIT=5', 'newunit=iu', 'NEWUNIT=u,'])
    if trig == '@PROCESS':
        return rng.choice(['@PROCESS NOCHECK', '@PROCESS'])
    return trig


def open_stmt(rng, unitvar, fname, convert, layout):
    """a real OPEN statement with NEWUNIT= and optionally CONVERT= in a random argument order/layout"""
    args = [f"{_kw('newunit', rng)}={unitvar}", f"{_kw('file', rng)}='{fname}'", f"{_kw('status', rng)}='replace'",
            f"{_kw('form', rng)}='unformatted'", f"{_kw('access', rng)}='sequential'"]
    if convert:
        q = rng.choice(["'", '"'])
        args.append(f"{_kw('convert', rng)}={q}{convert}{q}")
    rng.shuffle(args)
    if layout.get('space_eq'):
        args = [a.replace('=', ' = ', 1) if rng.random() < 0.5 else a for a in args]
    opn = rng.choice(['open', 'OPEN', 'Open']) + rng.choice(['(', ' ('])
    if layout.get('continuation') and len(args) > 2:
        k = rng.randint(1, len(args) - 1)
        amp = rng.choice(['&', ' &'])
        lead = rng.choice(['     & ', '       '])
        return f"    {opn}{', '.join(args[:k])}, {amp}\n{lead}{', '.join(args[k:])})"
    return f"    {opn}{', '.join(args)})"


def _kw(w, rng):
    return rng.choice([w, w.upper()])


def gen_case(rng, idx):
    trig = TRIGGERS[idx % len(TRIGGERS)]
    pos = POSITIONS[(idx // len(TRIGGERS)) % len(POSITIONS)]
    t = trigger_text(trig, rng)
    ident_ok = trig in STRING_MACROS + ['__LINE__']
    if pos == 'identifier' and not ident_ok:
        pos = 'string'
    if pos == 'target' and trig in ('CONVERT=', 'NEWUNIT='):
        pos = 'none'          # the real OPEN statements below are the targeted constructs
    lits, comments, idents = [], [], ['iu', 'iv', 'ival']
    body = []
    compilable = True
    bare_tokens = []
    nout = 0

    def add_lit(text, q="'"):
        nonlocal nout
        nout += 1
        lits.append(text)
        shown = text.replace(q, q + q)
        body.append(f'    out({nout}) = {q}{shown}{q}')

    add_lit(rng.choice(['plain text', 'a = b + c', 'end do', "it's"]))
    # prefixes include the *other* quote character (odd count) and the same one (doubled by add_lit)
    pre = rng.choice(['', 'see ', 'x=', '(', "'", 'a 5" pipe at ', 'say "', "it's "]) if pos != 'dstring' \
        else rng.choice(['', 'see ', '(', "it's ", "o'clock' "])
    post = rng.choice(['', ' here', ')', ',1', ' ! no comment'])
    if pos == 'string':
        add_lit(f'{pre}{t}{post}', "'")
    elif pos == 'dstring':
        add_lit(f'{pre}{t}{post}', '"')
    elif pos == 'comment':
        c = f'{rng.choice(["note ", "", "TODO: "])}{t}{post}'
        comments.append(c)
        body.append(f'    ! {c}')
    elif pos == 'inline_comment':
        c = f'{t}{post}'
        comments.append(c)
        nout += 1
        lits.append('inl')
        body.append(f"    out({nout}) = 'inl'  ! {c}")
    elif pos == 'identifier':
        name = rng.choice([f'x{t}y', f'v{t}', f'my{t}var', f'v2{t}', f'w3{t}x', f'a_{t}9', f'k{t}_2'])
        idents.append(name)
        body.append(f'    {name} = {rng.randint(2, 9)}')
        body.append(f'    ival = ival + {name}')
    elif pos == 'target':
        if trig == '@PROCESS':
            body.append(f'{t}')
            compilable = False
            bare_tokens.append('@PROCESS')
        else:
            compilable = False
            bare_tokens.append(trig)
            if trig == '__LINE__':
                body.append(f'    ival = ival + {t}')
            else:
                nout += 1
                body.append(f'    out({nout}) = {t}')
    # real OPEN statements (targeted constructs): endianness is observed through the file bytes
    layout = {'continuation': rng.random() < 0.4, 'space_eq': rng.random() < 0.4}
    conv1 = rng.choice(['BIG_ENDIAN', 'LITTLE_ENDIAN', 'big_endian', None])
    opens = []
    o1 = open_stmt(rng, 'iu', 'verif_c05_a.dat', conv1, layout)
    opens.append(o1)
    body.append(o1)
    body.append('    write(iu) 258 + ival')
    body.append('    close(iu)')
    if pos == 'open_string':
        # an OPEN whose file name literal merely contains the trigger text
        fname = re.sub(r"[^A-Za-z0-9_=@.]", '_', f'f_{t}.dat')
        o2 = f"    open(unit=17, file='{fname}', status='replace', form='unformatted')"
        lits_open = fname
        opens.append(o2)
        body.append(o2)
        body.append('    write(17) 77')
        body.append("    close(17, status='delete')")
    if rng.random() < 0.5:
        o3 = open_stmt(rng, 'iv', 'verif_c05_b.dat', rng.choice(['BIG_ENDIAN', 'LITTLE_ENDIAN', None]),
                       {'continuation': rng.random() < 0.5, 'space_eq': rng.random() < 0.3})
        opens.append(o3)
        body.append(o3)
        body.append('    write(iv) 513')
        body.append('    close(iv)')
    add_lit(rng.choice(['tail', 'open(1)', 'convert']))
    decl = ['    character(len=48), intent(out) :: out(8)', '    integer, intent(out) :: ival',
            '    integer :: iu, iv'] + [f'    integer :: {n}' for n in idents[3:]]
    src = ('module c05mod\n  implicit none\ncontains\n  subroutine kern(out, ival)\n' + '\n'.join(decl) +
           "\n    out = ' '\n    ival = 0\n" + '\n'.join(body) + '\n  end subroutine kern\nend module c05mod\n')
    driver = """program main
  use c05mod
  implicit none
  character(len=48) :: out(8)
  integer :: ival, i, ios, u
  integer(kind=1) :: b
  character(len=16) :: fn(2)
  call kern(out, ival)
  do i = 1, 8
    print '(A,I0,A,A,A)', 'out', i, ' [', trim(out(i)), ']'
  end do
  print '(A,I0)', 'ival ', ival
  fn(1) = 'verif_c05_a.dat'
  fn(2) = 'verif_c05_b.dat'
  do i = 1, 2
    open(newunit=u, file=trim(fn(i)), access='stream', form='unformatted', status='old', iostat=ios)
    if (ios /= 0) then
      print '(A,I0)', 'nofile ', i
      cycle
    end if
    do
      read(u, iostat=ios) b
      if (ios /= 0) exit
      print '(A,I0,1X,I0)', 'byte ', i, b
    end do
    close(u, status='delete')
  end do
end program main
"""
    return dict(trigger=trig, position=pos, text=t, src=src, driver=driver, lits=lits, comments=comments,
                idents=idents, opens=opens, compilable=compilable, bare=bare_tokens)


# ---------------------------------------------------------------- observation helpers

def string_literals(ir):
    """all StringLiteral values in assignment right-hand sides, in order (independent walk)"""
    from loki import FindNodes, Assignment
    from loki.expression import symbols as sym
    out = []
    for a in FindNodes(Assignment).visit(ir):
        if isinstance(a.rhs, sym.StringLiteral) and str(a.lhs).lower() != 'out':
            out.append(a.rhs.value.replace("''", "'").replace('""', '"'))
    return out


def comment_texts(ir):
    from loki import FindNodes, Comment, CommentBlock, Assignment
    out = []
    for c in FindNodes((Comment, CommentBlock)).visit(ir):
        for cc in (c.comments if isinstance(c, CommentBlock) else [c]):
            if cc.text and cc.text.strip().startswith('!'):
                out.append(cc.text.strip()[1:].strip())
    for a in FindNodes(Assignment).visit(ir):
        if a.comment is not None and a.comment.text:
            out.append(a.comment.text.strip()[1:].strip())
    return out


def _join_continuation(stmt):
    """join free-form continuation lines (outside of character context)"""
    out = ''
    for ln in stmt.split('\n'):
        t = ln.strip()
        if t.startswith('&'):
            t = t[1:].lstrip()
        if t.endswith('&'):
            t = t[:-1].rstrip() + ' '
        out += t
    return out.strip()


def split_args(stmt):
    """arguments of an OPEN statement text (continuations joined), normalised"""
    s = _join_continuation(stmt)
    m = re.match(r'open\s*\((.*)\)\s*$', s, re.I | re.S)
    if not m:
        return None
    args, depth, cur, q = [], 0, '', None
    for ch in m.group(1):
        if q:
            cur += ch
            if ch == q:
                q = None
            continue
        if ch in '\'"':
            q = ch
            cur += ch
        elif ch == '(':
            depth += 1
            cur += ch
        elif ch == ')':
            depth -= 1
            cur += ch
        elif ch == ',' and depth == 0:
            args.append(cur)
            cur = ''
        else:
            cur += ch
    args.append(cur)
    norm = []
    for a in args:
        k, _, v = a.partition('=')
        v = v.strip()
        if v[:1] in '\'"':
            v = "'" + v[1:-1] + "'"
        else:
            v = v.lower()
        norm.append(f'{k.strip().lower()}={v}')
    return sorted(norm)


def open_layout(stmt):
    """layout class of an OPEN statement: position of CONVERT=, NEWUNIT=, continuation"""
    joined = _join_continuation(stmt)
    m = re.match(r'\s*open\s*\((.*)\)\s*$', joined, re.I | re.S)
    keys = [a.split('=')[0].strip().lower() for a in re.split(r",(?=(?:[^'\"]|'[^']*'|\"[^\"]*\")*$)", m.group(1))] if m else []

    def pos(k):
        if k not in keys:
            return 'none'
        i = keys.index(k)
        return 'first' if i == 0 else ('last' if i == len(keys) - 1 else 'middle')
    if pos('convert') == 'first':
        return 'convert-first-argument' + (':statement-continued' if '&' in stmt else '')
    if 'convert' in keys and 'newunit' in keys:
        lines = stmt.split('\n')
        cont = ':statement-continued' if '&' in stmt else ''
        if any('convert' in ln.lower() and 'newunit' in ln.lower() for ln in lines):
            return 'convert-and-newunit-on-one-line' + cont
        return 'convert-and-newunit-on-different-lines'
    cont = 'continued' if '&' in stmt else 'single-line'
    return f"newunit-{pos('newunit')}:convert-{pos('convert')}:{cont}"


def open_stmts(text):
    """OPEN statement texts in a source text (with continuation lines)"""
    out, lines, i = [], text.split('\n'), 0
    while i < len(lines):
        ln = lines[i]
        if re.match(r'\s*open\s*\(', ln, re.I):
            st = ln
            while st.rstrip().endswith('&') and i + 1 < len(lines):
                i += 1
                st += '\n' + lines[i]
            out.append(st)
        i += 1
    return out


def unquoted_count(text, tok):
    n = 0
    for ln in text.split('\n'):
        q = None
        i = 0
        while i < len(ln):
            ch = ln[i]
            if q:
                if ch == q:
                    q = None
            elif ch in '\'"':
                q = ch
            elif ch == '!':
                break
            elif ln.startswith(tok, i):
                n += 1
                i += len(tok) - 1
            i += 1
    return n


def run_case(idx, rng, tier, ctx):
    from loki import Sourcefile
    from loki.frontend import sanitize_input, FP
    c = gen_case(rng, idx)
    tclass = 'string-macro' if c['trigger'] in STRING_MACROS else c['trigger']
    tag = f"{tclass}-in-{c['position']}"
    res = {'sig': sighash(c['src']), 'nontrivial': False, 'violations': [], 'inconclusive': None,
           'features': [tag], 'counters': {'oracle_checks': 0}}
    viol = res['violations']

    def v(symptom, msg, **extra):
        w = {'source': c['src'], 'trigger': c['trigger'], 'position': c['position']}
        w.update(extra)
        viol.append({'key': f'sanitize:{tag}:{symptom}', 'msg': msg, 'witness': w})

    # (c) every real OPEN statement is first checked in isolation, keyed by its layout
    bad_open = False
    for o in [x for x in c['opens'] if 'unit=17' not in x]:
        res['counters']['open_statements_checked'] = res['counters'].get('open_statements_checked', 0) + 1
        osrc = ("module omod\n  implicit none\ncontains\n  subroutine s(iu, iv)\n    integer :: iu, iv\n"
                f"{o}\n  end subroutine s\nend module omod\n")
        lay = open_layout(o)
        try:
            onew = Sourcefile.from_source(osrc).to_fortran()
        except Exception as e:  # pylint: disable=broad-except
            bad_open = True
            viol.append({'key': f'sanitize:open:parse-fails:{lay}', 'msg': f'{type(e).__name__}: {str(e)[:200]}',
                         'witness': {'source': osrc}})
            continue
        ok, why = diffexec.syntax_check(ctx['scratch'] / f'o{idx}', [('o.F90', onew)])
        shutil.rmtree(ctx['scratch'] / f'o{idx}', ignore_errors=True)
        if not ok and 'TIMEOUT' in why:
            res['inconclusive'] = 'compiler timeout'
            return res
        if not ok:
            bad_open = True
            viol.append({'key': f'sanitize:open:regenerated-rejected-by-compiler:{lay}', 'msg': why[-300:],
                         'witness': {'source': osrc, 'regenerated': onew}})
            continue
        if [split_args(o)] != [split_args(x) for x in open_stmts(onew)]:
            bad_open = True
            viol.append({'key': f'sanitize:open:args-changed:{lay}',
                         'msg': f'OPEN arguments {split_args(o)} became {[split_args(x) for x in open_stmts(onew)]}',
                         'witness': {'source': osrc, 'regenerated': onew}})
    if bad_open:
        # keep the trigger part decidable: replace the OPEN statements by a plain layout in the full case
        src = c['src']
        for k, o in enumerate(c['opens']):
            unit = 'iv' if 'verif_c05_b' in o else 'iu'
            fn = 'verif_c05_b.dat' if unit == 'iv' else 'verif_c05_a.dat'
            if 'unit=17' in o:
                continue
            src = src.replace(o, f"    open(newunit={unit}, file='{fn}', status='replace', form='unformatted')")
        c['src'] = src
        c['opens'] = open_stmts(src)
    try:
        san, _ = sanitize_input(c['src'], FP)
        rewritten = san != c['src']
    except Exception:  # pylint: disable=broad-except
        rewritten = True
    res['nontrivial'] = rewritten or any('convert' in o.lower() or 'newunit' in o.lower() for o in c['opens'])
    try:
        sf = Sourcefile.from_source(c['src'])
        new = sf.to_fortran()
    except Exception as e:  # pylint: disable=broad-except
        v('parse-fails', f'{type(e).__name__}: {str(e)[:200]}')
        return res
    routine = sf['kern']
    # (b) literals, comments, identifiers
    got = string_literals(routine.body)
    res['counters']['oracle_checks'] += 1
    if c['position'] == 'target' and c['trigger'] in STRING_MACROS:
        got = [g for g in got if g != c['trigger']]
    if got != c['lits']:
        v('literal-changed', f"string literals {c['lits']} became {got}")
    gotc = comment_texts(routine.ir)
    res['counters']['oracle_checks'] += 1
    for exp in c['comments']:
        if exp.strip() not in gotc:
            v('comment-changed', f'comment {exp!r} not found among {gotc}')
    declared = {str(x.name).lower() for x in routine.variables}
    res['counters']['oracle_checks'] += 1
    for n in c['idents']:
        if n.lower() not in declared:
            v('identifier-changed', f'identifier {n!r} missing from declared variables {sorted(declared)}')
    # (c) targeted OPEN statements reappear with the same arguments
    exp_opens = [split_args(o) for o in c['opens']]
    got_opens = [split_args(o) for o in open_stmts(new)]
    res['counters']['oracle_checks'] += 1
    if sorted(map(str, exp_opens)) != sorted(map(str, got_opens)):
        v('open-args-changed', f'OPEN arguments {exp_opens} became {got_opens}', regenerated=new)
    # bare macro tokens must be restored
    for tok in c['bare']:
        res['counters']['oracle_checks'] += 1
        if unquoted_count(new, tok) != unquoted_count(c['src'], tok):
            v('target-not-restored', f'{tok} occurs {unquoted_count(c["src"], tok)}x unquoted in the source but '
              f'{unquoted_count(new, tok)}x in the regenerated code', regenerated=new)
    # (d) behaviour
    if c['compilable'] and not viol:
        wd = ctx['scratch'] / f'c{idx}'
        d = diffexec.differential(wd, [('k.F90', c['src'])], [('k.F90', new)], ('drv.F90', c['driver']))
        shutil.rmtree(wd, ignore_errors=True)
        res['counters']['program_runs'] = d['runs'] * 2
        if d['status'] == 'orig_bad':
            res['inconclusive'] = 'generator defect: ' + d['detail'][:300]
        elif d['status'] != 'equal':
            v('behaviour-differs', d['detail'][:400], regenerated=new)
    res['sample'] = {'trigger': c['trigger'], 'position': c['position'], 'text': c['text'], 'opens': c['opens'][:1]}
    return res
