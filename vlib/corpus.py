"""Fortran sources shipped in the repository under test (used as an additional input corpus)."""
import os
from pathlib import Path

_CACHE = {}


def repo_root():
    return Path(os.environ.get('VERIF_REPO', '/repo'))


def list_files(max_bytes=60000):
    """Sorted list of Fortran files under <repo>/loki/**/tests/sources, <repo>/example, <repo>/lint_rules/tests."""
    root = repo_root()
    key = (str(root), max_bytes)
    if key in _CACHE:
        return _CACHE[key]
    out = []
    for base in ('loki', 'example', 'lint_rules'):
        for dirpath, dirnames, filenames in os.walk(root / base):
            dirnames[:] = [d for d in dirnames if d not in ('build', '__pycache__', '.git')]
            rel = os.path.relpath(dirpath, root)
            if base == 'loki' and 'sources' not in rel.split(os.sep):
                continue
            if base == 'lint_rules' and 'tests' not in rel.split(os.sep):
                continue
            for fn in filenames:
                if fn.lower().endswith(('.f90', '.f')) and not fn.startswith('.'):
                    p = Path(dirpath) / fn
                    try:
                        if p.stat().st_size <= max_bytes:
                            out.append(str(p))
                    except OSError:
                        pass
    out.sort()
    _CACHE[key] = out
    return out


def read(path):
    return Path(path).read_text(errors='replace')
