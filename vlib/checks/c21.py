"""C21 -- the scheduler graph is exactly the pruned dependency closure of the seeds.

Reference-model monitor: schedlab generates a multi-file project with a ground-truth
dependency model and a configuration; the real ``Scheduler`` is built with
``full_parse=False`` and ``True`` and its node set, node kinds, edge set, ignored flags and
defining files are compared with the independent reference closure.
"""
import shutil
from vlib import schedlab as L
from vlib.core import sighash

PID = 'C21'
LEVEL = 'exploration'
TECHNIQUE = 'reference-model monitor (independent closure model vs. real Scheduler graph, REGEX and full parse)'
LEVEL_TEXT = ('Random multi-file projects (call DAGs with modules, type-bound procedures, interfaces, renamed / '
              'unqualified / module-level imports, recursion, mixed letter case) x random configurations; every '
              'graph the real Scheduler builds is compared node-by-node and edge-by-edge with a reference closure '
              'computed from the generator\'s ground truth.')
LEVEL_NOTE = ('The reference implements only the documented pruning/matching rules; constructs whose treatment the '
              'docs leave open (seeds in exclusion lists, items matched by two config keys, order-dependent ignore '
              'flags, which edge of a recursion cycle is cut) are not generated or not compared.')
RULE = ('schedlab.gen_project (5-40 routines over modules/files; features by flags) + schedlab.gen_config (seeds, '
        'expand, disable/block/ignore lists plain/scoped/pattern, per-item overrides); sources, config keys and seeds '
        'spelled in random letter case. Non-trivial = expected graph has >= 4 nodes and >= 3 edges and both parse '
        'modes were compared; distinct = hash of (sources, config, seeds).')
CASES = {'quick': 320, 'thorough': 5000}
THOROUGH_VALIDATED = True   # full thorough tier ran to completion with exit 0 on the unchanged tree
MIN_NONTRIVIAL = {'quick': 150, 'thorough': 2500}
ANCHORS = ['loki/batch/scheduler.py', 'loki/batch/sgraph.py', 'loki/batch/item.py', 'loki/batch/item_factory.py',
           'loki/batch/configure.py']
REQUIRED_REACH = ['_populate', '_add_children', 'create_dependency_items', 'match_item_keys', '_break_cycles']
REQUIRED_COUNTERS = {'graphs_compared': 100, 'nodes_compared': 1000, 'edges_compared': 1000}
ASSUMPTIONS = ['the generator ground truth (who calls/imports/uses what) is correct by construction; the generated '
               'sources are valid Fortran (checked with gfortran during development)',
               'documented rules: SchedulerConfig/ItemConfig/Item docstrings and docs/source/transform.rst']
BUDGET_S = {'quick': 400, 'thorough': 3000}
CASE_TIMEOUT_S = 180

GATES = {  # project feature gates (known findings / open behaviour): probability that the construct may be generated;
    # the construct itself then occurs in only a few percent of those cases
    'externals': 0.10, 'file_case_twins': 0.04, 'same_module_intf_call': 0.15, 'unq_intf_member': 0.15,
    'inline_only_functions': 0.10, 'multi_unit_file_internal_proc': 0.10, 'modlevel_intf_import': 0.2,
    'dup_names_same_file': 0.15, 'renamed_type_imports': 0.10,
}


def case_setup(rng, tier):
    big = tier == 'thorough'
    n = rng.choice([5, 8, 10, 12, 14, 16, 20] + ([24, 30, 40] if big else [24]))
    pf = {'n_routines': n, 'contiguous_modules': rng.random() < 0.93, 'p_free': rng.choice([0.1, 0.3, 0.5])}
    for g, pr in GATES.items():
        pf[g] = rng.random() < pr
    for opt in ('types', 'interfaces', 'functions', 'internal_procs', 'recursion', 'globals',
                'unqualified_imports', 'module_level_imports', 'renamed_imports'):
        pf[opt] = rng.random() < 0.85
    cf = {'ignore_patterns': rng.random() < 0.05, 'lists_vs_unqualified': rng.random() < 0.05}
    return pf, cf


GATED_FEATURES = [   # project features that are instances of a gated construct, in priority order
    ('file_twin_stem_case', 'file-case-twins'), ('file_twin_suffix_case', 'file-case-twins'),
    ('dup_names_same_file', 'same-name-procedures-in-one-file'),
    ('multi_unit_file_internal', 'unit-after-internal-procedure-in-file'),
    ('same_module_intf_call', 'same-module-interface-call'), ('modlevel_intf_import', 'module-level-interface-import'),
    ('unq_intf_member', 'unqualified-import-of-interface-member'), 
    ('cfg_lists_vs_unqualified', 'exclusion-list-vs-unqualified-import'),
    ('renamed_type_import', 'renamed-type-import'), ('inline_only_function', 'inline-only-function-call'),
    ('cfg_ignore_patterns', 'pattern-in-ignore-list'),
]


def gate_of(ctxinfo, what=''):   # pylint: disable=unused-argument
    feats = ctxinfo['features']
    for f, label in GATED_FEATURES:
        if f in feats:
            return ':' + label
    return ''


def compare(summary, exp, truth, mode, res, ctxinfo):
    """Compare one real graph with the expectation; append violations (root causes only: deviations that
    are mere consequences of an extra / missing parent are counted as cascades)."""
    V = res['violations']
    nodes, edges = summary['nodes'], summary['edges']
    cnt = res['counters']

    def bump(name, k=1):
        cnt[name] = cnt.get(name, 0) + k
    bump('graphs_compared')
    bump('nodes_compared', len(exp.nodes))
    bump('edges_compared', len(exp.edges))

    def viol(what, detail, msg):
        V.append({'key': f'graph:{what}:{detail}{gate_of(ctxinfo, what)}', 'msg': f'[{mode}] {msg}', 'witness': ctxinfo})

    low = [n.lower() for n in summary['raw_names']]
    if len(set(low)) != len(low):
        dup = sorted({n for n in low if low.count(n) > 1})
        viol('duplicate-node', 'names-differ-in-case-only', f'items {dup} occur more than once in the graph')
    rpred, epred = {}, {}
    for a, b in edges:
        rpred.setdefault(b, set()).add(a)
    for a, b in exp.edges:
        epred.setdefault(b, set()).add(a)
    items = truth['items']

    def dep_of(parent, child):
        return next((d for d in items.get(parent, {}).get('deps', []) if d['target'] == child), {})
    both = set(exp.nodes) & set(nodes)
    for n, kind in sorted(exp.nodes.items()):
        if n not in nodes:
            parents = sorted(p for p in epred.get(n, ()) if p in both)
            if not parents and n not in exp.seeds:
                bump('cascade_missing_nodes')
                continue
            via = dep_of(parents[0], n).get('via', 'seed') if parents else 'seed'
            viol('missing-node', f'{kind}:via-{via}', f'expected item {n} ({kind}) is not in the graph '
                 f'(dependency of {parents[:2]})')
        elif nodes[n] != kind:
            viol('node-kind', f'{kind}-as-{nodes[n]}', f'item {n} is a {nodes[n]}, expected {kind}')
        elif kind == 'ExternalItem':
            o = items.get(n, {}).get('origin')
            if o and summary['origin'].get(n) != o:
                viol('external-origin', f'{o}-as-{summary["origin"].get(n)}', f'external item {n} has origin '
                     f'{summary["origin"].get(n)}, expected {o}')
    for n, kind in sorted(nodes.items()):
        if n not in exp.nodes:
            parents = sorted(p for p in rpred.get(n, ()) if p in both)
            if not parents:
                bump('cascade_extra_nodes')
                continue
            d = dep_of(parents[0], n)
            how = 'via-unqualified-import' if d.get('unqualified') else (f'via-{d["via"]}' if d else 'not-a-dependency')
            viol('extra-node', f'{kind}:{how}', f'item {n} ({kind}) is in the graph (child of {parents[:2]}) '
                 f'but not in the pruned closure')
    for e in sorted(exp.edges):
        if e[0] in both and e[1] in both and e not in edges and e not in exp.cycle_edges:
            viol('missing-edge', f'{exp.nodes[e[0]]}->{exp.nodes[e[1]]}:via-{dep_of(*e).get("via")}',
                 f'dependency {e[0]} -> {e[1]} is missing')
    for e in sorted(edges):
        if e[0] in both and e[1] in both and e not in exp.edges:
            d = dep_of(*e)
            how = 'via-unqualified-import' if d.get('unqualified') else (f'via-{d["via"]}' if d else 'not-a-dependency')
            viol('extra-edge', f'{nodes[e[0]]}->{nodes[e[1]]}:{how}', f'edge {e[0]} -> {e[1]} is not in the pruned closure')
    if summary['n_edges_raw'] != len(edges):
        viol('duplicate-edge', 'case', f'{summary["n_edges_raw"]} raw edges but {len(edges)} distinct')
    if L._cycle_edges(nodes, {e for e in edges if e[0] in nodes and e[1] in nodes}):   # pylint: disable=protected-access
        viol('cycle-not-broken', 'recursive', 'the graph contains a dependency cycle')
    for n in sorted(both):
        tf = items.get(n, {}).get('file')
        if tf is not None and nodes[n] != 'ExternalItem' and exp.nodes[n] != 'ExternalItem':
            bump('files_compared')
            rf = summary['files'].get(n) or ''
            if rf != tf:
                viol('wrong-file', nodes[n], f'item {n} was found in {rf}, defined in {tf}')
        want = exp.ignored.get(n)
        if want is None:
            bump('ignored_order_dependent')
            continue
        bump('ignored_compared')
        if summary['ignored'][n] != want:
            if any(p not in both for p in rpred.get(n, ())) and not want:
                bump('cascade_ignored')
                continue
            viol('ignored-flag', f'expected-{want}', f'item {n} is_ignored={summary["ignored"][n]}, expected {want}')


def expected_file_graph_cyclic(exp, truth, enable_imports):
    """Is the file-level dependency graph of the expected items cyclic?"""
    items = truth['items']
    fnodes, fedges = set(), set()
    ok = lambda n: enable_imports or exp.nodes[n] in ('ProcedureItem', 'InterfaceItem', 'ProcedureBindingItem')
    for a, b in exp.edges:
        fa, fb = items.get(a, {}).get('file'), items.get(b, {}).get('file')
        if fa and fb and ok(a) and ok(b):
            fnodes |= {fa, fb}
            if fa != fb:
                fedges.add((fa, fb))
    return bool(L._cycle_edges(fnodes, fedges))   # pylint: disable=protected-access


def run_case(idx, rng, tier, ctx):
    import loki  # pylint: disable=import-outside-toplevel,unused-import
    pf, cf = case_setup(rng, tier)
    project = L.gen_project(rng, pf)
    config, seeds = L.gen_config(rng, project, cf)
    truth = project.truth()
    root = ctx['scratch'] / f'c{idx}'
    shutil.rmtree(root, ignore_errors=True)
    spell_seed = rng.randrange(1 << 30)
    sources = project.write(root, L.Speller(spell_seed, rng.choice(['random', 'random', 'upper', 'lower'])))
    rconfig, rseeds = L.respell_config(config, seeds, L.Speller(spell_seed + 1, 'random'))
    exp = L.reference_closure(truth, config, seeds)
    cfeats = {f'cfg_{k}' for k in ('disable', 'block', 'ignore') if config['default'].get(k)}
    if seeds is None:
        cfeats.add('cfg_implicit_seeds')
    if any(set(e) & {'disable', 'block', 'ignore'} for e in config['routines'].values()):
        cfeats.add('cfg_per_item_lists')
    if any(e.get('expand') is False for e in config['routines'].values()):
        cfeats.add('cfg_expand_false')
    feats = sorted(project.features | cfeats | project.config_features)
    res = {'sig': sighash([sources, rconfig, rseeds]), 'nontrivial': False, 'violations': [], 'inconclusive': None,
           'features': feats, 'counters': {}}
    info = {'flags': {k: v for k, v in pf.items() if v is True and k in GATES}, 'features': feats,
            'config': rconfig, 'seeds': rseeds, 'sources': sources, 'expected_nodes': exp.nodes,
            'expected_edges': sorted(exp.edges)}
    compared = 0
    summaries = {}
    for full_parse in (False, True):
        mode = 'full' if full_parse else 'regex'
        cinfo = dict(info, mode=mode)
        try:
            sched = L.build_scheduler(root, rconfig, rseeds, full_parse)
        except Exception as e:  # pylint: disable=broad-except
            if exp.error and isinstance(e, RuntimeError) and 'not found' in str(e):
                res['counters']['expected_errors'] = res['counters'].get('expected_errors', 0) + 1
                compared += 1
                continue
            import traceback  # pylint: disable=import-outside-toplevel
            tb = traceback.extract_tb(e.__traceback__)
            where = next((f'{fr.filename.split("/")[-1]}:{fr.name}' for fr in reversed(tb) if '/loki/' in fr.filename),
                         'unknown')
            gate = gate_of(cinfo)
            if type(e).__name__ == 'NetworkXUnfeasible' and not gate and \
                    expected_file_graph_cyclic(exp, truth, config['default'].get('enable_imports')):
                where = 'cyclic-file-graph'
            res['violations'].append({'key': f'graph:exception:{type(e).__name__}:{where}{gate}',
                                      'msg': f'[{mode}] Scheduler construction raised {type(e).__name__}: {e}'[:500],
                                      'witness': cinfo})
            continue
        if exp.error:
            res['violations'].append({'key': 'graph:strict-missing-routine-not-reported',
                                      'msg': f'[{mode}] strict=True and a called free routine is missing, no error',
                                      'witness': cinfo})
            continue
        summary = L.graph_summary(sched, root)
        summaries[mode] = summary
        compare(summary, exp, truth, mode, res, cinfo)
        compared += 1
    if len(summaries) == 2 and not res['violations']:
        a, b = summaries['regex'], summaries['full']
        if a['nodes'] != b['nodes'] or a['edges'] != b['edges']:
            res['violations'].append({'key': 'graph:full-parse-differs', 'msg': 'regex and full-parse graphs differ',
                                      'witness': info})
    gate = gate_of(info)
    if res['violations'] and gate:
        # cases of a gated construct (small slices): one root cause, many shapes -> one report per case
        first = res['violations'][0]
        res['violations'] = [{'key': f'graph:deviation{gate}', 'msg': f"{first['key']}: {first['msg']}",
                              'witness': info}]
    # one report per mechanism and case
    seen, uniq = {}, []
    for v in res['violations']:
        if v['key'] in seen:
            seen[v['key']]['n'] = seen[v['key']].get('n', 1) + 1
            continue
        seen[v['key']] = v
        uniq.append(v)
    for v in uniq:
        if v.get('n'):
            v['msg'] += f" (+{v.pop('n') - 1} more of this kind in the case)"
    res['violations'] = uniq
    res['nontrivial'] = compared == 2 and len(exp.nodes) >= 4 and len(exp.edges) >= 3
    res['sample'] = {'routines': pf['n_routines'], 'files': len(project.files), 'expected_nodes': len(exp.nodes),
                     'expected_edges': len(exp.edges), 'seeds': rseeds, 'features': feats[:12],
                     'config_default': {k: v for k, v in rconfig['default'].items() if k in
                                        ('expand', 'strict', 'disable', 'block', 'ignore')}}
    shutil.rmtree(root, ignore_errors=True)
    return res
