"""C35 -- Fortran-to-C transpilation (+ ISO-C wrapper) preserves behaviour (translation validation by execution)."""
import shutil

from vlib import diffexec, tplab
from vlib.core import sighash
from vlib.tpgen import TPGen

PID = 'C35'
LEVEL = 'translation_validation'
TECHNIQUE = 'per-program translation validation by differential execution (gfortran original vs gcc-compiled C kernel behind the generated ISO-C wrapper, sanitizers on)'
LEVEL_TEXT = ('every generated routine of the transpilable subset is translated by the real FortranCTransformation + '
              'FortranISOCWrapperTransformation (both use_c_ptr settings), the generated C is compiled with gcc '
              '(ASan+UBSan) and linked behind the generated wrapper module; an untouched driver runs original and '
              'translation on 4 input sets and all outputs are compared (integers/logicals exactly, reals to the '
              'precision of the declared kind)')
LEVEL_NOTE = ('validates the sampled programs and inputs only; gfortran -O0 with run-time checks is the reference '
              'semantics; real tolerance: real64 rtol 1e-11/atol 1e-10, real32 (or mixed-precision data flow) rtol 1e-4/atol 1e-3')
RULE = ('T1 generated kernels of the transpilable subset (integer/real32/real64/jprb/logical scalars and rank 1-3 arrays with '
        'non-unit lower bounds, integer division and mod of negative operands, **, min/max/abs/sign/sqrt/exp/mod, casts, nested '
        'loops with negative and non-unit steps, while loops, conditionals, vector notation, derived-type argument, module '
        'variables, named constants); features with a known open finding are confined to 1/16 slices each. Non-trivial = '
        'the original built and ran clean on all inputs and at least one translation was built and compared; distinct = '
        'hash of kernel text.')
CASES = {'quick': 48, 'thorough': 640}
MIN_NONTRIVIAL = {'quick': 24, 'thorough': 350}
ANCHORS = ['loki/transformations/transpile/fortran_c.py', 'loki/transformations/transpile/fortran_iso_c_wrapper.py',
           'loki/backend/cgen.py']
REQUIRED_REACH = ['generate_c_kernel', 'generate_iso_c_wrapper_routine', 'visit_Loop', 'map_array_subscript']
REQUIRED_COUNTERS = {'output_comparisons': 12, 'c_kernels_compiled': 12}
ASSUMPTIONS = ['gfortran 12 -O0 -fcheck=all with FPE traps is the reference semantics of the original routine',
               'generated kernels are well-defined by construction; a case whose original does not run clean is discarded as inconclusive',
               'reals compared to the precision of the declared kind (see LEVEL_NOTE); operands of discontinuous real '
               'operations are built so that last-bit differences cannot flip branches']
BUDGET_S = {'quick': 1800, 'thorough': 5400}
CASE_TIMEOUT_S = 900
WATCHDOG_S = {'quick': 3600, 'thorough': 14400}    # generous: a loaded machine must not turn into INCONCLUSIVE

# gated slices: idx % 16 -> (slice name, flag overrides)
SLICES = {
    3: ('int_dbl_ctx', dict(int_dbl_ctx=True)),
    5: ('default_real_lit', dict(default_real_lit=True)),
    7: ('int_cast', dict(int_cast=True)),
    9: ('kind_local_param', dict(kind_decl='jprb_local', kinds=('jprb',))),
    11: ('kind_other_name', dict(kind_decl='jprb_mod', kinds=('wp',))),
    13: ('sections', dict(sections=True)),
    15: ('select', dict(select=True)),
    1: ('mod_in_product', dict(mod_in_product=True)),
    2: ('d_exponent_lit', dict(d_exponent_lit=True, kinds=('real64',), kind_decl='env', mix_kinds=False)),
    6: ('member_in_mod', dict(member_in_mod=True, derived=True)),
    4: ('kind_single_by_name', dict(kind_decl='jprb_mod', kinds=('jprm',), mix_kinds=False)),
}


def case_flags(rng, idx):
    f = {'target': 'c'}
    kk = rng.choice(['r64', 'r64', 'r32', 'jprb', 'two', 'mix', 'srk'])
    if kk == 'r64':
        f['kinds'] = ('real64',)
    elif kk == 'r32':
        f['kinds'] = ('real32',)
    elif kk == 'jprb':
        f.update(kinds=('jprb',), kind_decl='jprb_mod')
    elif kk == 'srk':
        f.update(kinds=('jprb',), kind_decl='srk_inline')
    elif kk == 'two':
        f['kinds'] = ('real32', 'real64') if rng.random() < 0.5 else ('real64', 'real32')
    else:
        f.update(kinds=('real64', 'real32'), mix_kinds=True)
    f['derived'] = rng.random() < 0.6
    f['globals'] = rng.random() < 0.5
    f['associate'] = f['derived'] and rng.random() < 0.3
    f['params'] = rng.random() < 0.6
    f['lbounds'] = rng.random() < 0.75
    f['local_arrays'] = rng.random() < 0.7
    f['nstmts'] = rng.choice([4, 6, 8, 10])
    f['expr_depth'] = rng.choice([2, 3, 3, 4])
    name = 'core'
    if idx % 16 in SLICES:
        name, over = SLICES[idx % 16]
        f.update(over)
    return name, f


def classify_differ(detail):
    m = detail['mismatches'][0]
    tag = {'i': 'integer', 'l': 'logical', 'f': 'real32', 'd': 'real64'}.get(m['tag'], m['tag'])
    where = 'derived-member' if '.' in m['name'] else ('array' if m.get('pos', 0) > 0 or m['name'][:2] in ('ia', 'ra', 'la') else 'scalar')
    return f'{tag}-{where}'


def run_case(idx, rng, tier, ctx):
    slice_name, flags = case_flags(rng, idx)
    case = TPGen(rng, flags).generate()
    feats = sorted(case.features | {f'slice_{slice_name}'})
    res = {'sig': sighash(case.kernel), 'nontrivial': False, 'violations': [], 'inconclusive': None,
           'features': feats, 'counters': {}}
    cnt = res['counters']
    wd = ctx['scratch'] / f'c{idx}'
    shutil.rmtree(wd, ignore_errors=True)
    try:
        _run(case, slice_name, wd, res, cnt)
    finally:
        shutil.rmtree(wd, ignore_errors=True)
    return res


def _witness(case, files, extra=None):
    w = {'kernel': case.kernel, 'tmod': case.tmod, 'driver': case.driver}
    if files:
        w['generated'] = {k: v for k, v in files.items() if k in ('kern_c.c', 'kern_fc.F90', 'tmod_c.h')}
    if extra:
        w['detail'] = extra
    return w


def _run(case, slice_name, wd, res, cnt):
    cb = tplab.CaseBuild(wd / 'build')
    try:
        oexe = tplab.build_orig(case, cb)
    except diffexec.BuildError as e:
        res['inconclusive'] = 'generator defect (original does not build): ' + str(e)[-400:]
        return
    outcomes = {}
    cache = {}
    for ucp in (False, True):
        tagp = 'c_ptr' if ucp else 'plain'
        files = None
        try:
            files = tplab.transpile_c(case, wd / 'gen', ucp)
            cnt['translations'] = cnt.get('translations', 0) + 1
        except Exception as e:  # pylint: disable=broad-except
            outcomes[tagp] = (f'f2c:exception:{tplab.exc_key(e)}', f'{type(e).__name__}: {e}'[:500], _witness(case, None))
            continue
        try:
            nexe = tplab.build_c(case, files, cb, tagp)
            cnt['c_kernels_compiled'] = cnt.get('c_kernels_compiled', 0) + 1
        except diffexec.BuildError as e:
            if e.stage in ('orig', 'timeout'):
                res['inconclusive'] = f'build {e.stage}: ' + str(e)[-300:]
                return
            stage = {'cc': 'c-compile-error', 'fc': 'wrapper-compile-error', 'link': 'link-error'}[e.stage]
            outcomes[tagp] = (f'f2c:{stage}:{tplab.norm_msg(e.msg)}', e.msg[-600:], _witness(case, files))
            continue
        st, det = tplab.run_pair(oexe, nexe, case, cnt, cache)
        if st == 'orig_bad':
            res['inconclusive'] = 'generator defect (original does not run clean): ' + str(det)[:400]
            return
        if st == 'timeout':
            res['inconclusive'] = str(det)
            return
        if st == 'runtime':
            outcomes[tagp] = (f"f2c:runtime-error:{tplab.san_token(det['san'], det['err'])}", str(det)[:600],
                              _witness(case, files, det))
        elif st == 'differ':
            outcomes[tagp] = (f'f2c:output-differs:{classify_differ(det)}', str(det['mismatches'][:2])[:600],
                              _witness(case, files, det))
        else:
            outcomes[tagp] = None
    res['nontrivial'] = True
    bad = {k: v for k, v in outcomes.items() if v}
    seen = set()
    for tagp, (key, msg, wit) in bad.items():
        if slice_name != 'core':
            # one key per (stage, gated mechanism): the slice *is* the mechanism
            key = ':'.join(key.split(':')[:2]) + f':{slice_name}'
        else:
            only = '' if len(bad) == 2 and len({v[0] for v in bad.values()}) == 1 else f':only-{tagp}'
            key = f'{key}:core{only}'
        if key in seen:
            continue
        seen.add(key)
        wit['use_c_ptr'] = tagp == 'c_ptr'
        res['violations'].append({'key': key, 'msg': f'[{tagp}] {msg}', 'witness': wit})
    res['sample'] = {'slice': slice_name, 'features': sorted(case.features)[:40],
                     'kernel_lines': len(case.kernel.splitlines()),
                     'kernel_head': case.kernel.splitlines()[:3]}


def finalize(agg, tier):
    c = agg['counters']
    agg['extra_coverage'] = {
        'programs': len(agg['sigs']),
        'translations_built_and_run': c.get('c_kernels_compiled', 0),
        'disagreements_checked': c.get('output_comparisons', 0),
        'values_compared': c.get('values_compared', 0),
    }
