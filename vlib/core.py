"""
Core of the runtime-monitoring harness: case sharding over worker
subprocesses, three-valued verdicts, known-finding matching, evidence and
replay files.

A check module (``vlib/checks/cNN.py``) defines

    PID = 'C06'
    LEVEL = 'exploration'               # evidence level
    RULE = '...'                        # how cases are generated / what non-trivial means
    CASES = {'quick': 400, 'thorough': 8000}
    MIN_NONTRIVIAL = {'quick': 20, 'thorough': 200}
    ANCHORS = ['loki/expression/symbolic.py']           # reach-counter files
    REQUIRED_REACH = ['simplify']        # function names that must be entered
    ASSUMPTIONS = [...]
    def run_case(idx, rng, tier, ctx) -> CaseResult     (see below)
    def setup_worker(tier, ctx): optional, once per worker process
    def finalize(agg, tier): optional, may add counters / verdict to the aggregate

``run_case`` returns a dict with keys
    sig          : hashable/str  -- canonical signature of the case (distinctness)
    nontrivial   : bool
    violations   : list of {'key': mechanism key, 'msg': str, 'witness': json}
    inconclusive : None or str reason (case could not be decided)
    sample       : json-able small description of the case (kept for evidence)
    counters     : dict name -> int (summed over cases)
    features     : list of str (feature names; distinct ones are counted)
"""
import hashlib
import importlib
import json
import os
import random
import shutil
import signal
import subprocess
import sys
import tempfile
import time
import traceback
from pathlib import Path

ROOT = Path(__file__).resolve().parent.parent
REPO = Path(os.environ.get('VERIF_REPO', '/repo'))
EVIDENCE_DIR = ROOT / 'evidence'
REPLAY_DIR = ROOT / 'replay'
FINDINGS_DIR = ROOT / 'known_findings'
PYTHON = '/venv/bin/python'
NWORKERS = int(os.environ.get('VERIF_WORKERS', '16'))


class CaseTimeout(Exception):
    pass


def _alarm(signum, frame):
    raise CaseTimeout()


def case_rng(pid, seed, idx):
    h = hashlib.sha256(f'{pid}:{seed}:{idx}'.encode()).digest()
    return random.Random(int.from_bytes(h[:8], 'big'))


def sighash(obj):
    if not isinstance(obj, str):
        obj = json.dumps(obj, sort_keys=True, default=str)
    return hashlib.sha1(obj.encode()).hexdigest()[:16]


def scratch_dir(prefix='verif_'):
    base = os.environ.get('VERIF_SCRATCH') or tempfile.gettempdir()
    return Path(tempfile.mkdtemp(prefix=prefix, dir=base))


def load_findings(pid):
    """Known findings of a property: {key: entry} for open ones, and fixed ones."""
    ff = FINDINGS_DIR / f'{pid}.json'
    if not ff.exists():
        return {}, {}
    data = json.loads(ff.read_text())
    open_, fixed = {}, {}
    for e in data.get('findings', []):
        if e.get('property') != pid:
            continue
        (open_ if e.get('status') == 'open' else fixed)[e['key']] = e
    return open_, fixed


def ncases_of(mod, tier):
    if os.environ.get('VERIF_CASES'):
        return int(os.environ['VERIF_CASES'])
    n = mod.CASES[tier]
    if tier == 'thorough' and not getattr(mod, 'THOROUGH_VALIDATED', False):
        # thorough tiers that were never run to completion on an idle machine are capped (DESIGN.md 8.6)
        n = min(n, 4 * mod.CASES['quick'])
    return n


def load_check(pid):
    return importlib.import_module(f'vlib.checks.{pid.lower()}')


# --------------------------------------------------------------------------
# worker side
# --------------------------------------------------------------------------

def worker_main(pid, tier, seed, shard, nshards, outfile, indices=None):
    from vlib import reach
    mod = load_check(pid)
    ctx = {'scratch': scratch_dir(f'verif_{pid}_w{shard}_'), 'shard': shard,
           'seed': seed, 'tier': tier}
    signal.signal(signal.SIGALRM, _alarm)
    anchors = getattr(mod, 'ANCHORS', [])
    if anchors:
        reach.start(anchors)
    ncases = ncases_of(mod, tier)
    budget = getattr(mod, 'BUDGET_S', {}).get(tier, 3600 if tier == 'thorough' else 600)
    case_timeout = getattr(mod, 'CASE_TIMEOUT_S', 300)
    t0 = time.time()
    try:
        with open(outfile, 'w') as out:
            try:
                if hasattr(mod, 'setup_worker'):
                    mod.setup_worker(tier, ctx)
            except Exception:  # pylint: disable=broad-except
                out.write(json.dumps({'worker_error': traceback.format_exc()}) + '\n')
                return
            todo = indices if indices is not None else range(shard, ncases, nshards)
            for idx in todo:
                if time.time() - t0 > budget:
                    out.write(json.dumps({'budget_exhausted_at': idx}) + '\n')
                    break
                rng = case_rng(pid, seed, idx)
                rec = {'idx': idx}
                signal.alarm(case_timeout)
                try:
                    res = mod.run_case(idx, rng, tier, ctx)
                    signal.alarm(0)
                    rec.update(res)
                    rec['sig'] = res.get('sig') if isinstance(res.get('sig'), str) else sighash(res.get('sig'))
                except CaseTimeout:
                    rec['inconclusive'] = 'case timeout'
                except Exception:  # pylint: disable=broad-except
                    signal.alarm(0)
                    rec['inconclusive'] = 'harness exception: ' + traceback.format_exc()[-1500:]
                finally:
                    signal.alarm(0)
                out.write(json.dumps(rec, default=str) + '\n')
                out.flush()
            out.write(json.dumps({'reach': reach.snapshot() if anchors else {}}) + '\n')
    finally:
        shutil.rmtree(ctx['scratch'], ignore_errors=True)


# --------------------------------------------------------------------------
# driver side
# --------------------------------------------------------------------------

def child_env():
    env = dict(os.environ)
    pp = [str(ROOT), str(ROOT / '.deps'), str(REPO), str(REPO / 'lint_rules')]
    if env.get('PYTHONPATH'):
        pp.append(env['PYTHONPATH'])
    env['PYTHONPATH'] = os.pathsep.join(pp)
    env['PYTHONHASHSEED'] = '0'
    env.setdefault('LOKI_VERIF', '1')
    env['PYTHONWARNINGS'] = 'ignore'
    env['LOKI_LOGGING'] = env.get('LOKI_LOGGING', 'ERROR')
    return env


def ensure_deps():
    deps = ROOT / '.deps'
    if (deps / 'icontract').exists():
        return
    subprocess.run([PYTHON, '-m', 'pip', 'install', '-q', '--no-index', '--find-links',
                    '/opt/veriftools/wheels', '--target', str(deps), 'icontract', 'deal'],
                   check=False, stdout=subprocess.DEVNULL, stderr=subprocess.DEVNULL)


def run_check(pid, tier, seed, replay=None):
    t0 = time.time()
    ensure_deps()
    mod = load_check(pid)
    EVIDENCE_DIR.mkdir(exist_ok=True)
    evfile = EVIDENCE_DIR / f'{pid}.json'
    if replay is None and evfile.exists():
        evfile.unlink()
    ncases = ncases_of(mod, tier)
    nshards = min(getattr(mod, 'WORKERS', NWORKERS), max(1, ncases))
    indices = None
    if replay:
        w = json.loads(Path(replay).read_text())
        indices = [w['idx']]
        seed = w.get('seed', seed)
        tier = w.get('tier', tier)
        nshards = 1
    tmp = scratch_dir(f'verif_{pid}_drv_')
    procs = []
    env = child_env()
    watchdog = getattr(mod, 'WATCHDOG_S', {}).get(tier, 7200 if tier == 'thorough' else 1500)
    try:
        for k in range(nshards):
            out = tmp / f'w{k}.jsonl'
            cmd = [PYTHON, '-m', 'vlib.worker', pid, tier, str(seed), str(k), str(nshards), str(out)]
            if indices is not None:
                cmd.append(','.join(map(str, indices)))
            errf = open(tmp / f'w{k}.err', 'w')
            procs.append((k, subprocess.Popen(cmd, env=env, cwd=str(ROOT), stdout=errf,
                                              stderr=subprocess.STDOUT, start_new_session=True), out))
        killed = []
        for k, p, out in procs:
            remaining = max(1, watchdog - (time.time() - t0))
            try:
                p.wait(timeout=remaining)
            except subprocess.TimeoutExpired:
                try:
                    os.killpg(p.pid, signal.SIGKILL)
                except OSError:
                    p.kill()
                p.wait()
                killed.append(k)
        agg = aggregate(pid, mod, tier, seed, procs, tmp, killed)
    finally:
        for _, p, _ in procs:
            if p.poll() is None:
                try:
                    os.killpg(p.pid, signal.SIGKILL)
                except OSError:
                    pass
        shutil.rmtree(tmp, ignore_errors=True)
    if hasattr(mod, 'finalize'):
        mod.finalize(agg, tier)
    return conclude(pid, mod, tier, seed, agg, t0, write_evidence=(replay is None))


def aggregate(pid, mod, tier, seed, procs, tmp, killed):
    agg = {'evaluations': 0, 'sigs': set(), 'violations': [], 'inconclusive': [],
           'samples': [], 'counters': {}, 'features': {}, 'reach': {}, 'worker_errors': [],
           'killed_workers': killed, 'budget_exhausted': 0}
    for k, p, out in procs:
        if p.returncode not in (0, None) and k not in killed:
            err = (tmp / f'w{k}.err').read_text()[-2000:]
            agg['worker_errors'].append(f'worker {k} exit {p.returncode}: {err}')
        if not out.exists():
            continue
        for line in out.read_text().splitlines():
            try:
                rec = json.loads(line)
            except ValueError:
                continue
            if 'reach' in rec:
                for fn, n in rec['reach'].items():
                    agg['reach'][fn] = agg['reach'].get(fn, 0) + n
                continue
            if 'worker_error' in rec:
                agg['worker_errors'].append(rec['worker_error'])
                continue
            if 'budget_exhausted_at' in rec:
                agg['budget_exhausted'] += 1
                continue
            agg['evaluations'] += 1
            if rec.get('inconclusive'):
                agg['inconclusive'].append({'idx': rec['idx'], 'reason': rec['inconclusive']})
                continue
            if rec.get('nontrivial'):
                agg['sigs'].add(rec.get('sig'))
            for v in rec.get('violations') or []:
                v = dict(v)
                v['idx'] = rec['idx']
                agg['violations'].append(v)
            for n, c in (rec.get('counters') or {}).items():
                agg['counters'][n] = agg['counters'].get(n, 0) + c
            for f in rec.get('features') or []:
                agg['features'][f] = agg['features'].get(f, 0) + 1
            if rec.get('sample') is not None and len(agg['samples']) < 4 and rec.get('nontrivial'):
                agg['samples'].append(rec['sample'])
    return agg


def conclude(pid, mod, tier, seed, agg, t0, write_evidence=True):
    open_f, _fixed = load_findings(pid)
    known_hit = {}
    new_viol = {}
    for v in agg['violations']:
        key = v['key']
        if key in open_f:
            known_hit.setdefault(key, []).append(v)
        else:
            new_viol.setdefault(key, []).append(v)
    lines = []
    for key, vs in sorted(known_hit.items()):
        lines.append(f"KNOWN-FINDING: property={pid} {key} {open_f[key].get('description', '')} "
                     f"(observed {len(vs)}x, e.g. {vs[0].get('msg', '')[:200]})")
    replay_paths = []
    for key, vs in sorted(new_viol.items()):
        d = REPLAY_DIR / pid
        d.mkdir(parents=True, exist_ok=True)
        safe = ''.join(c if c.isalnum() or c in '-_.' else '_' for c in key)[:80] + '_' + sighash(key)[:6]
        path = d / f'{safe}.json'
        v = vs[0]
        path.write_text(json.dumps({'property': pid, 'key': key, 'idx': v['idx'], 'seed': seed,
                                    'tier': tier, 'msg': v.get('msg'), 'witness': v.get('witness'),
                                    'occurrences': len(vs)}, indent=1, default=str))
        replay_paths.append(str(path))
        lines.append(f'VIOLATION property={pid} replay={path}')
        lines.append(f"  key={key} occurrences={len(vs)} msg={str(v.get('msg'))[:400]}")

    # inconclusive reasons
    reasons = list(agg.get('extra_inconclusive', []))
    nontriv = len(agg['sigs'])
    minnt = mod.MIN_NONTRIVIAL[tier] if hasattr(mod, 'MIN_NONTRIVIAL') else 2
    if tier == 'thorough' and not getattr(mod, 'THOROUGH_VALIDATED', False) and hasattr(mod, 'MIN_NONTRIVIAL'):
        minnt = min(minnt, 3 * mod.MIN_NONTRIVIAL['quick'])
    if os.environ.get('VERIF_CASES'):
        minnt = 2
    single = agg['evaluations'] <= 1 and mod.CASES[tier] > 1   # replay
    if not single:
        if nontriv < max(2, minnt):
            reasons.append(f'only {nontriv} distinct non-trivial cases (minimum {minnt})')
        if agg['worker_errors']:
            reasons.append('worker errors: ' + ' | '.join(agg['worker_errors'])[:1500])
        if agg['killed_workers']:
            reasons.append(f"watchdog killed workers {agg['killed_workers']}")
        ninc = len(agg['inconclusive'])
        maxfrac = getattr(mod, 'MAX_INCONCLUSIVE_FRAC', 0.05)
        if agg['evaluations'] and ninc / agg['evaluations'] > maxfrac:
            reasons.append(f"{ninc}/{agg['evaluations']} cases inconclusive, e.g. "
                           f"{agg['inconclusive'][0]['reason'][-600:]}")
        for fn in getattr(mod, 'REQUIRED_REACH', []):
            if not any(k.endswith(':' + fn) or k.split(':')[-1].split('.')[-1] == fn for k in agg['reach']):
                reasons.append(f'mechanism function {fn} never entered')
        for cname, cmin in getattr(mod, 'REQUIRED_COUNTERS', {}).items():
            if agg['counters'].get(cname, 0) < cmin:
                reasons.append(f"monitor counter {cname}={agg['counters'].get(cname, 0)} < {cmin}")

    wall = time.time() - t0
    if write_evidence:
        ev = {
            'property_id': pid, 'tier': tier, 'seed': int(seed), 'level': mod.LEVEL,
            'coverage': {
                'evaluations': agg['evaluations'],
                'distinct_nontrivial': nontriv,
                'rule': mod.RULE,
                'samples': agg['samples'] or [{'note': 'no non-trivial sample recorded'}],
                'monitor_counters': dict(sorted(agg['counters'].items())),
                'distinct_features': len(agg['features']),
                'feature_counts': dict(sorted(agg['features'].items())),
                'reached_functions': dict(sorted(agg['reach'].items(), key=lambda kv: -kv[1])[:40]),
                'inconclusive_cases': len(agg['inconclusive']),
                'inconclusive_examples': [i['reason'][-300:] for i in agg['inconclusive'][:3]],
                'known_findings_hit': {k: len(v) for k, v in known_hit.items()},
                'new_violation_keys': sorted(new_viol),
                'budget_exhausted_workers': agg['budget_exhausted'],
                'verdict': 'violated' if new_viol else ('inconclusive' if reasons else 'held on what was observed'),
                'inconclusive_reasons': reasons,
            },
            'assumptions': getattr(mod, 'ASSUMPTIONS', []),
            'wall_s': round(wall, 2),
            'violations': sum(len(v) for v in new_viol.values()),
        }
        if getattr(mod, 'EXHAUSTIVE', {}).get(tier):
            ev['coverage']['exhaustive'] = True
        ev['coverage'].update(agg.get('extra_coverage', {}))
        (EVIDENCE_DIR / f'{pid}.json').write_text(json.dumps(ev, indent=1, default=str))

    for ln in lines:
        print(ln)
    summary = (f"{pid} tier={tier} seed={seed} evaluations={agg['evaluations']} "
               f"distinct_nontrivial={nontriv} known_findings={len(known_hit)} "
               f"new_violations={len(new_viol)} inconclusive_cases={len(agg['inconclusive'])} "
               f"wall={wall:.1f}s")
    print(summary)
    if new_viol:
        return 1
    if reasons:
        print(f"INCONCLUSIVE property={pid} reason={' ; '.join(reasons)[:3000]}")
        return 2
    return 0
