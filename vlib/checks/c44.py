"""C44 -- parallel JIT library builds compile objects after their module dependencies."""
import os
import re
import shutil
from collections import Counter
from pathlib import Path

from vlib import parlab
from vlib.core import sighash

PID = 'C44'
LEVEL = 'fault_enumeration'
TECHNIQUE = 'event-log checker (hook trace + compiler-wrapper log) + differential against the serial build'
LEVEL_TEXT = ('every generated module DAG is built by the real Builder/Lib.build serially and with 2/4/8 workers under '
              'enumerated delay plans (start delays through the guarded workqueue hook, compile-time delays through '
              'the compiler wrapper); ordering, exactly-once and library equality are decided offline on two '
              'independent event logs; only the interleavings actually observed are covered')
LEVEL_NOTE = ('ground-truth dependencies come from the generator; delays perturb task start and compile duration only; '
              'gfortran and ar are trusted; Obj cache is cleared before every build (fresh-build histories only)')
RULE = ('module dependency DAGs of 3-10 source files (chains, diamonds, wide fan-out/fan-in, layered and random DAGs, '
        'two chains, files with several modules, free-subroutine files, mixed-case file names, libraries made of a '
        'subset of the files) whose modules really need the .mod files of their dependencies; 1 serial + 9 (quick) '
        'or 24 (thorough) multi-worker builds per case. Non-trivial = serial build succeeded, all planned builds ran, '
        'at least one dependency edge exists and (unless the DAG is a total order) at least two distinct begin/end '
        'interleavings were observed; distinct = hash of the sources.')
CASES = {'quick': 32, 'thorough': 320}
MIN_NONTRIVIAL = {'quick': 12, 'thorough': 160}
ANCHORS = []
REQUIRED_COUNTERS = {'dependency_orderings_checked_hook': 60, 'dependency_orderings_checked_wrapper': 60,
                     'parallel_builds': 20}
ASSUMPTIONS = ['the generator\'s module graph is the ground truth for "objects providing the modules it uses"',
               'CLOCK_MONOTONIC (hook) and the realtime clock (wrapper) are each consistent across processes',
               'schedules are explored by injected delays, not exhaustively']
BUDGET_S = {'quick': 900, 'thorough': 3600}
CASE_TIMEOUT_S = 2400
WATCHDOG_S = {'quick': 3600, 'thorough': 9000}
MAX_INCONCLUSIVE_FRAC = 0.2    # job timeouts on a loaded machine are environmental
WORKER_COUNTS = (2, 4, 8)
# (hook start-delay plan, wrapper compile-delay plan)
PLANS = {'quick': {2: [('zero', 'none'), ('reverse', 'providers'), ('random', 'random')],
                   4: [('single', 'oneslow'), ('random', 'providers'), ('reverse', 'none')],
                   8: [('zero', 'providers'), ('random', 'random'), ('single', 'oneslow')]},
         'thorough': {w: [('zero', 'none'), ('zero', 'providers'), ('reverse', 'providers'), ('forward', 'random'),
                          ('single', 'oneslow'), ('random', 'random'), ('random', 'providers'), ('random', 'none')]
                      for w in (2, 4, 8)}}
MAX_MS = 60


# --------------------------------------------------------------------------
# workload generator
# --------------------------------------------------------------------------

def gen_edges(rng, n, shape):
    """edges (i -> j) meaning unit i uses unit j, j < i"""
    e = set()
    if shape == 'chain':
        e = {(i, i - 1) for i in range(1, n)}
    elif shape == 'diamond':
        mid = list(range(1, n - 1))
        e = {(m, 0) for m in mid} | {(n - 1, m) for m in mid}
    elif shape == 'fan_out':
        e = {(i, 0) for i in range(1, n)}
    elif shape == 'fan_in':
        e = {(n - 1, i) for i in range(n - 1)}
    elif shape == 'two_chains':
        h = n // 2
        e = {(i, i - 1) for i in range(1, h)} | {(i, i - 1) for i in range(h + 1, n)}
        if rng.random() < 0.5 and n - 1 > h:
            e.add((n - 1, h - 1))
    elif shape == 'layered':
        layers, i = [], 0
        while i < n:
            w = rng.randrange(1, 4)
            layers.append(list(range(i, min(n, i + w))))
            i += w
        for a, b in zip(layers, layers[1:]):
            for x in b:
                for y in rng.sample(a, rng.randrange(1, len(a) + 1)):
                    e.add((x, y))
    else:  # random
        for i in range(1, n):
            for j in rng.sample(range(i), rng.randrange(0, min(i, 3) + 1)):
                e.add((i, j))
        if not e:
            e.add((n - 1, 0))
    return e


def _sum_lines(first, terms, indent):
    """a sum over many terms, one continuation line per term (keeps lines short)"""
    lines = [first + (' &' if terms else '')]
    for n, t in enumerate(terms):
        lines.append(f'{indent}  & + {t}' + (' &' if n < len(terms) - 1 else ''))
    return lines


def module_text(name, uses, const, extra_comment=''):
    lines = [f'module {name}']
    for u in uses:
        lines.append(f'  use {u}, only: k_{u}, f_{u}')
    lines.append('  implicit none')
    if extra_comment:
        lines.append(f'  {extra_comment.strip()}')
    lines += _sum_lines(f'  integer, parameter :: k_{name} = {const}', [f'k_{u}' for u in uses], '  ')
    lines += ['contains', f'  function f_{name}(x) result(y)', '    integer, intent(in) :: x', '    integer :: y']
    lines += _sum_lines(f'    y = x * {const % 7 + 1} + k_{name}', [f'f_{u}(x)' for u in uses], '    ')
    lines += [f'  end function f_{name}', f'end module {name}']
    return lines


def gen_case(rng, idx):
    shape = ['chain', 'diamond', 'fan_out', 'fan_in', 'two_chains', 'layered', 'random', 'random'][idx % 8]
    n = rng.randrange(3, 11) if shape != 'chain' else rng.randrange(3, 7)
    tag = f'{rng.randrange(100, 999)}'
    edges = gen_edges(rng, n, shape)
    secondary_dep_slice = (idx % 12 == 7)
    units = []           # one per file: primary module (or free subroutine), optional secondary modules
    features = {f'shape:{shape}'}
    for i in range(n):
        stem = f'u{i}q{tag}'
        kind = 'module'
        if i == n - 1 and rng.random() < 0.25 and any(a == i for a, _ in edges):
            kind = 'subroutine'
            features.add('free_subroutine_file')
        ext = rng.choice(['.f90', '.f90', '.F90'])
        fname = stem + ext
        if rng.random() < 0.15:
            fname = stem.upper() + ext      # Obj name is lower-cased
            features.add('upper_case_file_name')
        units.append({'i': i, 'stem': stem, 'file': fname, 'kind': kind, 'secondary': [],
                      'uses_primary': sorted(j for a, j in edges if a == i), 'uses_secondary': []})
    # several modules per file
    for u in units:
        if u['kind'] == 'module' and rng.random() < 0.3:
            u['secondary'].append(u['stem'] + '_s')
            features.add('several_modules_per_file')
    # users of a secondary module: benign (the primary of the same file is used as well) ...
    for u in units:
        for j in list(u['uses_primary']):
            if units[j]['secondary'] and rng.random() < 0.6:
                u['uses_secondary'].append(j)
                features.add('secondary_module_used_with_primary')
    # ... or (gated slice) only the secondary module: the provider is not found by name
    if secondary_dep_slice:
        cand = [(u, j) for u in units for j in u['uses_primary'] if units[j]['kind'] == 'module']
        if cand:
            u, j = rng.choice(cand)
            if not units[j]['secondary']:
                units[j]['secondary'].append(units[j]['stem'] + '_s')
            u['uses_primary'].remove(j)
            if j not in u['uses_secondary']:
                u['uses_secondary'].append(j)
            features.add('secondary_module_used_without_primary')
    files = {}
    for u in units:
        uses = [units[j]['stem'] for j in u['uses_primary']] + [units[j]['secondary'][0] for j in u['uses_secondary']]
        const = rng.randrange(1, 1000)
        if u['kind'] == 'module':
            lines = module_text(u['stem'], uses, const, extra_comment='  ! uses nothing else')
            for s in u['secondary']:
                lines += module_text(s, [], rng.randrange(1, 1000))
        else:
            lines = [f"subroutine {u['stem']}(x, y)"]
            lines += [f'  use {m}, only: k_{m}, f_{m}' for m in uses]
            lines += ['  implicit none', '  integer, intent(in) :: x', '  integer, intent(out) :: y']
            lines += _sum_lines(f'  y = {const}', [f'f_{m}(x) + k_{m}' for m in uses], '  ')
            lines.append(f"end subroutine {u['stem']}")
        if rng.random() < 0.3:
            lines.insert(0, f'! generated unit {u["i"]} of case {idx}')
        files[u['file']] = '\n'.join(lines) + '\n'
    deps = {u['stem']: sorted({units[j]['stem'] for j in u['uses_primary'] + u['uses_secondary']}) for u in units}
    # dependencies Loki cannot discover by name (only a module whose name differs from the file stem is used)
    untracked = sorted((u['stem'], units[j]['stem']) for u in units for j in u['uses_secondary']
                       if j not in u['uses_primary'])
    # library contents: everything, or a subset containing the sinks
    lib_files = None
    if rng.random() < 0.3:
        used = {d for ds in deps.values() for d in ds}
        sinks = [u for u in units if u['stem'] not in used]
        chosen = {u['file'] for u in sinks} | {u['file'] for u in units if rng.random() < 0.3}
        lib_files = sorted(chosen)
        features.add('library_of_subset')
    return {'units': units, 'files': files, 'deps': deps, 'untracked': untracked, 'lib_files': lib_files,
            'features': features,
            'shape': shape, 'libname': f'lib{tag}'}


def closure(roots, deps):
    seen, todo = set(), list(roots)
    while todo:
        x = todo.pop()
        if x not in seen:
            seen.add(x)
            todo += deps.get(x, [])
    return seen


def is_total_order(nodes, deps):
    reach = {x: closure([x], deps) for x in nodes}
    nodes = list(nodes)
    return all(a in reach[b] or b in reach[a] for i, a in enumerate(nodes) for b in nodes[i + 1:])


def topo(nodes, deps):
    out, seen = [], set()

    def visit(x):
        if x in seen:
            return
        seen.add(x)
        for d in deps.get(x, []):
            visit(d)
        out.append(x)
    for x in sorted(nodes):
        visit(x)
    return out


# --------------------------------------------------------------------------
# logs
# --------------------------------------------------------------------------

UNTRACKED = 'untracked-dependency:module-name-differs-from-file-stem'

def read_fclog(path):
    ev = []
    p = Path(path)
    if not p.exists():
        return ev
    for line in p.read_text(errors='replace').splitlines():
        parts = line.split()
        if len(parts) == 6 and parts[0] in ('START', 'END'):
            try:
                ev.append({'phase': 'begin' if parts[0] == 'START' else 'end', 't': int(parts[1]), 'pid': int(parts[2]),
                           'key': parts[3], 'rc': parts[4], 'mode': parts[5]})
            except ValueError:
                ev.append({'garbled': line})
        else:
            ev.append({'garbled': line})
    return ev


def obj_of_key(key):
    m = re.search(r"'-o', '([^']+)'", key)
    return Path(m.group(1)).stem if m else None


def check_log(label, ev, built, deps, add, cnt, info, untracked=(), complete=True):
    """ordering + exactly-once on one event log (events: phase/t/key=object stem)"""
    pairs = parlab.pair_events(ev)
    for o in sorted(built):
        p = pairs.get(o, {'begin': [], 'end': []})
        nb, ne = len(p['begin']), len(p['end'])
        if nb == 0:
            if complete:
                add(f'once:{label}:object-never-compiled', f'no compile of {o} in the {label} log', **info)
        elif nb > 1:
            add(f'once:{label}:object-compiled-more-than-once', f'{nb} compiles of {o} in the {label} log', **info)
        elif ne != nb and complete:
            add(f'once:{label}:compile-began-but-never-ended', f'{o}: {nb} begin / {ne} end', **info)
    for o in pairs:
        if o not in built:
            add(f'once:{label}:unexpected-object-compiled', f'{o} compiled but not reachable from the library objects',
                **info)
    for o in sorted(built):
        po = pairs.get(o)
        if not po or not po['begin']:
            continue
        for d in deps.get(o, []):
            pd = pairs.get(d)
            if not pd or not pd['end']:
                continue
            cnt[f'dependency_orderings_checked_{label}'] += 1
            if not max(pd['end']) < min(po['begin']):
                add('order:' + (UNTRACKED if (o, d) in untracked else 'dependent-compile-began-before-dependency-ended'),
                    f'{label} log: compile of {o} began {(max(pd["end"]) - min(po["begin"])) / 1e6:.1f} ms before the '
                    f'compile of {d} (which provides a module used by {o}) ended',
                    log=label, object=o, dependency=d,
                    events=[(e['phase'], e['key'], e['t']) for e in ev if e['key'] in (o, d)], **info)


# --------------------------------------------------------------------------
# the case
# --------------------------------------------------------------------------

def run_case(idx, rng, tier, ctx):
    case = gen_case(rng, idx)
    wd = ctx['scratch'] / f'c{idx}'
    shutil.rmtree(wd, ignore_errors=True)
    src = wd / 's'
    src.mkdir(parents=True)
    for name, text in case['files'].items():
        (src / name).write_text(text)
    try:
        return _run_case(idx, rng, tier, case, wd, src)
    finally:
        if not os.environ.get('VERIF_KEEP'):
            shutil.rmtree(wd, ignore_errors=True)


def _run_case(idx, rng, tier, case, wd, src):
    deps = case['deps']
    untracked = {tuple(e) for e in case['untracked']}
    affected = {o for o in deps if any(u in closure([o], deps) for u, _ in untracked)}
    units = case['units']
    stem_of_file = {u['file']: u['stem'] for u in units}
    lib_stems = [stem_of_file[f] for f in (case['lib_files'] or sorted(case['files']))]
    built = closure(lib_stems, deps)
    nedges = sum(len(deps[o]) for o in built)
    forced = is_total_order(built, deps)
    res = {'sig': sighash(case['files'] | {'lib': case['lib_files']}), 'nontrivial': False, 'violations': [],
           'inconclusive': None, 'features': sorted(case['features']), 'counters': Counter()}
    cnt = res['counters']
    viol = res['violations']

    def add(key, msg, **extra):
        if any(v['key'] == key for v in viol):
            return
        w = {'files': case['files'], 'lib_files': case['lib_files'], 'ground_truth_deps': deps}
        w.update(extra)
        viol.append({'key': key, 'msg': msg, 'witness': w})

    order = topo(built, deps)
    file_of = {u['stem']: u['file'] for u in units}

    def key_for(bd, stem):
        args = [parlab.FC_WRAP, '-c', '-g', '-fPIC', f'-J{bd}', '-o', str(bd / f'{stem}.o'),
                str((src / file_of[stem]).absolute())]
        return repr(args)[:400]

    providers = sorted({d for o in built for d in deps.get(o, [])})

    def wrapper_plan(kind):
        if kind == 'none':
            return {}
        if kind == 'providers':
            return {p: rng.randrange(40, 130) for p in providers}
        if kind == 'oneslow':
            return {rng.choice(providers): 160} if providers else {}
        return {o: rng.randrange(0, 90) for o in built}

    runs = [{'name': 'serial', 'workers': 1, 'build_dir': str(wd / 'b_serial'), 'fclog': str(wd / 'serial.fclog'),
             'trace': None, 'jitter': None, 'fcplan': None}]
    plan_of = {}

    def make_run(name, w, hook_kind, wkind):
        bd = wd / f'b_{name}'
        keys = [key_for(bd, o) for o in order]
        kind = hook_kind if hook_kind != 'single' else f'single:{rng.randrange(len(keys))}'
        plan = parlab.enumerate_plans(keys, 'execute', MAX_MS, [kind], rng, search=200)[0]
        wplan = wrapper_plan(wkind)
        planfile = wd / f'{name}.fcplan'
        planfile.write_text(''.join(f'{o} {ms}\n' for o, ms in wplan.items()))
        plan_of[name] = {'workers': w, 'hook_plan': plan['kind'], 'jitter': plan['jitter'],
                         'planned_start_delays_ms': dict(zip(order, plan['delays'])), 'wrapper_plan': wkind,
                         'compile_delays_ms': wplan, 'predicted_keys': dict(zip(order, keys))}
        return {'name': name, 'workers': w, 'build_dir': str(bd), 'fclog': str(wd / f'{name}.fclog'),
                'trace': str(wd / f'{name}.trace'), 'jitter': plan['jitter'],
                'fcplan': str(planfile) if wplan else None}

    for w in WORKER_COUNTS:
        for pi, (hk, wk) in enumerate(PLANS[tier][w]):
            runs.append(make_run(f'w{w}p{pi}', w, hk, wk))
    if os.environ.get('VERIF_DEV_RUNS'):
        runs = runs[:1 + int(os.environ['VERIF_DEV_RUNS'])]
    spare = [make_run(f'w4x{pi}', 4, 'random', rng.choice(['random', 'none'])) for pi in range(6)]
    job = {'kind': 'build', 'source_dir': str(src), 'libname': case['libname'], 'pattern': ['*.f90', '*.F90'],
           'lib_files': case['lib_files'], 'runs': runs}
    try:
        results = parlab.run_job(job, wd / 'job0', timeout=1200)
    except (parlab.JobTimeout, parlab.JobCrashed) as e:
        res['inconclusive'] = f'build job: {e}'
        return res
    byname = {r['run']: r for r in results}

    # ---- serial reference
    sref = byname.get('serial')
    if sref is None:
        res['inconclusive'] = 'no serial result'
        return res
    sinfo = {'run': 'serial', 'workers': 1}
    sev = [e for e in read_fclog(runs[0]['fclog']) if e.get('mode') == 'COMPILE']
    cnt['wrapper_events'] += len(sev)
    serial_ok = sref['status'] == 'ok' and sref.get('lib_exists')
    if not serial_ok:
        # a serial build that fails is not a schedule problem; report it separately
        before = [(o, d) for o in built for d in deps.get(o, [])
                  if any(e['key'] == o for e in sev) and not any(e['key'] == d and e['phase'] == 'end' and e['rc'] == '0'
                                                                for e in sev)]
        add('serial:build-failed' + ((':' + UNTRACKED) if before and set(before) <= untracked else
                                     ':dependency-not-built-first' if before else ''),
            f"serial build failed: {sref.get('exc_type')} {sref.get('exc_msg', '')[:300]}", **sinfo)
    else:
        check_log('wrapper', sev, built, deps, add, cnt, sinfo, untracked)
        exp_members = [f'{s}.o' for s in lib_stems]
        if sorted(sref.get('members', [])) != sorted(exp_members):
            add('lib:serial-members-unexpected', f"serial archive members {sref.get('members')} != {exp_members}",
                **sinfo)

    interleavings = set()
    problems = []

    def evaluate(run):
        name = run['name']
        r = byname.get(name)
        if r is None:
            return 'missing result for ' + name
        plan = plan_of[name]
        info = {'run': name, **{k: plan[k] for k in ('workers', 'hook_plan', 'jitter', 'planned_start_delays_ms',
                                                    'wrapper_plan', 'compile_delays_ms')}}
        cnt['parallel_builds'] += 1
        hev = parlab.read_trace(run['trace'])
        cnt['hook_events'] += len(hev)
        for e in hev:
            e['rawkey'] = e['key']
            if e['fn'] != 'execute':
                add('once:unexpected-task-function', f"{name}: queued task {e['fn']}", **info)
            e['key'] = obj_of_key(e['rawkey']) or e['rawkey']
        if {e['rawkey'] for e in hev} <= set(plan['predicted_keys'].values()):
            cnt['runs_with_predicted_task_keys'] += 1
        wev_all = read_fclog(run['fclog'])
        if any('garbled' in e for e in wev_all):
            return f'{name}: garbled wrapper log'
        wev = [e for e in wev_all if e['mode'] == 'COMPILE']
        cnt['wrapper_events'] += len(wev)
        ok = r['status'] == 'ok' and r.get('lib_exists')
        nviol_before = len(viol)
        # ordering first (so that a failed build is explained by its cause)
        check_log('hook', hev, built, deps, add, cnt, info, untracked, complete=ok)
        check_log('wrapper', sorted(wev, key=lambda e: e['t']), built, deps, add, cnt, info, untracked, complete=ok)
        if parlab.max_parallelism(hev) >= 2:
            cnt['builds_with_two_compiles_in_flight'] += 1
        if hev:
            interleavings.add(tuple((e['phase'][0], e['key']) for e in hev))
        if not serial_ok:
            if ok:
                cnt['parallel_ok_serial_failed'] += 1
            return None
        if not ok:
            failed = sorted({e['key'] for e in wev if e['phase'] == 'end' and e['rc'] != '0'})
            cause = 'after-ordering-violation' if len(viol) > nviol_before else 'ordering-respected'
            if failed and set(failed) <= affected:
                cause = UNTRACKED
            if cause == 'ordering-respected' and not failed and r.get('exc_type') == 'TimeoutError':
                # Loki's own wall-clock limit for a queued task fired with no failing compile and no ordering
                # violation: a loaded machine, not a verdict
                return f"{name}: build task timed out (TimeoutError of loki's wait_and_check; wall-clock, not a verdict)"
            add(f'build:parallel-build-failed:{cause}',
                f"{name}: {r.get('exc_type')} {r.get('exc_msg', '')[:300]}; failing compiles: {failed}", **info)
            return None
        cnt['parallel_builds_compared'] += 1
        if r.get('members') != sref.get('members'):
            add('lib:archive-members-differ-from-serial', f"{name}: {r.get('members')} vs {sref.get('members')}", **info)
        elif r.get('symbols') != sref.get('symbols'):
            add('lib:exported-symbols-differ-from-serial', f'{name}: nm -g --defined-only differs',
                serial=sref.get('symbols'), parallel=r.get('symbols'), **info)
        if r.get('files') != sref.get('files'):
            add('lib:build-directory-contents-differ-from-serial', f"{name}: {r.get('files')} vs {sref.get('files')}",
                **info)
        return None

    for run in runs[1:]:
        p = evaluate(run)
        if p:
            problems.append(p)
    if len(interleavings) < 2 and not forced and not viol and serial_ok:
        try:
            for r in parlab.run_job(dict(job, runs=spare), wd / 'job1', timeout=900):
                byname[r['run']] = r
            for run in spare:
                p = evaluate(run)
                if p:
                    problems.append(p)
            cnt['adaptive_extra_builds'] += len(spare)
        except (parlab.JobTimeout, parlab.JobCrashed) as e:
            problems.append(f'extra build job: {e}')

    cnt['distinct_interleavings'] += len(interleavings)
    if len(interleavings) >= 2:
        cnt['cases_with_multiple_interleavings'] += 1
    if forced:
        cnt['cases_with_forced_order'] += 1
    res['features'].append(f'interleavings:{min(len(interleavings), 6)}')
    if problems:
        res['inconclusive'] = '; '.join(problems)[:500]
    elif len(interleavings) < 2 and not forced and not viol:
        res['inconclusive'] = (f'only {len(interleavings)} interleaving(s) observed over {cnt["parallel_builds"]} '
                               'multi-worker builds of a DAG that is not a total order')
    res['nontrivial'] = (not res['inconclusive'] and serial_ok and nedges > 0
                         and (forced or len(interleavings) >= 2))
    ex = sorted(interleavings)[:2]
    res['sample'] = {'shape': case['shape'], 'objects': len(built), 'dependency_edges': nedges,
                     'total_order': forced, 'library_members': len(lib_stems), 'parallel_builds': cnt['parallel_builds'],
                     'distinct_interleavings': len(interleavings),
                     'example_interleavings': [' '.join(f'{p}:{k.split("q")[0]}' for p, k in il) for il in ex]}
    res['sample']['loki'] = parlab.LAST_LOKI_FILE
    res['counters'] = dict(cnt)
    return res


def finalize(agg, tier):
    c = agg['counters']
    n = max(1, agg['evaluations'] - len(agg['inconclusive']))
    free = n - c.get('cases_with_forced_order', 0)
    if c.get('cases_with_multiple_interleavings', 0) < 0.8 * free:
        agg.setdefault('extra_inconclusive', []).append(
            f"only {c.get('cases_with_multiple_interleavings', 0)} of {free} non-chain cases observed more than one "
            'interleaving')
    if c.get('builds_with_two_compiles_in_flight', 0) < 0.3 * c.get('parallel_builds', 0):
        agg.setdefault('extra_inconclusive', []).append(
            f"only {c.get('builds_with_two_compiles_in_flight', 0)} of {c.get('parallel_builds', 0)} multi-worker "
            'builds had two compiles in flight at the same time')
    agg['extra_coverage'] = {
        'schedules': {'worker_counts': [1] + list(WORKER_COUNTS),
                      'plans_per_worker_count': {str(w): [f'{a}+{b}' for a, b in p] for w, p in PLANS[tier].items()},
                      'max_start_delay_ms': MAX_MS,
                      'distinct_interleavings_observed': c.get('distinct_interleavings', 0),
                      'cases_with_multiple_interleavings': c.get('cases_with_multiple_interleavings', 0),
                      'cases_whose_dag_is_a_total_order': c.get('cases_with_forced_order', 0),
                      'parallel_builds': c.get('parallel_builds', 0),
                      'builds_with_two_compiles_in_flight': c.get('builds_with_two_compiles_in_flight', 0)}}
