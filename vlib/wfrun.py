"""
Execution harness shared by C40 / C41: fresh IRs of a decorated program, application of registry entries,
evaluation of the well-formedness oracle E8 (vlib/wellformed.py) on the result.
"""
import hashlib
import re
import shutil
import traceback
from pathlib import Path

from vlib import wellformed as wf
from vlib import wflab


def innermost_loki_frame(exc):
    name = '?'
    for fr in traceback.extract_tb(exc.__traceback__):
        if '/loki/' in fr.filename:
            name = fr.name
    return name


def _h(text):
    return hashlib.sha1(text.encode()).hexdigest()


class Fresh:
    """fresh IRs of one source text; the fparser parse tree is built once and converted again for every request"""

    def __init__(self, text):
        # pylint: disable=import-outside-toplevel
        self.text = text
        self.ast = None
        self.pp_info = None
        self.cached_ok = None
        self.reference = None

    def _from_ast(self):
        from loki import Sourcefile
        from loki.frontend import FP
        from loki.frontend.preprocessing import sanitize_input
        from loki.frontend.fparser import parse_fparser_source
        if self.ast is None:
            source, self.pp_info = sanitize_input(source=self.text, frontend=FP)
            self.ast = parse_fparser_source(source)
        return Sourcefile._from_fparser_ast(ast=self.ast, raw_source=self.text, pp_info=self.pp_info)  # pylint: disable=protected-access

    def get(self):
        from loki import Sourcefile
        if self.cached_ok is None:
            # validate once that converting the same parse tree twice gives the same program
            a = self._from_ast()
            self.reference = a.to_fortran()
            b = self._from_ast()
            self.cached_ok = b.to_fortran() == self.reference
            return b if self.cached_ok else Sourcefile.from_source(self.text)
        if self.cached_ok:
            return self._from_ast()
        return Sourcefile.from_source(self.text)


PRINT_KEYS = {'scope': '*:scope:print-statement-symbols-not-rescoped',
              'undeclared': '*:undeclared:print-statement-symbols-not-substituted'}


def issue_key(name, issue):
    """
    <entry>:<kind>:<class>.  Classes are deliberately coarse so that keys are stable over seeds:
    scope: unscoped | other-unit | stale-copy-of-unit | stale-copy-of-ancestor | stale-scoped-node (the scope is a dead
    weak reference or an Associate / TypeDef node that is no longer part of the unit); chain: <Node>-parent-<state>;
    undeclared: var | callee | typeattr | member

    Symbols inside PrintStmt.values are one mechanism of their own, independent of the transformation: the field is not in
    PrintStmt._traversable, so no Loki visitor (AttachScopes / rescope_symbols, SubstituteExpressions, FindVariables) reaches
    them and no transformation handles PrintStmt itself.  Whatever clones / moves / renames code leaves them behind.
    """
    if issue.get('where') == 'PrintStmt' and issue['kind'] in PRINT_KEYS:
        return PRINT_KEYS[issue['kind']]
    parts = issue['key'].split(':')
    if issue['kind'] == 'scope':
        cls = parts[1]
        if cls == 'dead-weakref' or cls.startswith('detached-'):
            cls = 'stale-scoped-node'
        return f'{name}:scope:{cls}'
    if issue['kind'] == 'undeclared':
        role = parts[1]
        if role == 'parent':
            role = 'var'
        return f'{name}:undeclared:{role}'
    return f"{name}:{issue['key']}"


_COMPILE_CLASSES = [
    (r'has no IMPLICIT type', 'no-implicit-type'),
    (r'Explicit array shape at .* must be constant of INTEGER type', 'shape-uses-undeclared-or-later-declared-name'),
    (r'Missing kind-parameter', 'kind-suffix-is-expression'),
    (r'Rank mismatch|Incompatible ranks', 'rank-mismatch'),
    (r'Type mismatch', 'type-mismatch'),
    (r'Cannot open module file', 'module-file-missing'),
    (r'Expected association', 'empty-associate'),
    (r'Unclassifiable statement', 'unclassifiable-statement'),
    (r'Syntax error', 'syntax-error'),
    (r'is not a member of', 'not-a-member'),
    (r'already has basic type|already declared|Duplicate', 'duplicate-declaration'),
    (r'More actual than formal arguments|Missing actual argument|Keyword argument', 'argument-list-mismatch'),
    (r'No such file or directory', 'include-file-missing'),
    (r'cannot be redefined inside loop', 'enclosing-loop-variable-redefined'),
]


def compile_class(detail):
    m = re.search(r'(?:Fatal )?Error: (.{0,200})', detail or '')
    msg = m.group(1) if m else (detail or '')
    for rx, cls in _COMPILE_CLASSES:
        if re.search(rx, msg):
            return cls
    return wf.norm_compile_error(detail)


def split_kmod(text):
    """text of module kmod (and everything after it) out of a generated file that may start with kinds_mod"""
    m = re.search(r'^\s*module\s+kmod\b', text, re.I | re.M)
    return text[m.start():] if m else text


class Evaluator:
    """E8 (a)-(d) after in-process transformations of one decorated program"""

    def __init__(self, wc, workdir, counters):
        self.wc = wc
        self.wd = Path(workdir)
        self.counters = counters
        self.fresh = Fresh(wc.text)
        self.verified = {}       # hash of text -> (ok_c, detail_c, ok_d, detail_d)
        self.depdir = self.wd / 'deps'
        self.base_text = None

    def _count(self, k, n=1):
        self.counters[k] = self.counters.get(k, 0) + n

    def baseline(self):
        """returns None if the decorated program is a valid baseline, else a reason (=> inconclusive)"""
        deps = []
        if self.wc.kinds:
            deps.append(('kinds_mod.F90', self.wc.kinds))
        deps.append(('yomhook.F90', wflab.YOMHOOK))
        ok, det = wf.prepare_modules(self.depdir, deps)
        if not ok:
            return 'dependency modules do not compile: ' + det[-300:]
        ok, det, to = wf.check_compile(self.wd / 'orig', 'kmod.F90', self.wc.kmod, incdirs=[self.depdir])
        if not ok:
            return ('timeout compiling original' if to else 'generated program rejected by gfortran: ' + det[-400:])
        try:
            sf = self.fresh.get()
        except Exception as e:  # pylint: disable=broad-except
            return f'frontend rejects the generated program: {type(e).__name__}: {str(e)[:200]}'
        issues, stats = wf.check_ir(sf)
        if issues:
            return 'fresh IR of the generated program is not well-formed: ' + issues[0]['msg']
        self.base_text = sf.to_fortran()
        ok, why = self.text_ok(self.base_text)
        if not ok:
            return 'regenerated untransformed program is rejected: ' + why[:300]
        return None

    def text_ok(self, text):
        """(c) + (d) for a full file text (kinds_mod + kmod); cached by text"""
        h = _h(text)
        if h in self.verified:
            self._count('text_cache_hits')
            return self.verified[h]
        okc, detc, _ = wf.check_reparse(text)
        self._count('reparse_checks')
        if not okc:
            self.verified[h] = (False, 'reparse: ' + detc)
            return self.verified[h]
        okd, detd, to = wf.check_compile(self.wd / 'new', 'kmod.F90', split_kmod(text), incdirs=[self.depdir])
        self._count('compile_checks')
        if to:
            return (None, 'timeout')
        self.verified[h] = (okd, '' if okd else 'compile: ' + detd)
        return self.verified[h]

    def apply(self, entry, opts):
        """
        apply one registry entry with options to a fresh IR and evaluate E8.
        returns dict(status= 'ok'|'exception'|'timeout', changed, violations=[{key,msg,witness}], text)
        """
        out = {'status': 'ok', 'changed': False, 'violations': [], 'text': None, 'exc': None}
        sf = self.fresh.get()
        x = wflab.X(sf, self.wc)
        try:
            entry.apply(x, opts)
        except Exception as e:  # pylint: disable=broad-except
            out['status'] = 'exception'
            out['exc'] = f'{type(e).__name__}@{innermost_loki_frame(e)}'
            out['exc_msg'] = str(e)[:200]
            return out
        self._count('apps:' + entry.name)
        out['sf'] = sf
        viol = {}

        def add(key, msg, extra=None):
            if key not in viol:
                w = {'entry': entry.name, 'options': opts, 'detail': msg[:1200], 'source': self.wc.text}
                if extra:
                    w.update(extra)
                viol[key] = {'key': key, 'msg': f'{entry.name}{opts}: {msg[:500]}', 'witness': w}

        issues, stats = wf.check_ir(sf)
        for k in ('scope_checks', 'decl_checks', 'chain_checks', 'member_checks'):
            self._count(k, stats.get(k, 0))
        for i in issues:
            add(issue_key(entry.name, i), i['msg'], {'unit': i['unit'], 'symbol': i['symbol']})
        try:
            text = sf.to_fortran()
        except Exception as e:  # pylint: disable=broad-except
            add(f'{entry.name}:fgen-exception:{type(e).__name__}@{innermost_loki_frame(e)}',
                f'fgen raises {type(e).__name__}: {str(e)[:300]}')
            out['violations'] = list(viol.values())
            return out
        out['text'] = text
        out['changed'] = text != self.base_text
        if out['changed']:
            self._count('changed:' + entry.name)
            ok, why = self.text_ok(text)
            if ok is None:
                out['status'] = 'timeout'
            elif not ok:
                if why.startswith('reparse'):
                    m = re.search(r'>>>(.*)', why)
                    add(f'{entry.name}:reparse:{classify_syntax(why)}', why, {'transformed': excerpt(text, why)})
                else:
                    cc = compile_class(why)
                    if not (cc == 'no-implicit-type' and any(':undeclared:' in k for k in viol)):
                        add(f'{entry.name}:compile:{cc}', why, {'transformed': excerpt(text, why)})
        out['violations'] = list(viol.values())
        return out


def classify_syntax(why):
    """narrow class of a frontend rejection from the offending line"""
    m = re.search(r'>>>(.*)', why)
    line = m.group(1) if m else ''
    if 'validation error for Associate' in why:
        return 'empty-associate'
    if re.search(r'[-+*/]\s*-\s*[\d(a-zA-Z]', line):
        return 'sign-after-operator'
    if re.search(r'_[A-Za-z]\w*\s*\(', line) and re.search(r'\d_[A-Za-z]', line):
        return 'kind-suffix-is-expression'
    if re.search(r'\(\(\s*[^()]*:[^()]*\)\)', line):
        return 'bracketed-range-in-declaration'
    if re.search(r'^\s*ASSOCIATE\s*\(\s*\)', line, re.I):
        return 'empty-associate'
    if re.search(r'\(\s*[^()]*\(\s*:\s*\)|\w\([^()]*\+[^()]*:[^()]*\)', line):
        return 'offset-added-to-section'
    t = re.search(r'(\w+Error)', why)
    return 'other-' + (t.group(1) if t else 'error')


def excerpt(text, why, ctx=3):
    """a few lines of the transformed text around the reported line"""
    m = re.search(r':(\d+):\d+:', why) or re.search(r'at line (\d+)', why)
    lines = text.split('\n')
    if not m:
        return '\n'.join(lines[:40])
    n = int(m.group(1))
    return '\n'.join(lines[max(0, n - 1 - ctx):n + ctx])


# --------------------------------------------------------------------------- scheduler runs
def run_scheduler(entry, opts, wc, rng, wd, counters, drhook=False):
    """
    build the project, run the real Scheduler with the transformations of ``entry`` and evaluate E8 on every file.
    returns dict(status, changed, violations, inconclusive)
    """
    # pylint: disable=import-outside-toplevel
    from loki import Scheduler, SchedulerConfig, Sourcefile
    from loki.frontend import FP
    out = {'status': 'ok', 'changed': False, 'violations': [], 'inconclusive': None, 'exc': None}
    wd = Path(wd)
    shutil.rmtree(wd, ignore_errors=True)
    src, inc = wd / 'src', wd / 'include'
    for d in (src, inc, wd / 'xmods'):
        d.mkdir(parents=True, exist_ok=True)
    import copy
    wcp = wc
    if drhook or entry.project.get('drhook'):
        wcp = copy.copy(wc)
        wcp.kmod = wflab.add_drhook(wc)
    proj = wflab.make_project(wcp, rng, with_free=bool(entry.project.get('with_free')), block_loop=True)
    for name, text in proj['files']:
        (src / name).write_text(text)
    for name, text in proj['headers']:
        (inc / name).write_text(text)
    ok, det = compile_project(wd / 'b0', proj['files'], [inc])
    if not ok:
        out['inconclusive'] = 'generated project rejected by gfortran: ' + det[-400:]
        return out
    config = SchedulerConfig.from_dict({
        'default': {'mode': 'idem', 'role': 'kernel', 'expand': True, 'strict': False, 'enable_imports': True,
                    'disable': ['yomhook', 'dr_hook', 'kinds_mod']},
        'routines': {'drv': {'role': 'driver'}}})
    try:
        sched = Scheduler(paths=[src], config=config, seed_routines=['drv'], frontend=FP, xmods=[wd / 'xmods'],
                          output_dir=wd / 'out')
    except Exception as e:  # pylint: disable=broad-except
        out['inconclusive'] = f'Scheduler construction failed: {type(e).__name__}: {str(e)[:200]}'
        return out

    def sourcefiles():
        sfs = {}
        for item in sched.items:
            sf = getattr(item, 'source', None)
            while sf is not None and not isinstance(sf, Sourcefile):
                sf = getattr(sf, 'parent', None)
            if sf is not None and getattr(sf, 'path', None) is not None:
                sfs[Path(sf.path).name] = sf
        return sfs

    known = ('fsub', 'dr_hook')
    sfs0 = sourcefiles()
    issues, _ = wf.check_ir(list(sfs0.values()), known_procedures=known)
    if issues:
        out['inconclusive'] = 'scheduler IR not well-formed before the transformation: ' + issues[0]['msg']
        return out
    before = {n: sf.to_fortran() for n, sf in sfs0.items()}
    env = {'include': inc}
    try:
        for t in entry.make(opts, env):
            sched.process(t)
    except Exception as e:  # pylint: disable=broad-except
        out['status'] = 'exception'
        out['exc'] = f'{type(e).__name__}@{innermost_loki_frame(e)}'
        out['exc_msg'] = str(e)[:300]
        return out
    counters['apps:' + entry.name] = counters.get('apps:' + entry.name, 0) + 1
    sfs = dict(sfs0)
    sfs.update(sourcefiles())
    viol = {}

    def add(key, msg, extra=None):
        if key not in viol:
            w = {'entry': entry.name, 'options': opts, 'detail': msg[:1200], 'files': dict(proj['files'])}
            if extra:
                w.update(extra)
            viol[key] = {'key': key, 'msg': f'{entry.name}{opts}: {msg[:500]}', 'witness': w}

    issues, stats = wf.check_ir(list(sfs.values()), known_procedures=known)
    for k in ('scope_checks', 'decl_checks', 'chain_checks', 'member_checks'):
        counters[k] = counters.get(k, 0) + stats.get(k, 0)
    for i in issues:
        add(issue_key(entry.name, i), i['msg'], {'unit': i['unit'], 'symbol': i['symbol']})
    after = {}
    for n, sf in sfs.items():
        try:
            after[n] = sf.to_fortran()
        except Exception as e:  # pylint: disable=broad-except
            add(f'{entry.name}:fgen-exception:{type(e).__name__}@{innermost_loki_frame(e)}',
                f'fgen of {n} raises {type(e).__name__}: {str(e)[:300]}')
    out['changed'] = any(after.get(n) != before.get(n) for n in after)
    if out['changed']:
        counters['changed:' + entry.name] = counters.get('changed:' + entry.name, 0) + 1
    if len(after) == len(sfs):
        # (c) every changed file re-parses
        for n, t in after.items():
            if t != before.get(n):
                okc, det, _ = wf.check_reparse(t)
                counters['reparse_checks'] = counters.get('reparse_checks', 0) + 1
                if not okc:
                    add(f'{entry.name}:reparse:{classify_syntax(det)}', f'{n}: {det}', {'transformed': excerpt(t, det)})
        # (d) the whole project compiles; files the scheduler did not load are taken as they were
        texts = [(n, after.get(n, t)) for n, t in proj['files']]
        texts += [(n, t) for n, t in after.items() if n not in dict(proj['files'])]
        if entry.keep_originals:
            # renaming transformations: the untransformed files stay part of the build unless the transformed
            # file still defines the same modules / routines
            texts = merge_with_originals(proj['files'], texts)
        if out['changed']:
            okd, det = compile_project(wd / 'b1', texts, [inc], entry.fflags)
            counters['compile_checks'] = counters.get('compile_checks', 0) + 1
            if okd is None:
                out['status'] = 'timeout'
            elif not okd:
                fn = re.match(r'([\w.]+):', det)
                tx = dict(texts).get(fn.group(1)) if fn else None
                cc = compile_class(det)
                if not (cc == 'no-implicit-type' and any(':undeclared:' in k for k in viol)):
                    add(f'{entry.name}:compile:{cc}', det, {'transformed': excerpt(tx, det) if tx else None})
    out['violations'] = list(viol.values())
    out['after'] = after
    return out


def _defined_units(text):
    lo = text.lower()
    mods = set(re.findall(r'^\s*module\s+(?!procedure\b)(\w+)\s*$', lo, re.M))
    if mods:
        return mods
    return set(re.findall(r'^\s*(?:subroutine|function)\s+(\w+)', lo, re.M))


def merge_with_originals(orig, new):
    out = []
    newd = dict(new)
    for n, t in orig:
        nt = newd.get(n, t)
        if nt != t and not (_defined_units(nt) & _defined_units(t)):
            out.append((n, t))
            out.append((n.replace('.F90', '.loki.F90'), nt))
        else:
            out.append((n, nt))
    out += [(n, t) for n, t in new if n not in dict(orig)]
    return out


def compile_project(wd, texts, incdirs, fflags=()):
    """syntax-check all files in module dependency order; (ok|None on timeout, detail)"""
    wd = Path(wd)
    shutil.rmtree(wd, ignore_errors=True)
    wd.mkdir(parents=True, exist_ok=True)
    for name, text in wflab.topo_order(list(texts)):
        ok, det, to = wf.check_compile(wd, name, text, incdirs=incdirs, fflags=fflags)
        if to:
            return None, 'timeout'
        if not ok:
            return False, f'{name}: {det}'
    return True, ''
