"""Generator of known_findings/C40.json and C41.json from a table of mechanisms (one description, several symptom keys).

    /venv/bin/python /verif/vlib/wf_known_findings.py
"""
import json

W = 'PYTHONPATH=/verif:/repo /venv/bin/python -m vlib.wfwitness '
MECH = [
 # (mechanism description, witness, suggested fix, [keys])
 ("do_merge_associates (MergeAssociatesTransformer) rebuilds the outermost ASSOCIATE nodes without a parent scope and does "
  "not rescope the routine: the Associate lexically inside the routine has parent None, so symbols scoped to it no longer "
  "resolve through the routine's scope chain (type look-ups of the selectors fall back to DEFERRED). When all associations "
  "of an inner block are moved out, the emptied block is kept and printed as 'ASSOCIATE ()', which neither fparser nor "
  "gfortran accept (behavioural side recorded as C29 associates:merge:*).",
  W + "do_merge_associates   (nested 'associate (x => a)' / 'associate (y => b)')",
  "rebuild with parent=kwargs['scope'] and call routine.rescope_symbols() at the end of do_merge_associates; drop Associate nodes whose associations became empty",
  ['do_merge_associates:chain:Associate-parent-none', 'AssociatesTransformation:chain:Associate-parent-none',
   'do_merge_associates:reparse:empty-associate', 'AssociatesTransformation:reparse:empty-associate',
   ]),
 ("Loop / region transformations that rebuild the routine body with a plain Transformer (do_loop_fission, region_hoist, and "
  "their Transformation wrappers) re-create the enclosing ASSOCIATE nodes but never call rescope_symbols(): the new Associate "
  "has no parent scope and the symbols in its body keep the old Associate as scope, which is detached from the tree (or "
  "already garbage collected: dead weak reference, symbol.scope is None and symbol.type silently becomes the stale local type).",
  "kern with 'associate (z00 => i2) ... end associate' somewhere and a '!$loki loop-fission' loop (or a '!$loki region-hoist' "
  "region + target) elsewhere in the body: do_loop_fission(kern) / region_hoist(kern); check_ir -> Associate-parent-none, "
  "'Scalar z00 in Associate.name: scope weak reference is dead'",
  "call routine.rescope_symbols() after 'routine.body = Transformer(...).visit(routine.body)' in transform_loop.py / transform_region.py (as do_resolve_associates and the inliner do)",
  ['do_loop_fission:chain:Associate-parent-none', 'do_loop_fission:scope:stale-scoped-node',
   'region_hoist:chain:Associate-parent-none', 'region_hoist:scope:stale-scoped-node',
   'TransformLoopsTransformation:chain:Associate-parent-none', 'TransformLoopsTransformation:scope:stale-scoped-node',
   'sched:TransformLoopsTransformation:chain:Associate-parent-none', 'sched:TransformLoopsTransformation:scope:stale-scoped-node']),
 ("outline_pragma_regions / outline_region (also through ExtractTransformation, which appends the new routines to "
  "module.contains): (1) the new routine is created without parent and stays parent-less after it is added to the module, so "
  "module-level imports / host names do not resolve through its scope chain; (2) the name of the generated CALL is an unscoped "
  "DeferredTypeSymbol; (3) the call arguments are the symbols of the *new* routine (scope = outlined routine) placed in the "
  "caller; (4) dimension variables of outlined arrays are not made arguments when they are not used in the region itself and "
  "keep the caller as scope (declaration 'a(n)' without n: compile error), and arguments are ordered by type so an array can "
  "be declared before the INTEGER argument its shape uses (gfortran: 'Explicit array shape must be constant of INTEGER type').",
  W + "outline_pragma_regions",
  "create the routine with parent=routine.parent, build the call from caller-scoped symbols (clone(scope=routine)) and a "
  "ProcedureSymbol scoped in the caller; add FindVariables(shape) of every argument/local to the arguments; declare integer scalars first",
  [f'{e}:{k}' for e in ('outline_pragma_regions', 'ExtractTransformation', 'sched:ExtractTransformation')
   for k in ('chain:contained-Subroutine-parent-none', 'scope:unscoped', 'scope:other-unit', 'undeclared:var',
             'compile:shape-uses-undeclared-or-later-declared-name')]),
 ("extract_internal_procedures (extract_contained_procedure, also through ExtractTransformation): the extracted procedure is "
  "a clone that keeps the former host routine as parent scope although it is now contained in the module, and host-associated "
  "symbols that became arguments / imports keep scope = former host routine.",
  W + "extract_internal_procedures",
  "clone with parent=routine.parent and call new_routine.rescope_symbols() after the arguments / imports were added",
  [f'{e}:{k}' for e in ('extract_internal_procedures', 'ExtractTransformation', 'sched:ExtractTransformation')
   for k in ('chain:contained-Subroutine-parent-other-Subroutine', 'chain:contained-Function-parent-other-Subroutine',
             'scope:other-unit')]),
 ("remove_duplicate_args_from_calls / RemoveDuplicateArgs: (1) the body of the callee is rewritten with 'var.name in arg_map', a "
  "case-sensitive dict of the names as spelled in the dummy list: a use of the removed dummy spelled differently (N2 vs n2) "
  "is left behind undeclared; (2) with rename_common=True only callee.body is substituted, the specification part is not: the "
  "array bound in 'xin(n1)' still names the dummy that was renamed to the common prefix 'n'.",
  W + "remove_duplicate_args",
  "use CaseInsensitiveDict for arg_map / rename_common_map and apply SubstituteExpressions to callee.spec as well",
  ['remove_duplicate_args_from_calls:undeclared:var', 'sched:RemoveDuplicateArgs:undeclared:var']),
 ("flatten_arrays builds the linear subscript as dim[-2] + shape*(dim[-1] - start_index) with pymbolic arithmetic, which yields "
  "Sum((i, -1)): fgen prints 'c(i + n*(j + -1))'. Two consecutive operators are not Fortran: fparser rejects the regenerated "
  "code (gfortran only accepts it as an extension). Sections of rank>=2 arrays get the offset added to the ':' itself "
  "('zq((:) + n*(1 + 3*(:)))', behavioural side: C30 flatten:rank2-section-call-argument).",
  W + "flatten_arrays",
  "build the offset with sym.Sum((dim, sym.Product((-1, start)))) simplified, or let fgen bracket negative literals after an operator",
  ['flatten_arrays:reparse:sign-after-operator', 'flatten_arrays:reparse:offset-added-to-section',
   'flatten_arrays:reparse:other-FortranSyntaxError']),
 ("inline_marked_subroutines / inline_internal_procedures (inline_subroutine_calls -> map_call_to_procedure_body) look the dummy "
  "arguments up case-sensitively: when the callee spells a dummy differently in its body than in its declaration (XIN vs xin) "
  "the reference is not replaced by the actual argument; the inlined statement keeps the callee's dummy (scope = callee, "
  "undeclared in the caller). When the callee is an internal procedure it is removed from CONTAINS afterwards: once it is "
  "garbage collected the scope of the left-over dummy is a dead weak reference (class stale-scoped-node instead of other-unit).",
  "subroutine Hsub(nn, XIN, xio, sout); real, intent(in) :: xin(nn); ... sout = sout + XIN(ii) ... | kern: '!$loki inline' / "
  "'call hsub(n, a1, zs, s2)' -> 'sout = sout + XIN(ii)' stays in kern. Internal procedure: " + W + "inline_internal_procedures(case)  "
  "('Subroutine isub(nn, xin, ..)' / 'REAL :: XIN(nn)' / 'sout = Sout + xin(II)' -> 'S2 = S2 + xin(II)' in kern; C41 seed 1 idx 74, seed 0 thorough idx 138)",
  "key the argument map by lower-cased names (CaseInsensitiveDict) as everywhere else",
  [f'{e}:{k}' for e in ('inline_marked_subroutines', 'InlineTransformation', 'sched:InlineTransformation')
   for k in ('scope:other-unit', 'undeclared:var')] +
  ['sched:pipeline:undeclared:var', 'sched:pipeline:scope:other-unit:inlined-dummy', 'inline_internal_procedures:scope:other-unit', 'inline_internal_procedures:undeclared:var'] +
  [f'{e}:scope:stale-scoped-node' for e in ('inline_internal_procedures', 'InlineTransformation', 'sched:InlineTransformation')]),
 ("PrintStmt.values is not in PrintStmt._traversable: no Loki visitor reaches the symbols of a PRINT statement, so "
  "rescope_symbols() / AttachScopes, SubstituteExpressions and FindVariables skip them, and no transformation handles PrintStmt "
  "itself. One mechanism for every transformation that clones, moves or renames code (key independent of the entry): (scope) "
  "after ProgramUnit.clone (DuplicateKernel: kern -> kerndupl, module clones), outlining, extraction or inlining the symbols "
  "printed keep the scope of the original / former unit (or a dead weak reference once that unit is gone); (undeclared) a "
  "renamed variable or a substituted dummy argument keeps its old name inside PRINT (rename_variables, inlining), which is "
  "no longer declared (gfortran: no IMPLICIT type).",
  W + "print_stmt   (kern with \"print *, 'x', s2, a1(n)\": k2 = k.clone(name='k2') -> 'Scalar s2 in PrintStmt of k2 has scope "
  "Subroutine k'; C41 seed 1 sched:DuplicateKernel: 'Scalar s2 in PrintStmt of kerndupl has scope Subroutine kern')",
  "add 'values' to PrintStmt._traversable (and the expression fields of the other GenericStmt subclasses)",
  ['*:scope:print-statement-symbols-not-rescoped', '*:undeclared:print-statement-symbols-not-substituted']),
 ("HoistVariablesTransformation / HoistTemporaryArraysTransformationAllocatable / TemporariesPoolAllocatorTransformation copy "
  "declarations, allocations, call arguments and the imports they need from the kernel into the driver without cloning them "
  "into the driver's scope: the driver then holds symbols (kern_w1, jprb in kind= and in the copied USE statement) whose scope "
  "is the kernel routine. The pool allocator additionally creates its stack-size variable ISTSZ without any scope.",
  "kmod.F90: kern with local 'real(kind=jprb) :: w1(n)'; drvmod.F90: drv calls kern; Scheduler.process(HoistTemporaryArraysAnalysis()); "
  "process(HoistTemporaryArraysTransformationAllocatable()); check_ir(drv) -> 'Array kern_w1 in Allocation of drv has scope Subroutine kern'",
  "clone hoisted symbols with scope=routine (driver) and rescope the driver after the synthesis step",
  ['sched:HoistVariables:scope:other-unit', 'sched:pipeline:scope:other-unit', 'sched:TemporariesPoolAllocator:scope:other-unit',
   'sched:TemporariesPoolAllocator:scope:unscoped']),
 ("TemporariesPoolAllocatorTransformation treats references to a statement function as calls to a kernel and appends the stack "
  "argument: 'zs = sfn(s1, YDSTACK_L=YLSTACK_L)' (gfortran: keyword argument invalid in a statement function).",
  "kern with 'real :: sfn, sfx' / 'sfn(sfx) = sfx*2.0 + 1.0' / 'zs = sfn(s1)' and a local array; pool allocator over drv -> kern",
  "skip InlineCalls whose procedure type is a statement function (call.routine is a StatementFunction / BasicType.DEFERRED)",
  ['sched:TemporariesPoolAllocator:compile:argument-list-mismatch']),
 ("ExplicitArgumentArrayShapeTransformation copies the caller's dimension symbols into the callee's declaration "
  "('xin(:)' -> 'xin(n)') with the caller as scope.",
  "hsub(nn, xin, ...) with 'xin(:)', called as 'call hsub(n, a1, zs, s2)' from kern: after ArgumentArrayShapeAnalysis + "
  "ExplicitArgumentArrayShapeTransformation 'Scalar n in VariableDeclaration of hsub has scope Subroutine kern'",
  "clone the dimension symbols with scope=callee",
  ['sched:ArgumentArrayShape:scope:other-unit']),
 ("DependencyTransformation appends the suffix to references of a *statement function* of the kernel (InlineCall 'sfn(x)' becomes "
  "'sfn_t(x)') while the statement function itself keeps its name: undeclared function in the renamed kernel.",
  "kern with statement function sfn; DependencyTransformation(suffix='_t', module_suffix='_MOD') after ModuleWrapTransformation",
  "only rename InlineCalls whose name is in the item's call targets (exclude StatementFunction names)",
  ['sched:DependencyTransformation:undeclared:callee']),
 ("HoistVariablesTransformation(as_kwarguments=False) appends the hoisted variables as *positional* actual arguments after the "
  "positional ones, also when the call uses keyword arguments: in 'call hsub(n, w1, sout=s3, xio=x2)' the hoisted 'hsub_ii' "
  "lands on the third dummy (xio) although the callee received it as a new last dummy: type mismatch / 'keyword argument is "
  "already associated with another actual argument'.",
  "hsub(nn, xin, xio, sout) with local 'integer :: ii', called with keywords 'call hsub(n, w1, sout=s3, xio=x2)' from kern; "
  "HoistVariablesAnalysis + HoistVariablesTransformation(as_kwarguments=False) -> 'CALL hsub(n, w1, hsub_ii, sout=s3, xio=x2)'",
  "pass hoisted variables by keyword whenever the call already has keyword arguments",
  ['sched:HoistVariables:compile:type-mismatch', 'sched:HoistVariables:compile:argument-list-mismatch']),
 ("LowerConstantArrayIndices.process_callee rewrites the uses of the dummy whose constant index was lowered by comparing names "
  "case-sensitively: a use spelled differently from the declaration (x2 vs X2) keeps its old rank while the declaration and "
  "the other uses get the additional dimension (gfortran: rank mismatch in array reference).",
  "subroutine hlow(nn, X2, sout); real, intent(in) :: X2(nn, 2); sout = sout + X2(1, 1) + x2(nn, 2) | kern: "
  "'call hlow(n, zq(:, 1, :), zs)' with zq(n, 3, 2); LowerConstantArrayIndices().apply(kern, role='kernel', targets=('hlow',)) "
  "-> 'X2(nn, 3, 2)', 'X2(1, 1, 1) + x2(NN, 2)'",
  "compare lower-cased names (or use symbol equality, which is case-insensitive)",
  ['LowerConstantArrayIndices:compile:rank-mismatch']),
 ("resolve_vector_notation takes the index variable of *any* loop of the routine whose bounds equal the section range "
  "(loop_map = {loop bounds: loop variable} over the whole body) without looking at the loops that enclose the statement: an "
  "array assignment 'a(1:n:2) = ...' inside 'do i = m, 1, -1' becomes 'DO i=1,n,2' nested in the loop over i when some other "
  "loop 'do i = 1, n, 2' exists in the routine (gfortran: Variable 'i' cannot be redefined inside loop; the frontend accepts it). "
  "Behavioural side: C30 resolve:reuses-enclosing-loop-variable.",
  W + "'resolve_vector_notation(enclosing'   (C41 seed 0 idx 82)",
  "do not take an index from loop_map when its variable is the variable of a loop enclosing the statement (track enclosing loops in the transformer)",
  ['resolve_vector_notation:compile:enclosing-loop-variable-redefined']),
 # ---- gated slices
 ("rename_variables only visits routine.ir of the routine itself: uses of a renamed argument / variable in its internal "
  "procedures (host association) keep the old name, which is no longer declared anywhere.",
  W + "rename_variables",
  "recurse into routine.members (unless the member declares a local of the same name)",
  ['rename_variables(host-used):undeclared:var']),
 ("do_remove_unused_vars(remove_only_arrays=False) takes 'unused' from the data-flow sets of the body "
  "(uses_symbols | defines_symbols), which do not contain loop variables: the declarations of DO variables that are only used as "
  "loop index are removed.",
  W + "do_remove_unused_vars",
  "add Loop.variable of every loop (and implied-do variables) to used_or_defined_symbols",
  ['do_remove_unused_vars:undeclared:var']),
 ("inline_constant_parameters (also through InlineTransformation(inline_constants=True) and LowerConstantArrayIndices) replaces a kind "
  "parameter by its initialisation expression also inside literals and type declarations: '0.5_jprb' -> "
  "'0.5_SELECTED_REAL_KIND(13, 300)' (rejected by fparser and gfortran); for a local kind parameter the kind of the declaration "
  "becomes an InlineCall and fgen raises AttributeError ('InlineCall' object has no attribute 'type'). Same crash after "
  "ParametriseTransformation(replace_by_value=True). Behavioural side: C28 constants:kind-parameter-expression-as-literal-suffix.",
  W + "inline_constant_parameters",
  "never substitute parameters that are used as kind selectors (literal kind, type.kind)",
  [f'{e}:{k}' for e in ('inline_constant_parameters', 'InlineTransformation', 'LowerConstantArrayIndices')
   for k in ('reparse:kind-suffix-is-expression', 'compile:kind-suffix-is-expression',
             'fgen-exception:AttributeError@_construct_type_attributes')] +
  ['sched:ParametriseTransformation:fgen-exception:AttributeError@_construct_type_attributes']),
 ("resolve_vector_dimension(derive_qualified_ranges=True) turns a WHERE whose mask mixes arrays with different bounds into "
  "'IF (d(0:n - 1) <= b(jz) - a(jz))': only some operands are indexed, the IF condition is array valued (behavioural side: C30 "
  "resolve:where-mask-and-body-ranges-differ).",
  W + "resolve_vector_dimension",
  "index every array of the mask (shifted by its own lower bound) or leave the WHERE untouched",
  ['resolve_vector_dimension:compile:IF-clause-at-requires-a-scalar-LOGICAL-expression']),
 ("DependencyTransformation with a suffix containing upper-case letters and no ModuleWrap (include mode for free routines): "
  "the interface header is written under the lower-cased routine name (fsub_t.intfb.h) while the caller's #include keeps the "
  "suffix as given (fsub_T.intfb.h), so the renamed caller does not compile on a case-sensitive file system.",
  "Scheduler project with a free kernel fsub called from a driver; DependencyTransformation(suffix='_T', include_path=..., "
  "module_suffix=None) -> drvmod includes 'fsub_T.intfb.h', the file written is 'fsub_t.intfb.h'",
  "lower-case the suffix consistently when building the include name (or write the header under the spelled name)",
  ['sched:DependencyTransformation:compile:include-file-missing']),
]

out = {'findings': []}
seen = set()
for desc, wit, fix, keys in MECH:
    for k in keys:
        if k in seen:
            for f in out['findings']:
                if f['key'] == k:
                    f['description'] += ' || also: ' + desc
            continue
        seen.add(k)
        out['findings'].append({'property': 'C41', 'key': k, 'status': 'open', 'description': desc, 'witness': wit,
                                'suggested_fix': fix})
json.dump(out, open('/verif/known_findings/C41.json', 'w'), indent=1)
print(len(out['findings']), 'keys')

c40 = {'findings': [
 {'property': 'C40', 'key': 'remove_explicit_array_dimensions:not-idempotent:identifier-case-only', 'status': 'open',
  'description': "remove_explicit_array_dimensions(calls_only=False) maps *every* array without subscripts (all(... for dim in ()) is True) "
                 "to a clone of itself through a dict keyed by symbols. Symbols compare case-insensitively, so once 'W1(:)' has become "
                 "'W1' by the first application it collides with the differently spelled 'w1' in the second application: one spelling "
                 "replaces the other (only the letter case of identifiers changes).",
  'witness': W + "remove_explicit   (w1 = 10.0 / W1(:) = 0.5: once 'w1 = 10.0', twice 'W1 = 10.0')",
  'suggested_fix': "skip arrays without dimensions: 'if array.dimensions and all(...)'"}]}
json.dump(c40, open('/verif/known_findings/C40.json', 'w'), indent=1)
