"""C26 -- dataflow defines/uses/live sets over-approximate the reads and writes of every execution."""
from vlib import dfcheck

PID = 'C26'
LEVEL = 'exploration'
TECHNIQUE = 'event-log monitor: tracing IR interpreter (validated against gfortran) vs attached dataflow sets'
LEVEL_TEXT = ('Every generated routine is executed by a tracing interpreter of the Loki IR on 4 inputs; for every '
              'activation of every IR node (kernel and callees) each element write is checked against defines_symbols, '
              'each read of an element not yet written in that activation against uses_symbols, and every variable '
              'holding a value at node entry against live_symbols. Exploration over randomly generated routines, '
              'not exhaustive.')
LEVEL_NOTE = ('The interpreter is only a recorder: its final state must equal the output of the same routine compiled '
              'with gfortran -fcheck=all on every input, otherwise the routine is discarded as inconclusive. '
              'Loop induction variables, kind parameters and size/lbound/ubound arguments are treated as the analysis '
              'documents (no read/write demanded). Names are compared case-folded by base name; inside ASSOCIATE '
              'the associate name or the selector name is accepted.')
RULE = ('each case index = 4 generated routines (vlib/dfgen.py: kernel + 0-2 callees; scalars and rank<=2 arrays; '
        'conditional / element / section / whole-array definitions, DO / DO WHILE, IF/ELSE IF, SELECT CASE, '
        'WHERE/ELSEWHERE, ASSOCIATE, calls with intent in/inout/out (and none in a slice), callee in the same '
        'module, enriched via routine.enrich, or unenriched), compiled into one program with gfortran and executed by '
        'vlib/irinterp.py on 4 inputs. Shapes that trigger a known mechanism (use after a may-definition, value '
        'carried over a loop back edge, intent-less dummies, expression selectors, ...) are generated only in a '
        '~22% slice of the indices. Non-trivial = at least one routine validated against gfortran and >= 1 oracle '
        'evaluation; distinct = hash of the generated sources.')
NSUB = 4
CASES = {'quick': 125, 'thorough': 2000}
MIN_NONTRIVIAL = {'quick': 50, 'thorough': 500}
ANCHORS = ['loki/analyse/dataflow_analysis.py', 'loki/analyse/abstract_dfa.py']
REQUIRED_REACH = ['visit_CallStatement', 'visit_MaskedStatement', 'visit_MultiConditional', 'visit_Associate',
                  'visit_Loop', 'visit_WhileLoop', 'visit_Conditional', 'visit_Assignment',
                  'attach_dataflow_analysis']
REQUIRED_COUNTERS = {'defines_checks': 2000, 'uses_checks': 2000, 'live_checks': 2000, 'callee_activations': 50,
                     'routines_validated': 8}
ASSUMPTIONS = ['gfortran 12 -O0 -fcheck=all is the reference semantics used to validate the interpreter',
               'generated routines are well-defined by construction (no read of an undefined value; the interpreter '
               'additionally traps undefined reads, out-of-bounds subscripts and overflow)',
               'intent(out) dummies are undefined on entry of the callee (not "holding a value")',
               'reads that Fortran may skip (short-circuit) are recorded: .and./.or./merge evaluate all operands']
BUDGET_S = {'quick': 500, 'thorough': 5400}
CASE_TIMEOUT_S = 240

CHECKS = ('defines', 'uses', 'live')
HZ_CHOICES = [('kill',), ('kill',), ('kill', 'zero_trip'), ('live',), ('noint',), ('noint', 'kill'),
              ('assoc_expr',), ('memq',), ('loopvar_after',), ('zero_trip',), ('call_dim',), ('call_dim', 'noint')]


def pick_hz(rng, idx):
    if rng.random() < 0.78:
        return {}
    return {k: True for k in rng.choice(HZ_CHOICES)}


def run_case(idx, rng, tier, ctx):
    return dfcheck.run_index(idx, rng, tier, ctx, PID, CHECKS, NSUB, pick_hz)


def finalize(agg, tier):
    dfcheck.finalize_rate(agg)
