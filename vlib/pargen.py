"""
Project generator for C39 (ParametriseTransformation preserves behaviour for matching inputs, guards the rest).

``ParGen(rng, flags).generate()`` returns a ``ParCase``:

    pcon.F90   kinds module (``jprb``) and a few module parameters
    pkmod.F90  (optionally pkmod2.F90) kernels forming a call tree of depth 1-3
    pdmod.F90  ``driver`` (role ``driver``)
    main.F90   PROGRAM (never shown to Loki): reads ``A B F seed``, fills oversized arrays (``nmax`` per dimension,
               so that every explicit-shape dummy is smaller than its actual whatever the values are), prints
               ``begin``, calls ``driver(A, B, F, ...)`` positionally and prints everything
    pabort.F90 external subroutine used by one of the abort callbacks (compiled, never shown to Loki)

Three integer *roles* travel through the call tree under routine-specific names: ``A`` (first extent), ``B`` (second
extent), ``F`` (flag).  They are used as array sizes (dummies, automatic arrays), loop bounds and flags
(IF / SELECT CASE / arithmetic) and are passed down positionally, always as the plain variable, and identically at
every call site of a routine (the documented consistency requirement of the transformation).  ``case.roles`` maps
routine -> role -> local name, so that the check can phrase ``dic2p`` / ``entry_points`` in any routine's names.
"""
# pylint: disable=too-many-branches,too-many-locals,too-many-statements
from dataclasses import dataclass, field

DEFAULT_FLAGS = dict(
    n_kernels=3, split_files=False, mixed_decl=True, kw_actual=False, expr_actual=True, select_case=True,
    automatic_arrays=True, local_parameters=True, upper_case=False, kind_literals=True, entry_kernel=False,
    module_parameters=True, max_stmts=5, dup_pass=False,
)

NAMES = {'A': ['na', 'n1', 'klon', 'ia', 'nx'], 'B': ['nb', 'n2', 'klev', 'ib', 'ny'], 'F': ['kf', 'iflag', 'ksw', 'mode', 'kopt']}
COEFS = ['0.5', '0.25', '0.125', '0.75', '-0.5', '-0.25', '0.375']
NMAX = 8


@dataclass
class ParCase:
    files: list
    driver: str
    extra: list            # [(filename, text)] compiled but never given to Loki
    features: set
    roles: dict            # routine name -> {'A': name, 'B': name, 'F': name} (only roles the routine receives)
    calls: dict
    meta: dict = field(default_factory=dict)

    @property
    def units(self):
        return '\n'.join(t for _, t in self.files)


@dataclass
class PRoutine:
    name: str
    module: str
    roles: dict
    arrays: list           # subset of ['c', 'd', 'x'] received
    has_s: bool = True
    level: int = 1
    lines: list = field(default_factory=list)
    decls: list = field(default_factory=list)
    calls: list = field(default_factory=list)
    extra_int: str = None  # a further integer dummy that receives an expression / literal


class ParGen:

    def __init__(self, rng, flags=None):
        self.rng = rng
        self.f = dict(DEFAULT_FLAGS)
        self.f.update(flags or {})
        self.features = set()

    def lit(self, c):
        """real literal with or without kind suffix"""
        if self.f['kind_literals']:
            return f'({c}_jprb)' if c.startswith('-') else f'{c}_jprb'
        return f'real({c}, kind=jprb)'

    def coef(self):
        return self.lit(self.rng.choice(COEFS))

    def sp(self, name):
        return name.upper() if self.f['upper_case'] else name

    # ------------------------------------------------------------------ routines
    def make_routine(self, idx, level, driver=False):
        rng = self.rng
        if driver:
            roles = {'A': 'na', 'B': 'nb', 'F': 'kf'}
            return PRoutine('driver', 'pdmod', roles, ['c', 'd', 'x'], level=0)
        roles = {}
        keep = rng.choice([('A', 'B', 'F'), ('A', 'B', 'F'), ('A', 'B'), ('A', 'F'), ('A',), ('B', 'F')])
        for ro in keep:
            roles[ro] = rng.choice(NAMES[ro])
        arrays = []
        if 'A' in roles and 'B' in roles:
            arrays.append('c')
        if 'B' in roles:
            arrays.append('d')
        if 'A' in roles:
            arrays.append('x')
        r = PRoutine(f'k{idx}', 'pkmod', roles, arrays, level=level)
        if self.f['expr_actual'] and rng.random() < 0.4:
            r.extra_int = 'kx'
        return r

    def decl_text(self, r):
        rng, f = self.rng, self.f
        ints = [self.sp(r.roles[k]) for k in ('A', 'B', 'F') if k in r.roles]
        rng.shuffle(ints) if False else None
        D = []
        if f['mixed_decl'] and len(ints) > 1 and rng.random() < 0.6:
            D.append(f'integer, intent(in) :: {", ".join(ints)}')
            self.features.add('combined_declaration')
        else:
            for n in ints:
                D.append(f'integer, intent(in) :: {n}')
        if r.extra_int:
            D.append(f'integer, intent(in) :: {r.extra_int}')
        A, B = self.sp(r.roles.get('A', '')), self.sp(r.roles.get('B', ''))
        if 'c' in r.arrays:
            D.append(f'real(kind=jprb), intent(inout) :: c({A}, {B})')
        if 'd' in r.arrays:
            D.append(f'real(kind=jprb), intent(inout) :: d({B})')
        if 'x' in r.arrays:
            D.append(f'real(kind=jprb), intent(inout) :: x({A})')
        D.append('real(kind=jprb), intent(inout) :: s')
        return D

    def arglist(self, r):
        a = [r.roles[k] for k in ('A', 'B', 'F') if k in r.roles]
        if r.extra_int:
            a.append(r.extra_int)
        return a + r.arrays + ['s']

    def gen_body(self, r, children):
        rng, f = self.rng, self.f
        A = self.sp(r.roles['A']) if 'A' in r.roles else None
        B = self.sp(r.roles['B']) if 'B' in r.roles else None
        F = self.sp(r.roles['F']) if 'F' in r.roles else None
        L, D = [], ['integer :: i, j', 'real(kind=jprb) :: z']
        L.append(f'z = {self.coef()}')
        autos = []
        if f['automatic_arrays']:
            if A and rng.random() < 0.7:
                ext = rng.choice([A, f'{A} + 1', f'2*{A}'])
                D.append(f'real(kind=jprb) :: ta({ext})')
                L += [f'do i = 1, {ext}', f'  ta(i) = {self.lit("0.0625")}*real(mod(i*i + 3, 7), kind=jprb)', 'end do']
                autos.append(('ta', A))
                self.features.add('automatic_array_sized_by_parameter')
            if B and rng.random() < 0.5:
                D.append(f'real(kind=jprb) :: tb({B}, 2)')
                L += ['do j = 1, 2', f'  do i = 1, {B}', f'    tb(i, j) = {self.lit("0.0625")}*real(mod(i + 3*j, 5), kind=jprb)',
                      '  end do', 'end do']
                autos.append(('tb', B))
        if f['local_parameters'] and rng.random() < 0.5:
            D.insert(0, 'integer, parameter :: jp = 3')
            self.features.add('local_parameter')
            L.append(f'z = z + {self.lit("0.03125")}*real(jp, kind=jprb)')
        if f['module_parameters'] and rng.random() < 0.4:
            self.features.add('module_parameter_use')
            L.append(f'z = z + {self.lit("0.015625")}*real(mpar, kind=jprb)')
            r.uses_mpar = True

        def flagged(stmts_t, stmts_e):
            if not F:
                return stmts_t
            k = rng.choice(['if', 'if', 'sel', 'gt', 'arith'] if f['select_case'] else ['if', 'gt', 'arith'])
            self.features.add('flag_' + k)
            if k == 'if':
                return [f'if ({F} == {rng.choice([0, 1, 2, -1])}) then'] + ['  ' + x for x in stmts_t] + ['else'] + \
                       ['  ' + x for x in stmts_e] + ['end if']
            if k == 'gt':
                return [f'if ({F} > 0 .and. {F} < 3) then'] + ['  ' + x for x in stmts_t] + ['else'] + \
                       ['  ' + x for x in stmts_e] + ['end if']
            if k == 'sel':
                return [f'select case ({F})', 'case (1)'] + ['  ' + x for x in stmts_t] + ['case (2, 3)'] + \
                       ['  ' + x for x in stmts_e] + ['case default', f'  s = s + {self.lit("0.125")}', 'end select']
            return stmts_t + [f's = s + {self.lit("0.0625")}*real({F} + 2, kind=jprb)*real(mod({F} + 7, 3), kind=jprb)']

        def stmt():
            opts = []
            if 'c' in r.arrays:
                t1 = [f'do j = 1, {B}', f'  do i = 1, {A}',
                      f'    c(i, j) = {self.coef()}*c(i, j) + {self.lit("0.03125")}*real(i + 2*j, kind=jprb) + z', '  end do',
                      'end do']
                t2 = [f'do j = 1, {B}', f'  c({A}, j) = {self.coef()}*c({A}, j) + {self.coef()}*c(1, j)', 'end do']
                opts += [t1, t2, [f's = {self.lit("0.5")}*s + c({A}, {B}) + {self.lit("0.03125")}*real({A}*{B}, kind=jprb)']]
            if 'd' in r.arrays:
                opts += [[f'do i = 1, {B}', f'  d(i) = {self.coef()}*d(i) + {self.lit("0.0625")}*real(mod(i*i, 5), kind=jprb)',
                          'end do'], [f'd({B}) = {self.coef()}*d({B}) + z']]
            if 'x' in r.arrays:
                opts += [[f'do i = 1, {A}', f'  x(i) = {self.coef()}*x(i) + {self.coef()}*x({A} + 1 - i)*z', 'end do'],
                         [f'do i = 2, {A}', f'  x(i) = {self.coef()}*x(i) + {self.coef()}*x(i - 1)', 'end do'],
                         [f's = {self.lit("0.5")}*s + sum(x(1:{A}))*{self.lit("0.125")}']]
            for (nm, ro) in autos:
                if nm == 'ta':
                    opts += [[f'do i = 1, {ro}', f'  ta(i) = {self.coef()}*ta(i) + z', 'end do',
                              f's = s + ta({ro}) + {self.lit("0.015625")}*real(size(ta), kind=jprb)']]
                    if 'x' in r.arrays:
                        opts += [[f'do i = 1, {ro}', f'  x(i) = {self.lit("0.5")}*x(i) + {self.lit("0.25")}*ta(i)', 'end do']]
                else:
                    opts += [[f's = s + tb({ro}, 2) + tb(1, 1)']]
                    if 'd' in r.arrays:
                        opts += [[f'do i = 1, {ro}', f'  d(i) = {self.lit("0.5")}*d(i) + {self.lit("0.25")}*tb(i, 1 + mod(i, 2))',
                                  'end do']]
            if r.extra_int:
                opts += [[f's = s + {self.lit("0.03125")}*real(kx, kind=jprb)']]
            return rng.choice(opts)

        nst = rng.randint(2, f['max_stmts'])
        todo_children = list(children)
        rng.shuffle(todo_children)
        for q in range(nst):
            if todo_children and (q >= 1 or rng.random() < 0.5):
                ch = todo_children.pop()
                call = self.call_text(r, ch)
                if call:
                    # calls stay unconditional: an entry-point guard must be reached for every input
                    L.append(call)
                    r.calls.append(ch.name)
                    if rng.random() < 0.3:
                        L.append(call)
                        self.features.add('child_called_twice')
                    continue
            if rng.random() < 0.5:
                L += flagged(stmt(), stmt())
            else:
                L += stmt()
        for ch in todo_children:
            call = self.call_text(r, ch)
            if call:
                L.append(call)
                r.calls.append(ch.name)
        L.append(f's = {self.lit("0.5")}*s + {self.lit("0.25")}*z')
        r.lines, r.decls = L, D

    def call_text(self, r, ch):
        """positional call; every role the child needs must be available in the caller"""
        rng, f = self.rng, self.f
        if any(k not in r.roles for k in ch.roles):
            return None
        if any(a not in r.arrays for a in ch.arrays):
            return None
        acts = []
        names = self.arglist(ch)
        roles_inv = {v: k for k, v in ch.roles.items()}
        for dn in names:
            if dn in roles_inv:
                acts.append(self.sp(r.roles[roles_inv[dn]]))
            elif dn == ch.extra_int:
                # the same text at every call site of ch (decided once per child)
                acts.append(ch.extra_actual.format(**{k: self.sp(v) for k, v in r.roles.items()}))
            else:
                acts.append(dn)
        if f['kw_actual'] and rng.random() < 0.5:
            # arrays and s by keyword; the integer roles stay positional (they lead the argument list)
            nint = len(ch.roles) + (1 if ch.extra_int else 0)
            acts = acts[:nint] + [f'{dn}={a}' for dn, a in zip(names[nint:], acts[nint:])]
            self.features.add('keyword_actuals')
        return f'call {ch.name}({", ".join(acts)})'

    def routine_text(self, r):
        L = [f'  subroutine {r.name}({", ".join(self.sp(a) if a in r.roles.values() else a for a in self.arglist(r))})']
        if getattr(r, 'uses_mpar', False):
            L.append('    use pcon, only: mpar')
        L += ['    ' + d for d in self.decl_text(r) + r.decls]
        L += ['    ' + x for x in r.lines]
        L.append(f'  end subroutine {r.name}')
        return '\n'.join(L)

    # ------------------------------------------------------------------ generate
    def generate(self):
        rng, f = self.rng, self.f
        nk = f['n_kernels']
        kernels = []
        for idx in range(1, nk + 1):
            level = {1: [1], 2: [1, 2, 2], 3: [1, 2, 3, 3]}.get(idx, [2, 3, 3])
            level = min(rng.choice(level), idx)
            kernels.append(self.make_routine(idx, level))
        for k in kernels:
            if k.extra_int:
                k.extra_actual = rng.choice(['{A} + 1', '2', '2*{B}', '{A}*{B}', '{F} + 1'])
                if f['dup_pass']:
                    # hazard: the plain variable a second time (the same variable associated with two dummies)
                    k.extra_actual = rng.choice(['{A}', '{B}', '{F}'])
                need = [ro for ro in 'ABF' if '{' + ro + '}' in k.extra_actual]
                if any(ro not in k.roles for ro in need):
                    # the callers are only known to have the roles the child itself receives
                    k.extra_actual = '2'
                self.features.add('expression_actual')
        if f['split_files'] and any(k.level > 1 for k in kernels):
            for k in kernels:
                if k.level > 1:
                    k.module = 'pkmod2'
            self.features.add('split_kernel_modules')
        drv = self.make_routine(0, 0, driver=True)
        entry = None
        if f['entry_kernel']:
            entry = kernels[0]
            entry.level = 1
        for k in reversed(kernels):
            children = [c for c in kernels if c.level == k.level + 1]
            self.gen_body(k, children)
        # driver calls level-1 kernels; with a kernel entry point nothing below the entry point may be called from
        # outside its subtree (documented consistency requirement)
        sub = set()
        if entry:
            todo = [entry.name]
            while todo:
                c = todo.pop()
                if c not in sub:
                    sub.add(c)
                    todo += next(k for k in kernels if k.name == c).calls
        top = [k for k in kernels if k.level == 1 and (not entry or k is entry or k.name not in sub)]
        self.gen_body(drv, top)
        reach, todo = set(), list(drv.calls)
        while todo:
            c = todo.pop()
            if c not in reach:
                reach.add(c)
                todo += next(k for k in kernels if k.name == c).calls
        kernels = [k for k in kernels if k.name in reach]
        if entry and entry.name not in reach:
            entry = None
        if entry:
            # a routine of the entry subtree called from outside the subtree would be left inconsistent
            outside = [k for k in kernels if k.name not in sub] + [drv]
            for o in outside:
                if any(c in sub and c != entry.name for c in o.calls):
                    entry = None
                    break
        depth = {}
        def dep(name):
            if name not in depth:
                k = next(k for k in kernels if k.name == name)
                depth[name] = 1 + max([dep(c) for c in k.calls] + [0])
            return depth[name]
        self.features.add('call_depth_%d' % max([dep(c) for c in drv.calls] + [0]))
        files = [('pcon.F90', 'module pcon\n  implicit none\n  integer, parameter :: jprb = selected_real_kind(13, 300)\n'
                              '  integer, parameter :: mpar = 5\nend module pcon\n')]
        for mod in ['pkmod2', 'pkmod']:
            ks = [k for k in kernels if k.module == mod]
            if not ks:
                continue
            L = [f'module {mod}', '  use pcon, only: jprb']
            called = sorted({c for k in ks for c in k.calls})
            oth = [c for c in called if any(k.name == c and k.module != mod for k in kernels)]
            if oth:
                L.append(f'  use {"pkmod2" if mod == "pkmod" else "pkmod"}, only: {", ".join(oth)}')
            L += ['  implicit none', 'contains']
            for k in ks:
                L += [self.routine_text(k), '']
            L.append(f'end module {mod}')
            files.append((f'{mod}.F90', '\n'.join(L) + '\n'))
        L = ['module pdmod', '  use pcon, only: jprb']
        for mod in ['pkmod', 'pkmod2']:
            names = sorted({c for c in drv.calls if any(k.name == c and k.module == mod for k in kernels)})
            if names:
                L.append(f'  use {mod}, only: {", ".join(names)}')
        L += ['  implicit none', 'contains', self.routine_text(drv), 'end module pdmod']
        files.append(('pdmod.F90', '\n'.join(L) + '\n'))
        # kmod2 may depend on kmod or the other way round: order by dependency
        files = self.order_files(files)
        roles = {r.name: dict(r.roles) for r in kernels + [drv]}
        if any(k.extra_int and k.extra_actual in ('{A}', '{B}', '{F}') for k in kernels):
            self.features.add('hazard_same_variable_passed_twice')
        if f['upper_case']:
            self.features.add('upper_case_source')
        return ParCase(files, self.main_text(), [('pabort.F90', PABORT)], self.features, roles,
                       {r.name: sorted(set(r.calls)) for r in kernels + [drv]},
                       {'entry': entry.name if entry else None, 'kernels': [k.name for k in kernels]})

    @staticmethod
    def order_files(files):
        import re
        names = {n: t for n, t in files}
        mods = {re.search(r'module (\w+)', t).group(1): n for n, t in files}
        out, done = [], set()
        def visit(n):
            if n in done:
                return
            done.add(n)
            for u in re.findall(r'^\s*use (\w+)', names[n], re.M):
                if u in mods and mods[u] != n:
                    visit(mods[u])
            out.append((n, names[n]))
        for n, _ in files:
            visit(n)
        return out

    def main_text(self):
        return f'''program main
  use pcon, only: jprb
  use pdmod, only: driver
  implicit none
  integer, parameter :: nmax = {NMAX}
  integer :: va, vb, vf, seed, i, j
  real(kind=jprb) :: c(nmax, nmax), d(nmax), x(2*nmax), s
  read(*, *) va, vb, vf, seed
  do j = 1, nmax
    do i = 1, nmax
      c(i, j) = fv(i + 3*j, 1)
    end do
    d(j) = fv(j, 2)
  end do
  do i = 1, 2*nmax
    x(i) = fv(i, 3)
  end do
  s = fv(1, 4)
  print *, 'begin', va, vb, vf
  call driver(va, vb, vf, c, d, x, s)
  print *, 's', s
  print *, 'c', c
  print *, 'd', d
  print *, 'x', x
contains
  function fv(q, salt) result(v)
    integer, intent(in) :: q, salt
    real(kind=jprb) :: v
    v = real(mod(q*q*7 + seed*13 + q*salt*3 + salt, 23), kind=jprb)/16.0_jprb - 0.6875_jprb
  end function fv
end program main
'''


PABORT = '''subroutine pabort(msg)
  implicit none
  character(len=*), intent(in) :: msg
  print *, 'PABORT: ', msg
  stop 3
end subroutine pabort
'''
