"""C29 -- associate resolution / merging preserves behaviour (differential execution, sanitizers on)."""
import re
import shutil
import traceback

from vlib import diffexec
from vlib.core import sighash
from vlib.assocgen import AssocGen, HAZARDS

PID = 'C29'
LEVEL = 'exploration'
TECHNIQUE = 'differential execution (gfortran run-time checks + ASan/UBSan) of generated ASSOCIATE programs before and after resolution / merging'
LEVEL_TEXT = ('every sampled routine with (nested) ASSOCIATE blocks computed the same outputs before and after '
              'do_resolve_associates / do_merge_associates / AssociatesTransformation on 4 input sets, with bounds checks, '
              'sanitizers and FPE traps on; the transformed code re-parsed and compiled')
LEVEL_NOTE = ('gfortran -O0 with run-time checks is the reference semantics; programs are well-defined by construction; '
              'reals compared to rtol 1e-11; sampled programs and inputs only')
RULE = ('AssocGen kernels: ProgGen statements inside ASSOCIATE blocks nested up to depth 3 whose names bind scalars, '
        'derived-type components (two levels), array elements, whole arrays (also lower bound /= 1), full-extent '
        'sections and read-only expressions; names shadow outer associate names or equal host variables; names are '
        'assignment targets, operands, subscripts and actual arguments; blocks enclose loops and calls. One entry point '
        'per case: do_resolve_associates(start_depth 0/1/2), do_merge_associates(max_parents None/1/2), or '
        'AssociatesTransformation(option vector). Original and transformed module are built with the same driver and '
        'run on 4 input sets. Non-trivial = the ASSOCIATE statements of the kernel changed (fewer blocks or different '
        'association lists) and both programs ran; distinct = hash of source+entry point. Features with a known defect '
        'are enabled in every 4th case only (one hazard per case).')
CASES = {'quick': 192, 'thorough': 3200}
MIN_NONTRIVIAL = {'quick': 80, 'thorough': 1400}
ANCHORS = ['loki/transformations/sanitise/associates.py']
REQUIRED_REACH = ['do_resolve_associates', 'do_merge_associates', 'map_scalar', 'map_array', 'visit_Associate',
                  '_match_range_indices', 'transform_subroutine']
REQUIRED_COUNTERS = {'program_runs': 100, 'associates_removed': 50, 'associations_moved': 10}
ASSUMPTIONS = ['gfortran 12 -O0 with run-time checks is the reference semantics',
               'generated programs are well-defined by construction (original must compile and run clean, else the case is discarded as inconclusive)',
               'real outputs compared to relative 1e-11']
BUDGET_S = {'quick': 400, 'thorough': 3000}
CASE_TIMEOUT_S = 300

MODES = ['resolve0', 'resolve1', 'merge', 'resolve0', 'trafo', 'resolve2', 'merge_resolve', 'trafo']
HAZ = [('section_lb', 'resolve0'), ('partial_range', 'resolve0'), ('modified_operand', 'resolve0'),
       ('merge_dep_sub', 'merge'), ('merge_loop_between', 'merge'), ('merge_name_clash', 'merge'),
       ('section_lb', 'resolve1'), ('modified_operand', 'trafo'), ('merge_expr_selector', 'merge'), ('merge_all_moved', 'merge'), ('merge_then_resolve', 'trafo')]


def setup_worker(tier, ctx):
    from loki import config
    config['log-level'] = 'ERROR'


def plan(idx, rng):
    hazard = None
    if idx % 4 == 3:
        hazard, mode = HAZ[(idx // 4) % len(HAZ)]
    else:
        mode = MODES[(idx - (idx + 1) // 4) % len(MODES)]
    f = {h: False for h in HAZARDS}
    if hazard in HAZARDS:
        f[hazard] = True
    opts = {}
    if mode.startswith('resolve'):
        opts = {'start_depth': int(mode[-1])}
    elif mode == 'merge':
        opts = {'max_parents': rng.choice([None, None, 1, 2])}
    elif mode == 'merge_resolve':
        # the two utilities composed by hand, with the rescoping that do_merge_associates leaves to its caller
        opts = {'max_parents': rng.choice([None, None, 1, 2]), 'start_depth': rng.choice([0, 1, 1, 2])}
    else:
        # AssociatesTransformation with exactly one of the two steps; both steps together are the slice
        # 'merge_then_resolve' (known defect: IndexError for any function reference inside a block)
        res_only = rng.random() < 0.6
        opts = {'resolve_associates': res_only, 'merge_associates': not res_only,
                'start_depth': rng.choice([0, 0, 1, 2]), 'max_parents': rng.choice([None, 1, 2])}
        if hazard == 'merge_then_resolve':
            opts.update(resolve_associates=True, merge_associates=True)
        elif hazard:
            opts.update(resolve_associates=True, merge_associates=False, start_depth=0)
    merging = mode in ('merge', 'merge_resolve') or (mode == 'trafo' and opts.get('merge_associates'))
    f['merge_safe'] = merging
    f['max_stmts'] = rng.choice([5, 7, 9])
    f['assoc_density'] = rng.choice([0.2, 0.3, 0.4])
    f['where'] = rng.random() < 0.5
    f['select'] = rng.random() < 0.5
    return mode, hazard, f, opts


def innermost_loki_frame(exc):
    name = '?'
    for fr in traceback.extract_tb(exc.__traceback__):
        if '/loki/' in fr.filename:
            name = fr.name
    return name


def kern_text(unit_text):
    m = re.search(r'subroutine kern\b.*?end subroutine kern', unit_text, re.I | re.S)
    return m.group(0) if m else ''


def assoc_headers(unit_text):
    """normalised ASSOCIATE statements of the kernel (continuation lines joined, blanks removed, lower case)"""
    t = re.sub(r'&\s*\n\s*&?', '', kern_text(unit_text))
    return [re.sub(r'\s+', '', ln).lower() for ln in t.splitlines() if re.match(r'\s*associate\s*\(', ln, re.I)]


def transform(case, mode, opts):
    from loki import Sourcefile
    from loki.transformations.sanitise import do_resolve_associates, do_merge_associates, AssociatesTransformation
    sf = Sourcefile.from_source(case.units)
    kern = sf['kern']
    if mode.startswith('resolve'):
        do_resolve_associates(kern, start_depth=opts['start_depth'])
    elif mode == 'merge':
        do_merge_associates(kern, max_parents=opts['max_parents'])
    elif mode == 'merge_resolve':
        do_merge_associates(kern, max_parents=opts['max_parents'])
        kern.rescope_symbols()
        do_resolve_associates(kern, start_depth=opts['start_depth'])
    else:
        AssociatesTransformation(**opts).apply(kern)
    return sf.to_fortran()


def _norm_compile_error(detail):
    m = re.search(r'Error: (.{0,120})', detail or '')
    if not m:
        return 'unknown'
    msg = re.sub(r"'[^']*'|‘[^’]*’", 'X', m.group(1))
    msg = re.sub(r'\(\d+\)', '', msg)
    return re.sub(r'[^A-Za-z]+', '-', msg).strip('-')[:60]


HAZ_KEYS = {
    'section_lb': ('associates:resolve:section-selector-bounds-not-shifted', ('differ',)),
    'partial_range': ('associates:resolve:range-subscript-replaces-bounds-of-section-selector', ('differ', 'compile')),
    'modified_operand': ('associates:resolve:selector-evaluated-at-use-not-at-entry', ('differ',)),
    'merge_dep_sub': ('associates:merge:moved-selector-subscript-uses-parent-associate-name', ('compile', 'differ', 'reparse')),
    'merge_loop_between': ('associates:merge:selector-moved-out-of-loop-that-defines-its-subscript', ('differ', 'compile')),
    'merge_expr_selector': ('associates:merge:expression-selector-has-no-scope', ('exception',)),
    'merge_all_moved': ('associates:merge:empty-ASSOCIATE-left-after-moving-all-associations', ('compile', 'reparse')),
    'merge_then_resolve': ('associates:merge-then-resolve:IndexError-top-level-associate-lost-its-parent-scope', ('exception',)),
    'merge_name_clash': ('associates:merge:moved-name-captures-host-variable-of-parent-block', ('differ', 'compile')),
}


def classify(mode, hazard, symptom, detail, features, exc=None):
    group = {'merge': 'merge', 'trafo': 'trafo', 'merge_resolve': 'merge+resolve'}.get(mode, 'resolve')
    if hazard in HAZ_KEYS and symptom in HAZ_KEYS[hazard][1] and \
            (('hazard_' + hazard) in features or hazard == 'merge_then_resolve'):
        return HAZ_KEYS[hazard][0]
    if symptom == 'exception':
        return f'associates:{group}:exception:{type(exc).__name__}@{innermost_loki_frame(exc)}'
    if symptom == 'reparse':
        return f'associates:{group}:transformed-source-does-not-reparse:{type(exc).__name__}'
    if symptom == 'compile':
        return f'associates:{group}:compile-error:{_norm_compile_error(detail)}'
    if 'run-time check reports differ' in (detail or '') or 'exit status' in (detail or ''):
        return f'associates:{group}:runtime-error-in-transformed'
    return f'associates:{group}:output-differs'


def run_case(idx, rng, tier, ctx):
    mode, hazard, flags, opts = plan(idx, rng)
    case = AssocGen(rng, flags).generate()
    feats = sorted(case.features | {'mode_' + mode} | ({'slice_' + hazard} if hazard else set()))
    res = {'sig': sighash([case.units, mode, opts]), 'nontrivial': False, 'violations': [], 'inconclusive': None,
           'features': feats, 'counters': {}}
    wd = ctx['scratch'] / f'c{idx}'
    witness = {'mode': mode, 'hazard': hazard, 'options': opts, 'source': case.units, 'driver': case.driver}

    def viol(symptom, detail, new_text=None, exc=None, extra=None):
        w = dict(witness)
        if new_text:
            w['transformed_kernel'] = kern_text(new_text)[:6000]
        if extra:
            w.update(extra)
        res['violations'].append({'key': classify(mode, hazard, symptom, detail, case.features, exc),
                                  'msg': f'[{mode} {opts}] {detail}'[:700], 'witness': w})
    try:
        try:
            new_text = transform(case, mode, opts)
        except RecursionError as e:
            viol('exception', f'RecursionError: {e}', exc=e)
            return res
        except Exception as e:  # pylint: disable=broad-except
            viol('exception', f'{type(e).__name__}: {e} :: {traceback.format_exc()[-500:]}', exc=e)
            return res
        res['counters']['transformations_applied'] = 1
        try:
            from loki import Sourcefile
            Sourcefile.from_source(new_text)
            res['counters']['reparse_ok'] = 1
        except Exception as e:  # pylint: disable=broad-except
            viol('reparse', f'{type(e).__name__}: {e}', new_text, exc=e)
        h0, h1 = assoc_headers(case.units), assoc_headers(new_text)
        res['counters']['associates_before'] = len(h0)
        res['counters']['associates_removed'] = max(len(h0) - len(h1), 0)
        moved = 0
        if len(h0) == len(h1):
            moved = sum(1 for a, b in zip(h0, h1) if a != b)
        res['counters']['associations_moved'] = moved
        res['counters']['max_depth_%d' % min(case.meta.get('max_assoc_depth', 0), 3)] = 1
        changed = h0 != h1
        d = diffexec.differential(wd, [('k.F90', case.units)], [('k.F90', new_text)], ('drv.F90', case.driver),
                                  stdins=case.stdins)
        res['counters']['program_runs'] = d['runs'] * 2
        res['counters']['sanitizer_builds'] = 2
        if d['status'] == 'orig_bad':
            res['inconclusive'] = 'generator defect: ' + d['detail'][:400]
        elif d['status'] == 'new_build_fail':
            if 'TIMEOUT' in d['detail'] and 'Error' not in d['detail']:
                res['inconclusive'] = 'compiler timed out on the transformed program'
            else:
                viol('compile', d['detail'], new_text)
        elif d['status'] == 'differ':
            if 'vs -999' in d['detail']:
                res['inconclusive'] = 'transformed program timed out'
            else:
                viol('differ', d['detail'], new_text, extra={'stdin': d.get('stdin'), 'orig_out': d.get('orig_out', '')[-600:],
                                                             'new_out': d.get('new_out', '')[-600:],
                                                             'new_err': d.get('new_err', '')[-400:]})
        else:
            res['nontrivial'] = changed
            res['sample'] = {'mode': mode, 'options': opts, 'features': feats, 'associate_statements_before': h0[:4],
                             'associate_statements_after': h1[:4]}
        if hazard and not res['violations'] and res['inconclusive'] is None:
            res['counters']['hazard_cases_without_violation'] = 1
        return res
    finally:
        shutil.rmtree(wd, ignore_errors=True)
