"""C41 -- built-in transformations leave a well-formed IR (E8 monitor after every registered transformation)."""
import shutil

from vlib import wflab, wfrun
from vlib.core import sighash

PID = 'C41'
LEVEL = 'exploration'
TECHNIQUE = 'well-formedness monitor (independent IR walk + frontend re-parse + gfortran -fsyntax-only) after every registered transformation'
LEVEL_TEXT = ('Every registered built-in transformation (71 entry points with their option spaces, in-process and through a '
              'real Scheduler on a small project) was applied to generated programs; after each application all typed '
              'symbols found by an independent walk had a scope in the chain of their unit, all names were declared / '
              'imported / host-associated, and the regenerated code was accepted by the fparser frontend and by gfortran -- '
              'apart from the listed known findings.')
LEVEL_NOTE = ('Trusted: gfortran -fsyntax-only with implicit none as the compiler; the harness list of intrinsic names. '
              'Exceptions raised by a transformation are counted, not judged (no "after" state exists). Transformations '
              'whose documented conventions the workload cannot satisfy are not registered (SCC family, data offload, '
              'field API, transpile, block-index, loop blocking, type-bound calls) or excluded by precondition per program '
              '(kernel modules that define derived types for the renaming / duplicating transformations, function kernels '
              'for hoisting and the pool allocator, range-shaped arrays for flatten_arrays without normalisation). '
              'Known mechanisms that would fire in most programs run only in 1/8 of the cases (gates in vlib/wflab.py).')
RULE = ('Case = ProgGen program (kernel kern in module kmod, helpers, internal procedures, derived type) decorated with '
        'pragmas / sequence association / dead branches / imported constants / duplicate arguments ..., and one slice '
        'of the registry (6 in-process slices, 2 scheduler slices). Each entry of the slice is applied with up to 2 '
        '(quick) or 4 (thorough) option combinations to a fresh IR; E8 (a)-(d) is evaluated after each application. '
        'Non-trivial = at least one application changed the regenerated text and all oracle parts were evaluated; '
        'distinct = hash of program text + slice.')
CASES = {'quick': 96, 'thorough': 640}
MIN_NONTRIVIAL = {'quick': 60, 'thorough': 400}
ANCHORS = ['loki/ir/expr_visitors.py', 'loki/types/scope.py', 'loki/transformations/utilities.py',
           'loki/transformations/inline/procedures.py', 'loki/transformations/extract/outline.py']
REQUIRED_REACH = ['rescope_symbols']
ASSUMPTIONS = ['gfortran 12 -fsyntax-only (implicit none in every module) is the compiler of reference',
               'a symbol without scope (scope None) does not resolve through a scope chain and is reported',
               'an exception raised by a transformation is not a well-formedness verdict (counted in features exc:*)',
               'programs are valid by construction: the untransformed program must pass E8 (a)-(d), else the case is discarded']
BUDGET_S = {'quick': 900, 'thorough': 3300}
CASE_TIMEOUT_S = 900
WATCHDOG_S = {'quick': 2400, 'thorough': 7200}

N_INPROC = 6
N_SCHED = 2
NSLOT = N_INPROC + N_SCHED

REQUIRED_COUNTERS = {'scope_checks': 20000, 'decl_checks': 20000, 'reparse_checks': 100, 'compile_checks': 100}
for _e in wflab.REGISTRY:
    REQUIRED_COUNTERS['apps:' + _e.name] = _e.min_quick
for _e in wflab.SCHED_REGISTRY:
    REQUIRED_COUNTERS['apps:' + _e.name] = _e.min_quick


def gates_for(idx):
    g = (idx // NSLOT) % 8
    # mixed-case spelling exposes many case-sensitive name comparisons (known findings): 1/8 of the cases
    return {'unroll_neg': g == 3, 'io_in_kernel': g == 5, 'allow_known': g == 7, 'mixed_case': g == 1,
            'named_cycle_exit': (idx // NSLOT) % 32 == 17}


def slice_entries(slot):
    if slot < N_INPROC:
        return wflab.REGISTRY[slot::N_INPROC], False
    return wflab.SCHED_REGISTRY[slot - N_INPROC::N_SCHED], True


def run_case(idx, rng, tier, ctx):
    slot = idx % NSLOT
    gates = gates_for(idx)
    entries, is_sched = slice_entries(slot)
    # the program is generated for the slice: decorations / helpers the entries of the slice act on are turned on
    gates.update(wflab.slice_requirements(entries, rng))
    if is_sched:
        # programs are smaller (several files are parsed by the scheduler for every application)
        gates['pflags'].setdefault('functions', rng.random() < 0.5)
        gates['pflags']['max_stmts'] = rng.choice([4, 6])
    if gates['unroll_neg']:
        gates['dflags']['unroll'] = True
    wc = wflab.make_case(rng, idx, gates)
    limit = 2 if tier == 'quick' else 4
    counters, feats = {}, set(wc.features)
    res = {'sig': sighash([wc.text, slot]), 'nontrivial': False, 'violations': [], 'inconclusive': None,
           'features': [], 'counters': counters}
    wd = ctx['scratch'] / f'c{idx}'
    shutil.rmtree(wd, ignore_errors=True)
    viol = {}
    changed_any = False
    applied = []
    try:
        ev = wfrun.Evaluator(wc, wd, counters)
        why = ev.baseline()
        if why:
            if gates['named_cycle_exit'] and 'frontend rejects' in why:
                feats.add('gated:named-exit-rejected-by-frontend')
                res['features'] = sorted(feats)
                return res
            res['inconclusive'] = 'generator defect: ' + why
            return res
        for e in entries:
            combos = [o for o in wflab.option_combos(e.space) if not e.pre or e.pre(wc, o)]
            if e.gate and not gates['allow_known']:
                n0 = len(combos)
                combos = [o for o in combos if not e.gate(wc, o)]
                counters['gated_skips'] = counters.get('gated_skips', 0) + (n0 - len(combos))
            if not combos:
                counters['precondition_skips'] = counters.get('precondition_skips', 0) + 1
                continue
            if len(combos) > limit:
                combos = rng.sample(combos, limit)
            for o in combos:
                if is_sched:
                    r = wfrun.run_scheduler(e, o, wc, rng, wd / 'sched', counters, drhook=rng.random() < 0.3)
                    if r['inconclusive']:
                        res['inconclusive'] = r['inconclusive']
                        return res
                else:
                    r = ev.apply(e, o)
                if r['status'] == 'exception':
                    feats.add(f"exc:{e.name}:{r['exc']}")
                    counters['exceptions'] = counters.get('exceptions', 0) + 1
                    continue
                if r['status'] == 'timeout':
                    res['inconclusive'] = 'compiler timeout'
                    return res
                counters['applications'] = counters.get('applications', 0) + 1
                changed_any = changed_any or r['changed']
                applied.append((e.name, o, r['changed']))
                for v in r['violations']:
                    viol.setdefault(v['key'], v)
        res['violations'] = list(viol.values())
        res['nontrivial'] = changed_any
        res['sample'] = {'slice': slot, 'decorations': sorted(wc.marks.get('blocks', [])),
                         'applied': [f'{n}{o} changed={c}' for n, o, c in applied[:6]],
                         'lines': len(wc.text.splitlines())}
        res['features'] = sorted(feats)
        return res
    finally:
        shutil.rmtree(wd, ignore_errors=True)


def finalize(agg, tier):
    exc = {k: v for k, v in agg['features'].items() if k.startswith('exc:')}
    agg['extra_coverage'] = {
        'registered_entries': len(wflab.REGISTRY) + len(wflab.SCHED_REGISTRY),
        'applications_per_entry': {k[5:]: v for k, v in sorted(agg['counters'].items()) if k.startswith('apps:')},
        'changed_per_entry': {k[8:]: v for k, v in sorted(agg['counters'].items()) if k.startswith('changed:')},
        'transformation_exceptions_observed': exc,
    }
