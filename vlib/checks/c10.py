"""C10 -- loop-range helpers and their consumers match Fortran DO-loop semantics."""
import re
import shutil

from vlib import diffexec
from vlib import symeval as se
from vlib.core import CaseTimeout
from vlib import symmon

PID = 'C10'
LEVEL = 'exploration'
TECHNIQUE = 'reference sequences from real gfortran DO loops + differential execution of unrolled code'
LEVEL_TEXT = ('get_pyrange, LoopRange.num_iterations / .normalized, iteration_number and iteration_index are run on '
              'every (start, stop, step) of an integer box (exhaustive over [-6,6]^3 quick, [-12,12]^3 thorough, '
              'step != 0; literal bounds in both literal spellings, and symbolic bounds evaluated after '
              'substitution) and compared with the sequences that a gfortran program of real DO loops with exactly '
              'those literal bounds printed; do_loop_unroll and do_constant_propagation(unroll_loops=True) are run '
              'on generated kernels and original vs transformed code is compiled (gfortran -fcheck=all, FPE traps) '
              'and executed')
LEVEL_NOTE = ('gfortran 12 -O0 is the reference for DO-loop semantics; iteration-count expressions are evaluated by '
              'the Python evaluator of vlib/symeval.py (validated against gfortran in case 0 of every run); '
              'count / index expressions are only required to agree for non-empty loops, as the property states')
RULE = ('case 0: evaluator validation. Helper cases: a chunk of the box (one (step, start) row for positive steps, '
        'one whole step value for negative steps) -- one gfortran program with one literal-bound DO loop per triple '
        'gives the reference sequences; every helper is called with frontend-style literals (Product(-1, IntLiteral)), '
        'negative IntLiterals, step=None for step 1, and with symbolic bounds. Thorough adds random triples with '
        '|values| <= 2000. Consumer cases: a kernel of 3-6 loops (single and 2-deep nests, inner bounds depending on '
        'the outer index, empty loops) recording visited indices in order; negative steps only in 1 consumer case '
        'of 8. Non-trivial = the reference program ran and at least one non-empty loop was compared (helpers) / '
        'the transformation removed at least one loop and both programs ran (consumers); distinct = the triples / '
        'the kernel text.')
BOX = {'quick': 6, 'thorough': 12}
NRANDOM = {'quick': 0, 'thorough': 120}
NCONSUMER = {'quick': 48, 'thorough': 1400}


def _layout(tier):
    b = BOX[tier]
    npos = b * (2 * b + 1)
    return {'val': 1, 'pos': npos, 'neg': b, 'rnd': NRANDOM[tier], 'cons': NCONSUMER[tier]}


CASES = {t: sum(_layout(t).values()) for t in ('quick', 'thorough')}
THOROUGH_VALIDATED = True   # full thorough tier ran to completion with exit 0 on the unchanged tree
MIN_NONTRIVIAL = {'quick': 100, 'thorough': 1200}
EXHAUSTIVE = {'quick': True, 'thorough': True}
ANCHORS = ['loki/expression/symbolic.py', 'loki/expression/symbols.py', 'loki/transformations/transform_loop.py',
           'loki/transformations/constant_propagation.py']
REQUIRED_REACH = ['get_pyrange', 'iteration_number', 'iteration_index', 'num_iterations', 'normalized',
                  'do_loop_unroll', 'do_constant_propagation']
REQUIRED_COUNTERS = {'evaluator_validated_values': 500, 'reference_loops_run': 1500, 'pyrange_compared': 3000,
                     'num_iterations_compared': 2000, 'iteration_number_compared': 4000,
                     'iteration_index_compared': 4000, 'consumer_program_runs': 40}
ASSUMPTIONS = ['gfortran 12 -O0 DO-loop behaviour is the reference semantics',
               'num_iterations / normalized / iteration_number / iteration_index are compared for non-empty loops only',
               'the value of the loop variable after the loop is not observed in consumer kernels',
               'consumer kernels avoid constructs whose printing is the subject of other properties (powers of '
               'substituted negative literals)']
BUDGET_S = {'quick': 600, 'thorough': 3000}
CASE_TIMEOUT_S = 300
MARK = -99999
# consumer kernels only index out(cnt): bounds checks + FPE traps suffice, no ASan link (3 builds per case)
CONSUMER_FFLAGS = ['-O0', '-g', '-fcheck=all', '-ffpe-trap=invalid,zero,overflow', '-finit-integer=-99999',
                   '-ffree-line-length-none', '-w']


def setup_worker(tier, ctx):
    symmon.install()


# ---------------------------------------------------------------------------------------------
# reference sequences
# ---------------------------------------------------------------------------------------------

def reference_sequences(workdir, triples):
    """One gfortran program with a literal-bound DO loop per triple; returns list of visited-value lists."""
    lines = ['program refloops', 'implicit none', 'integer :: i']
    for k, (s, e, st) in enumerate(triples):
        lines.append(f"print '(A,1X,I0)', 'L', {k}")
        lines.append(f'do i = {s}, {e}, {st}')
        lines.append("  print '(A,1X,I0)', 'V', i")
        lines.append('end do')
    lines += ['end program refloops', '']
    ok, out, msg = se.compile_and_run(workdir, '\n'.join(lines), '', name='refloops.F90')
    if not ok:
        return None, msg
    seqs = []
    for ln in out.splitlines():
        p = ln.split()
        if len(p) != 2:
            continue
        if p[0] == 'L':
            seqs.append([])
        elif p[0] == 'V' and seqs:
            seqs[-1].append(int(p[1]))
    if len(seqs) != len(triples):
        return None, f'reference program printed {len(seqs)} loops for {len(triples)} triples'
    return seqs, ''


def seq_class(truth, got):
    if got == truth:
        return None
    if len(got) < len(truth) and truth[:len(got)] == got:
        return 'missing-tail'
    if len(got) > len(truth) and got[:len(truth)] == truth:
        return 'extra-tail'
    return 'wrong-values'


def is_subsequence(small, big):
    it = iter(big)
    return all(any(x == y for y in it) for x in small)


def sign(st):
    return 'pos-step' if st > 0 else 'neg-step'


# ---------------------------------------------------------------------------------------------
# helper part
# ---------------------------------------------------------------------------------------------

def lit(v, style):
    from loki.expression import symbols as sym
    if style == 'intlit':
        return sym.IntLiteral(v)
    return se.ilit(v)


class Collector:
    def __init__(self):
        self.viol = {}
        self.cnt = {}

    def add(self, key, msg, witness):
        if key not in self.viol:
            self.viol[key] = {'key': key, 'msg': msg[:500], 'witness': dict(witness, occurrences_in_case=0)}
        self.viol[key]['witness']['occurrences_in_case'] += 1

    def inc(self, name, n=1):
        self.cnt[name] = self.cnt.get(name, 0) + n


def evalx(expr, env=None):
    v, _ = se.evaluate(expr, env or {})
    return v


def guarded(col, what, sg, triple, fn):
    """Run a helper of the real code; exceptions raised by it are violations, contract failures are keyed too."""
    try:
        return True, fn()
    except symmon.SimplifyChangedValue as exc:
        col.add(f'{what}:simplify-changed-value', f'{what}{triple}: simplify inside changed a value: {exc.report.get("why")}',
                {'triple': triple, 'report': exc.report})
    except se.Undefined as exc:
        col.add(f'{what}:{sg}:not-evaluable', f'{what}{triple}: result not evaluable ({exc})', {'triple': triple})
    except CaseTimeout:
        raise
    except Exception as exc:  # pylint: disable=broad-except
        col.add(f'{what}:{sg}:exception:{type(exc).__name__}', f'{what}{triple} raised {type(exc).__name__}: {exc}',
                {'triple': triple})
    return False, None


def check_triple(col, triple, truth, style, sym_exprs):
    from loki.expression import symbols as sym
    from loki.expression import symbolic as S
    s, e, st = triple
    sg = sign(st)
    step_node = None if (st == 1 and style == 'nostep') else lit(st, 'intlit' if style == 'intlit' else 'frontend')
    sty = 'intlit' if style == 'intlit' else 'frontend'
    lr = sym.LoopRange((lit(s, sty), lit(e, sty), step_node))
    n = len(truth)
    iv, kv = se.ivar('iv'), se.ivar('kv')

    # get_pyrange on literal bounds
    ok, got = guarded(col, 'pyrange', sg, triple, lambda: list(S.get_pyrange(lr)))
    if ok:
        col.inc('pyrange_compared')
        c = seq_class(truth, got)
        if c:
            col.add(f'pyrange:{sg}:{c}', f'get_pyrange({s},{e},{st}) = {got[:12]} but the DO loop visits {truth[:12]}',
                    {'triple': triple, 'style': style, 'get_pyrange': got[:40], 'fortran': truth[:40]})
    if n == 0:
        col.inc('empty_loops')
        return
    col.inc('nonempty_loops')

    # num_iterations, normalized
    ok, got = guarded(col, 'num_iterations', sg, triple, lambda: evalx(lr.num_iterations))
    if ok:
        col.inc('num_iterations_compared')
        if got != n:
            col.add(f'num_iterations:{sg}:{"too-small" if got < n else "too-large"}',
                    f'LoopRange({s},{e},{st}).num_iterations = {got}, the DO loop runs {n} times',
                    {'triple': triple, 'expr': se.render(lr.num_iterations), 'value': got, 'fortran': n})

    def norm():
        nr = lr.normalized
        st_ok = nr.step is None or evalx(nr.step) == 1
        return evalx(nr.start), evalx(nr.stop), st_ok, list(S.get_pyrange(nr))
    ok, got = guarded(col, 'normalized', sg, triple, norm)
    if ok:
        col.inc('normalized_compared')
        if got[0] != 1 or got[1] != n or not got[2] or got[3] != list(range(1, n + 1)):
            col.add(f'normalized:{sg}:wrong-range',
                    f'LoopRange({s},{e},{st}).normalized = {got[0]}:{got[1]} (pyrange {got[3][:8]}), expected 1:{n}',
                    {'triple': triple, 'normalized': got, 'expected_count': n})

    # iteration_number / iteration_index: symbolic index evaluated at each visited value, literal index at the ends
    mon = symmon.MON
    envs = [{'iv': v, 'kv': k} for k, v in list(enumerate(truth, 1))[:6]]
    mon.begin(envs)
    try:
        ok1, inum = guarded(col, 'iteration_number', sg, triple, lambda: S.iteration_number(iv, lr))
        ok2, iidx = guarded(col, 'iteration_index', sg, triple, lambda: S.iteration_index(kv, lr))
        ok3, rt = guarded(col, 'iteration_index', sg, triple, lambda: S.iteration_index(S.iteration_number(iv, lr), lr))
    finally:
        col.inc('simplify_contract_evaluations', mon.end()['evaluations'])
    for k, v in enumerate(truth, 1):
        env = {'iv': v, 'kv': k}
        if ok1:
            okx, got = guarded(col, 'iteration_number', sg, triple, lambda: evalx(inum, env))
            if okx:
                col.inc('iteration_number_compared')
                if got != k:
                    col.add(f'iteration_number:{sg}:wrong', f'iteration_number(i={v}, ({s},{e},{st})) = {got}, '
                            f'but {v} is iteration {k}', {'triple': triple, 'expr': se.render(inum), 'i': v,
                                                          'value': got, 'fortran': k})
        if ok2:
            okx, got = guarded(col, 'iteration_index', sg, triple, lambda: evalx(iidx, env))
            if okx:
                col.inc('iteration_index_compared')
                if got != v:
                    col.add(f'iteration_index:{sg}:wrong', f'iteration_index(k={k}, ({s},{e},{st})) = {got}, '
                            f'but iteration {k} visits {v}', {'triple': triple, 'expr': se.render(iidx), 'k': k,
                                                              'value': got, 'fortran': v})
        if ok3:
            okx, got = guarded(col, 'iteration_index', sg, triple, lambda: evalx(rt, env))
            if okx:
                col.inc('roundtrip_compared')
                if got != v:
                    col.add(f'iteration_roundtrip:{sg}:wrong', f'iteration_index(iteration_number({v})) = {got} for '
                            f'({s},{e},{st})', {'triple': triple, 'expr': se.render(rt), 'i': v, 'value': got})
    # literal index at both ends
    for k, v in {(1, truth[0]), (n, truth[-1])}:
        mon.begin([{}])
        try:
            okx, got = guarded(col, 'iteration_number', sg, triple,
                               lambda: evalx(S.iteration_number(lit(v, sty), lr)))
            if okx:
                col.inc('iteration_number_compared')
                if got != k:
                    col.add(f'iteration_number:{sg}:wrong-literal', f'iteration_number({v}, ({s},{e},{st})) = {got}, '
                            f'expected {k}', {'triple': triple, 'i': v, 'value': got, 'fortran': k})
            okx, got = guarded(col, 'iteration_index', sg, triple,
                               lambda: evalx(S.iteration_index(lit(k, sty), lr)))
            if okx:
                col.inc('iteration_index_compared')
                if got != v:
                    col.add(f'iteration_index:{sg}:wrong-literal', f'iteration_index({k}, ({s},{e},{st})) = {got}, '
                            f'expected {v}', {'triple': triple, 'k': k, 'value': got, 'fortran': v})
        finally:
            col.inc('simplify_contract_evaluations', mon.end()['evaluations'])

    # symbolic bounds: expressions built once per case, evaluated at this triple
    for tag, ex in sym_exprs.items():
        for k, v in ((1, truth[0]), (n, truth[-1]), ((n + 1) // 2, truth[(n + 1) // 2 - 1])):
            env = {'ls': s, 'le': e, 'lt': st, 'iv': v, 'kv': k}
            if tag.endswith('nostep'):
                if st != 1:
                    continue
            okx, got = guarded(col, 'symbolic-' + tag.split('/')[0], sg, triple, lambda: evalx(ex, env))
            if not okx:
                continue
            what = tag.split('/')[0]
            want = {'num_iterations': n, 'normalized_stop': n, 'iteration_number': k, 'iteration_index': v}[what]
            col.inc('symbolic_bounds_compared')
            col.inc(what + '_compared' if what in ('num_iterations', 'iteration_number', 'iteration_index') else
                    'normalized_compared')
            if got != want:
                col.add(f'{what}:{sg}:wrong-symbolic', f'{what} with symbolic bounds = {got} at ({s},{e},{st}) '
                        f'[i={v}, k={k}], expected {want}', {'triple': triple, 'expr': se.render(ex), 'env': env,
                                                             'value': got, 'expected': want})


def symbolic_exprs(col):
    """Helper expressions for LoopRange(ls, le, lt) and LoopRange(ls, le) built by the real code."""
    from loki.expression import symbols as sym
    from loki.expression import symbolic as S
    ls, le, lt, iv, kv = (se.ivar(n) for n in ('ls', 'le', 'lt', 'iv', 'kv'))
    out = {}
    envs = [{'ls': 2, 'le': 11, 'lt': 3, 'iv': 8, 'kv': 3}, {'ls': 5, 'le': -6, 'lt': -2, 'iv': -3, 'kv': 5},
            {'ls': -4, 'le': 4, 'lt': 1, 'iv': 0, 'kv': 5}]
    for tag, lr in (('step', sym.LoopRange((ls, le, lt))), ('nostep', sym.LoopRange((ls, le)))):
        symmon.MON.begin(envs if tag == 'step' else [envs[2]])
        try:
            for what, fn in (('num_iterations', lambda: lr.num_iterations),
                             ('normalized_stop', lambda: lr.normalized.stop),
                             ('iteration_number', lambda: S.iteration_number(iv, lr)),
                             ('iteration_index', lambda: S.iteration_index(kv, lr))):
                ok, ex = guarded(col, 'symbolic-' + what, 'any-step', ('ls', 'le', 'lt'), fn)
                if ok:
                    out[f'{what}/{tag}'] = ex
        finally:
            col.inc('simplify_contract_evaluations', symmon.MON.end()['evaluations'])
    return out


def helper_case(idx, rng, tier, ctx, triples, label, exhaustive_part):
    wd = ctx['scratch'] / f'ref{idx}'
    seqs, msg = reference_sequences(wd, triples)
    shutil.rmtree(wd, ignore_errors=True)
    res = {'sig': f'{label}', 'nontrivial': False, 'violations': [], 'inconclusive': None,
           'features': ['helpers', label.split(':')[0]], 'counters': {}}
    if seqs is None:
        res['inconclusive'] = 'reference DO-loop program failed: ' + msg
        return res
    col = Collector()
    col.inc('reference_loops_run', len(triples))
    if exhaustive_part:
        col.inc('box_triples_covered', len(triples))
    sx = symbolic_exprs(col)
    for triple, truth in zip(triples, seqs):
        styles = ['frontend', 'intlit'] + (['nostep'] if triple[2] == 1 else [])
        for style in styles:
            check_triple(col, triple, truth, style, sx if style == 'frontend' else {})
    res['violations'] = list(col.viol.values())
    res['counters'] = col.cnt
    res['nontrivial'] = col.cnt.get('nonempty_loops', 0) > 0
    ex = next(((t, s) for t, s in zip(triples, seqs) if len(s) > 1), (triples[0], seqs[0]))
    res['sample'] = {'chunk': label, 'triples': len(triples), 'example_triple': ex[0], 'fortran_visits': ex[1][:12],
                     'symbolic_expressions': {k: se.render(v) for k, v in list(sx.items())[:4]}}
    res['features'] += [sign(triples[0][2])] + (['empty-loops'] if col.cnt.get('empty_loops') else [])
    return res


# ---------------------------------------------------------------------------------------------
# consumer part
# ---------------------------------------------------------------------------------------------

def gen_kernel(rng, allow_negative):
    """Kernel with literal-bound loops that record the visited indices in order."""
    nloops = rng.randint(3, 6)
    body, meta = [], []
    total = 0
    for _ in range(nloops):
        for _try in range(50):
            st = rng.choice([1, 1, 1, 2, 3, 4, 5])
            if allow_negative and rng.random() < 0.6:
                st = -rng.choice([1, 2, 3, 4])
            s = rng.randint(-8, 12)
            q = rng.random()
            if q < 0.15:
                e = s - (1 if st > 0 else -1) * rng.randint(1, 4)      # empty loop
            elif q < 0.25:
                e = s                                                   # single trip
            else:
                e = s + (1 if st > 0 else -1) * rng.randint(0, 14)
            trips = max(0, (e - s + st) // st)
            if trips <= 12:
                break
        nest = rng.random() < 0.35
        explicit_one = st != 1 or rng.random() < 0.4
        hdr = f'do i = {s}, {e}' + (f', {st}' if explicit_one else '')
        meta.append({'start': s, 'stop': e, 'step': st, 'nest': nest})
        body.append('  !$loki loop-unroll')
        body.append('  ' + hdr)
        if nest:
            ist = rng.choice([1, 1, 2]) if not allow_negative else rng.choice([1, 2, -1, -2])
            dep = rng.random() < 0.4
            if ist > 0:
                js, je = ('i' if dep else str(rng.randint(-2, 2))), str(rng.randint(0, 4))
            else:
                js, je = str(rng.randint(0, 4)), ('i' if dep else str(rng.randint(-2, 2)))
            if dep and abs(s) + abs(e) > 20:
                js, je = '1', '3'
            body.append(f'    do j = {js}, {je}' + (f', {ist}' if ist != 1 else ''))
            body += ['      cnt = cnt + 1', '      out(cnt) = j + 1000*i', '      acc = mod(j + i + acc*3, 10007)',
                     '    end do']
            meta[-1]['inner'] = (js, je, ist)
            total += trips * 16
        else:
            body += ['    cnt = cnt + 1', '    out(cnt) = i', '    acc = mod(i + acc*3, 10007)']
            total += trips
        body.append('  end do')
        body += ['  cnt = cnt + 1', f'  out(cnt) = {MARK}']
        total += 1
    size = total + 50
    src = '\n'.join(['module kmod', 'implicit none', 'contains', 'subroutine kern(out, cnt, acc)',
                     f'  integer, intent(inout) :: out({size})', '  integer, intent(inout) :: cnt, acc',
                     '  integer :: i, j'] + body + ['end subroutine kern', 'end module kmod', ''])
    drv = '\n'.join(['program drv', 'use kmod', 'implicit none', f'integer :: out({size}), cnt, acc, k',
                     'out = 0', 'cnt = 0', 'acc = 1', 'call kern(out, cnt, acc)',
                     "print '(A,1X,I0,1X,I0)', 'S', cnt, acc", 'do k = 1, cnt', "  print '(A,1X,I0)', 'V', out(k)",
                     'end do', 'end program drv', ''])
    return src, drv, meta


def parse_out(text):
    segs, cur, head = [], [], None
    for ln in text.splitlines():
        p = ln.split()
        if len(p) >= 2 and p[0] == 'S':
            head = (int(p[1]), int(p[2]))
        elif len(p) == 2 and p[0] == 'V':
            v = int(p[1])
            if v == MARK:
                segs.append(cur)
                cur = []
            else:
                cur.append(v)
    return head, segs, cur


def count_loops(text):
    return len(re.findall(r'^\s*do\s+\w+\s*=', text, flags=re.I | re.M))


def consumer_case(idx, rng, tier, ctx, k):
    from loki import Sourcefile
    from loki.transformations.transform_loop import do_loop_unroll
    from loki.transformations.constant_propagation import do_constant_propagation
    allow_negative = k % 8 == 3
    src, drv, meta = gen_kernel(rng, allow_negative)
    feats = ['consumers', 'neg-step-loops' if allow_negative else 'pos-step-loops']
    if any(m['nest'] for m in meta):
        feats.append('nested-loops')
    if any('inner' in m and 'i' in m['inner'][:2] for m in meta):
        feats.append('inner-bound-depends-on-outer-index')
    res = {'sig': src, 'nontrivial': False, 'violations': [], 'inconclusive': None, 'features': feats,
           'counters': {}}
    cnt = {'consumer_program_runs': 0, 'consumer_builds': 0, 'loops_in_kernels': count_loops(src)}
    wd = ctx['scratch'] / f'cons{idx}'
    try:
        try:
            oexe = diffexec.build(wd / 'orig', [('k.F90', src), ('drv.F90', drv)], fflags=CONSUMER_FFLAGS)
        except diffexec.BuildError as exc:
            res['inconclusive'] = f'generator defect: original does not build: {exc}'[:400]
            return res
        ro = diffexec.run(oexe)
        cnt['consumer_builds'] += 1
        cnt['consumer_program_runs'] += 1
        if ro['rc'] != 0 or ro['san']:
            res['inconclusive'] = f"generator defect: original rc={ro['rc']} {ro['san'][:2]} {ro['err'][-200:]}"
            return res
        ohead, osegs, otail = parse_out(ro['out'])
        removed_any = False
        for name, trafo in (('unroll', lambda r: do_loop_unroll(r, warn_iterations_length=False)),
                            ('constprop-unroll', lambda r: do_constant_propagation(r, unroll_loops=True))):
            symmon.MON.begin(None, auto=True)
            try:
                sf = Sourcefile.from_source(src)
                trafo(sf['kern'])
                new = sf.to_fortran()
            except CaseTimeout:
                raise
            except Exception as exc:  # pylint: disable=broad-except
                res['violations'].append({'key': f'{name}:exception:{type(exc).__name__}',
                                          'msg': f'{name} raised {type(exc).__name__}: {exc}'[:400],
                                          'witness': {'source': src}})
                continue
            finally:
                st = symmon.MON.end()
                cnt['simplify_calls_inside_transformations'] = cnt.get('simplify_calls_inside_transformations', 0) + st['calls']
            nloops_new = count_loops(new)
            cnt[f'{name}_loops_removed'] = cnt.get(f'{name}_loops_removed', 0) + cnt['loops_in_kernels'] - nloops_new
            removed_any = removed_any or nloops_new < cnt['loops_in_kernels']
            try:
                nexe = diffexec.build(wd / name, [('k.F90', new), ('drv.F90', drv)], fflags=CONSUMER_FFLAGS)
            except diffexec.BuildError as exc:
                m = re.search(r'Error: (.{0,60})', str(exc))
                why = re.sub(r'[^A-Za-z ]+', '', m.group(1)).strip().replace(' ', '-')[:40] if m else 'unknown'
                res['violations'].append({'key': f'{name}:transformed-code-does-not-compile:{why}',
                                          'msg': str(exc)[-400:], 'witness': {'source': src, 'transformed': new}})
                continue
            rn = diffexec.run(nexe)
            cnt['consumer_builds'] += 1
            cnt['consumer_program_runs'] += 1
            if rn['rc'] == -999:
                res['inconclusive'] = 'transformed program timed out'
                continue
            nhead, nsegs, ntail = parse_out(rn['out'])
            if rn['rc'] == 0 and not rn['san'] and (nhead, nsegs, ntail) == (ohead, osegs, otail):
                cnt['consumer_equal'] = cnt.get('consumer_equal', 0) + 1
                continue
            # classify per loop
            keys = {}
            for li, m in enumerate(meta):
                t = osegs[li] if li < len(osegs) else []
                g = nsegs[li] if li < len(nsegs) else []
                c = seq_class(t, g)
                if c:
                    sg = sign(m['step'])
                    if m['nest']:
                        # a nest: classify by any negative step in it and by dropped / added iterations
                        if m.get('inner') and m['inner'][2] < 0:
                            sg = 'neg-step'
                        c = 'nest-' + ('missing-iterations' if is_subsequence(g, t) else
                                       ('extra-iterations' if is_subsequence(t, g) else 'wrong-values'))
                    keys.setdefault(f'{name}:{sg}:{c}', (m, t, g))
            if not keys:
                keys[f'{name}:output-differs-outside-loops'] = (None, ro['out'][-300:], rn['out'][-300:] + rn['err'][-300:])
            for key, (m, t, g) in keys.items():
                res['violations'].append({
                    'key': key, 'msg': f'{name}: loop {m} visits {t[:14]} in the original but {g[:14]} after the '
                                       f'transformation'[:500],
                    'witness': {'source': src, 'transformed': new, 'loop': m, 'original_visits': t, 'transformed_visits': g,
                                'rc': rn['rc'], 'sanitizer': rn['san'][:3]}})
        res['counters'] = cnt
        res['nontrivial'] = removed_any and res['inconclusive'] is None
        res['sample'] = {'loops': [(m['start'], m['stop'], m['step'], m.get('inner')) for m in meta],
                         'original_visits_per_loop': [s[:8] for s in osegs], 'kernel_head': src.splitlines()[7:12]}
        return res
    finally:
        shutil.rmtree(wd, ignore_errors=True)


# ---------------------------------------------------------------------------------------------

def validation_case(idx, rng, tier, ctx):
    r = se.validate_against_gfortran(ctx['scratch'] / f'val{idx}', rng, ntrees=150, gen_opts={'reals': False})
    res = {'sig': f'validation-{idx}', 'nontrivial': False, 'violations': [], 'inconclusive': None,
           'features': ['evaluator-validation'],
           'counters': {'evaluator_validated_values': r['compared'], 'evaluator_mismatches': len(r['mismatches'])}}
    if not r['ok']:
        res['inconclusive'] = 'evaluator validation against gfortran failed: ' + (r['detail'] or str(r['mismatches'][:2]))
    return res


def run_case(idx, rng, tier, ctx):
    lay = _layout(tier)
    b = BOX[tier]
    if idx < lay['val']:
        return validation_case(idx, rng, tier, ctx)
    k = idx - lay['val']
    if k < lay['pos']:
        st = k // (2 * b + 1) + 1
        s = k % (2 * b + 1) - b
        triples = [(s, e, st) for e in range(-b, b + 1)]
        return helper_case(idx, rng, tier, ctx, triples, f'box:step={st}:start={s}', True)
    k -= lay['pos']
    if k < lay['neg']:
        st = -(k + 1)
        triples = [(s, e, st) for s in range(-b, b + 1) for e in range(-b, b + 1)]
        return helper_case(idx, rng, tier, ctx, triples, f'box:step={st}', True)
    k -= lay['neg']
    if k < lay['rnd']:
        neg = k % 10 == 0
        triples = []
        while len(triples) < 40:
            st = rng.choice([1, 2, 3, 7, 10, 25, 100, 999])
            st = -st if neg else st
            s = rng.randint(-2000, 2000)
            e = s + (1 if st > 0 else -1) * rng.randint(-3 * abs(st), 24 * abs(st))
            triples.append((s, e, st))
        return helper_case(idx, rng, tier, ctx, triples, f'random-large:{"neg" if neg else "pos"}:{idx}', False)
    k -= lay['rnd']
    return consumer_case(idx, rng, tier, ctx, k)


def finalize(agg, tier):
    c = agg['counters']
    if c.get('evaluator_mismatches', 0) > 0:
        agg.setdefault('extra_inconclusive', []).append(
            f"evaluator disagreed with gfortran on {c['evaluator_mismatches']} values: oracle not trusted")
    b = BOX[tier]
    full = (2 * b + 1) ** 2 * 2 * b
    covered = c.get('box_triples_covered', 0)
    agg['extra_coverage'] = {'box': f'[-{b},{b}]^3, step != 0', 'box_triples': full, 'box_triples_covered': covered,
                             'exhaustive_scope': 'helper functions on literal bounds over the box; consumers sampled'}
    import os
    if not os.environ.get('VERIF_CASES') and covered != full:
        agg.setdefault('extra_inconclusive', []).append(f'box not covered: {covered} of {full} triples')
