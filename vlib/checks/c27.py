"""C27 -- loop_carried_dependencies / read_after_write_vars report every actual dependence."""
from vlib import dfcheck

PID = 'C27'
LEVEL = 'exploration'
TECHNIQUE = 'event-log monitor: tracing IR interpreter (validated against gfortran) vs dependency queries'
LEVEL_TEXT = ('Every generated routine is executed by a tracing interpreter of the Loki IR on 4 inputs. For every '
              'activation of every DO loop the monitor tracks which element was last written in which iteration and '
              'demands that a variable read in a later iteration than it was written is in '
              'loop_carried_dependencies(loop). For up to 8 inspection points per routine (statements of the routine '
              'body and of loop bodies, as loop fission uses them) it demands that a variable whose value was written by '
              'a statement before the point and read by a statement at/after it is in read_after_write_vars(ir, node). '
              'Exploration over randomly generated routines, not exhaustive.')
LEVEL_NOTE = ('The interpreter is only a recorder: its final state must equal the output of the same routine compiled '
              'with gfortran -fcheck=all on every input, otherwise the routine is discarded as inconclusive. Loop '
              'induction variables are not demanded. "Before"/"at or after" is decided by the position of the executing '
              'statement in the inspected IR; only dependences whose writer is textually before and whose reader is '
              'textually at/after the point are demanded. The consumers (loop-fission warning, outline_region) are not '
              'monitored.')
RULE = ('each case index = 4 generated routines (vlib/dfgen.py, see C26), compiled into one program with gfortran and '
        'executed by vlib/irinterp.py on 4 inputs; inspection points are chosen from the generator\'s statement table '
        'and mapped to IR nodes by source line. Shapes / inspection points that trigger a known mechanism are used '
        'only in a ~25% slice of the indices. Non-trivial = at least one routine validated against gfortran and >= 1 '
        'observed loop-carried or read-after-write dependence; distinct = hash of the generated sources.')
NSUB = 4
CASES = {'quick': 125, 'thorough': 2000}
MIN_NONTRIVIAL = {'quick': 50, 'thorough': 500}
ANCHORS = ['loki/analyse/dataflow_analysis.py']
REQUIRED_REACH = ['loop_carried_dependencies', 'read_after_write_vars', 'visit_Loop', 'visit_Conditional']
REQUIRED_COUNTERS = {'lcd_carried': 500, 'raw_deps': 200, 'raw_tasks': 100, 'lcd_loops': 200, 'routines_validated': 8}
ASSUMPTIONS = ['gfortran 12 -O0 -fcheck=all is the reference semantics used to validate the interpreter',
               'generated routines are well-defined by construction',
               'a dependence exists when the very element written is read later without an intervening write to it']
BUDGET_S = {'quick': 500, 'thorough': 5400}
CASE_TIMEOUT_S = 240

CHECKS = ('lcd',)
HZ_CHOICES = [('kill',), ('kill', 'raw_kill'), ('raw_kill',), ('raw_kill',), ('noint', 'raw_kill'), ('noint',),
              ('zero_trip', 'kill', 'raw_kill'), ('assoc_expr', 'raw_kill')]


def pick_hz(rng, idx):
    if rng.random() < 0.75:
        return {}
    return {k: True for k in rng.choice(HZ_CHOICES)}


def run_case(idx, rng, tier, ctx):
    return dfcheck.run_index(idx, rng, tier, ctx, PID, CHECKS, NSUB, pick_hz, raw=True)


def finalize(agg, tier):
    dfcheck.finalize_rate(agg)
