"""C02 -- read-write of generated Fortran is a fixpoint (text and structure)."""
import re
from pathlib import Path
from vlib.fgenlab import ProgGen
from vlib.core import sighash, REPO
from vlib import irstruct

PID = 'C02'
LEVEL = 'exploration'
TECHNIQUE = 'metamorphic fixpoint monitor: write/read/write of the real frontend+backend, independent structural IR comparison'
LEVEL_TEXT = ('Every case runs the real FP frontend and Fortran backend three times (t1=write(parse(src)), t2=write(parse(t1)), '
              't3=write(parse(t2))) and requires t2==t1, t3==t2 and structural identity (independent dataclass/init-arg walk, '
              'ignoring source locations) of the IR that was written and the IR that was re-read; held on the generated programs '
              'and repository sources explored, not a proof for all programs.')
LEVEL_NOTE = 'structural comparison ignores blank lines at the very end of a body, Source objects, scopes and symbol-table contents; names compared case-insensitively'
RULE = ('3 of 4 cases: E1 feature-flag generated modules; 1 of 4: Fortran sources shipped in the repository that the FP frontend '
        'accepts (cycled by index). Non-trivial = parsed and produced >= 5 IR nodes; distinct = hash of the input text.')
CASES = {'quick': 224, 'thorough': 4000}
MIN_NONTRIVIAL = {'quick': 80, 'thorough': 1000}
ANCHORS = ['loki/backend/fgen.py', 'loki/frontend/fparser.py']
REQUIRED_REACH = ['visit_Assignment']
ASSUMPTIONS = ['texts are compared after removing newlines at the very end of the file (a trailing blank line of the input is not re-emitted)',
               'comparison starts from the IR of the first parse; source text normalisation by the first write is not judged']
BUDGET_S = {'quick': 400, 'thorough': 3000}
CASE_TIMEOUT_S = 180

_corpus = None


def corpus():
    global _corpus
    if _corpus is None:
        files = []
        for pat in ('loki/**/sources/**/*.[fF]90', 'example/**/*.[fF]90', 'lint_rules/tests/**/*.[fF]90',
                    'loki/**/sources/**/*.[fF]', 'scripts/**/*.[fF]90'):
            files += sorted(REPO.glob(pat))
        _corpus = [f for f in dict.fromkeys(files) if f.stat().st_size < 60000]
    return _corpus


def diff_class(d):
    """mechanism class of a structural difference path: node kinds along the path, indices removed"""
    if d is None:
        return ''
    path = d.split(':')[0]
    parts = [re.sub(r'\[\d+\]', '', p) for p in path.split('/') if p]
    parts = [p for p in parts if p]
    return '/'.join(parts[-3:])[:80]


_CPP_TOKENS = ('__FILE__', '__FILENAME__', '__DATE__', '__LINE__', '__VERSION__', '@PROCESS')


def text_diff_class(a, b):
    la, lb = a.splitlines(), b.splitlines()
    for i, (x, y) in enumerate(zip(la, lb)):
        if x != y:
            if any(t in x or t in y for t in _CPP_TOKENS):
                return 'cpp-macro-token-in-text', x.strip()[:150], y.strip()[:150]
            if not x.strip() or not y.strip():
                longer = la if len(la) >= len(lb) else lb
                nxt = next((l for l in longer[i:] if l.strip()), '')
                kw = re.match(r'\s*([A-Za-z_]+)', nxt)
                return 'blank-line-count-before-' + (kw.group(1).upper() if kw else 'EOF'), x.strip()[:150], y.strip()[:150]
            kw = re.match(r'\s*([A-Za-z_]+)', x)
            return (kw.group(1).upper() if kw else 'line'), x.strip()[:150], y.strip()[:150]
    return 'length', f'{len(la)} lines', f'{len(lb)} lines'


def run_case(idx, rng, tier, ctx):
    from loki import Sourcefile
    res = {'nontrivial': False, 'violations': [], 'inconclusive': None, 'counters': {}, 'features': []}
    if idx % 4 == 3 and corpus():
        path = corpus()[(idx // 4 + 61 * ctx["seed"]) % len(corpus())]
        src = path.read_text(errors='replace')
        origin = str(path.relative_to(REPO))
        res['features'] = ['corpus']
    else:
        flags = {'io_in_kernel': rng.random() < 0.4, 'mixed_case': rng.random() < 0.3, 'overlap': True,
                 'long_expr': rng.random() < 0.4, 'kinds_module': rng.random() < 0.7,
                 'max_stmts': rng.choice([6, 12, 20]), 'double_not': idx % 16 == 5,
                 'named_cycle_exit': False, 'associate_expr_complex': False,
                 'named_if': rng.random() < 0.5, 'quoted_strings': rng.random() < 0.5}
        case = ProgGen(rng, flags).generate()
        src = case.units
        origin = 'generated'
        res['features'] = sorted(case.features)
    res['sig'] = sighash(src)
    try:
        sf0 = Sourcefile.from_source(src)
        t1 = sf0.to_fortran()
    except Exception as e:  # pylint: disable=broad-except
        if origin != 'generated':
            res['counters']['corpus_rejected'] = 1
            return res      # frontend does not accept this file: out of scope
        # generated programs must parse: this is C01's business, count here as inconclusive-free trivial case
        res['counters']['generated_rejected'] = 1
        return res
    nnodes = t1.count('\n')
    try:
        sf1 = Sourcefile.from_source(t1)
        t2 = sf1.to_fortran()
        sf2 = Sourcefile.from_source(t2)
        t3 = sf2.to_fortran()
    except Exception as e:  # pylint: disable=broad-except
        res['violations'].append({'key': f'fixpoint:reparse-raises:{type(e).__name__}', 'msg': f'{origin}: {type(e).__name__}: {e}',
                                  'witness': {'origin': origin, 'source': src[:6000], 'written': t1[:6000]}})
        return res
    res['counters'] = {'roundtrips': 3, 'ir_comparisons': 2}
    res['nontrivial'] = nnodes >= 5
    t1, t2, t3 = t1.rstrip('\n'), t2.rstrip('\n'), t3.rstrip('\n')
    if t2 != t1 or t3 != t2:
        a, b = (t1, t2) if t2 != t1 else (t2, t3)
        kw, x, y = text_diff_class(a, b)
        res['violations'].append({'key': f'fixpoint:text-drift:{kw}', 'msg': f'{origin}: {x!r} -> {y!r}',
                                  'witness': {'origin': origin, 'source': src[:6000], 't1': a[:8000], 't2': b[:8000]}})
        return res
    s0, s1, s2 = (irstruct.snap(x.ir, keep_trailing_blank=False) for x in (sf0, sf1, sf2))
    d = irstruct.first_diff(s1, s2)
    if d:
        res['violations'].append({'key': f'fixpoint:ir-drift:{diff_class(d)}', 'msg': f'{origin}: {d[:400]}',
                                  'witness': {'origin': origin, 'source': src[:6000], 'written': t1[:6000]}})
        return res
    d = irstruct.first_diff(s0, s1)
    if d:
        res['violations'].append({'key': f'fixpoint:reread-ir-differs:{diff_class(d)}', 'msg': f'{origin}: {d[:400]}',
                                  'witness': {'origin': origin, 'source': src[:6000], 'written': t1[:6000]}})
        return res
    res['sample'] = {'origin': origin, 'lines_written': nnodes, 'features': res['features'][:12]}
    return res
