#!/venv/bin/python
"""Regenerate MANIFEST.json from the check modules present in vlib/checks."""
import importlib
import json
import sys
from pathlib import Path

ROOT = Path(__file__).resolve().parent.parent
sys.path.insert(0, str(ROOT))
sys.path.insert(1, str(ROOT / '.deps'))
sys.path.insert(2, '/repo/lint_rules')

props = [json.loads(l) for l in (ROOT / 'properties.jsonl').read_text().splitlines() if l.strip()]
na_file = ROOT / 'tools' / 'not_applicable.json'
na_reasons = json.loads(na_file.read_text()) if na_file.exists() else {}

ready_file = ROOT / 'tools' / 'ready.txt'
ready = set(ready_file.read_text().split()) if ready_file.exists() else None
checks, na = [], []
for p in props:
    pid = p['id']
    modfile = ROOT / 'vlib' / 'checks' / f'{pid.lower()}.py'
    if not modfile.exists() or pid in na_reasons or (ready is not None and pid not in ready):
        na.append({'property_id': pid, 'reason': na_reasons.get(pid, 'check not built yet (work in progress; see DESIGN.md section 4)')})
        continue
    try:
        mod = importlib.import_module(f'vlib.checks.{pid.lower()}')
        _ = (mod.LEVEL, mod.RULE, mod.CASES)
    except Exception as e:  # module not finished yet
        print('skipping', pid, type(e).__name__, e)
        na.append({'property_id': pid, 'reason': na_reasons.get(pid, 'check not built yet (work in progress; see DESIGN.md section 4)')})
        continue
    checks.append({
        'property_id': pid,
        'quick_cmd': f'./check {pid} --tier quick',
        'thorough_cmd': f'./check {pid} --tier thorough',
        'evidence_file': f'/verif/evidence/{pid}.json',
        'replay_cmd_template': f'./check {pid} --replay {{path}}',
        'engine': getattr(mod, 'ENGINE', 'vlib'),
        'level_claimed': {
            'category': mod.LEVEL,
            'text': getattr(mod, 'LEVEL_TEXT', mod.RULE),
            'design_ref': f'DESIGN.md section 4, {pid}',
        },
        'level_note': getattr(mod, 'LEVEL_NOTE', '; '.join(getattr(mod, 'ASSUMPTIONS', [])) or 'see DESIGN.md'),
        'technique': getattr(mod, 'TECHNIQUE', 'runtime monitoring: oracle over observed executions of the real code'),
    })

hooks_file = ROOT / 'tools' / 'hooks.json'
hooks = json.loads(hooks_file.read_text()) if hooks_file.exists() else {
    'guard': 'LOKI_VERIF', 'enable': 'export LOKI_VERIF=1 (checks set it themselves); no hook committed yet',
    'baseline_off_cmd': 'cd /repo && env -u LOKI_VERIF /venv/bin/python -m pytest -ra -q -p no:cacheprovider --timeout=900 --continue-on-collection-errors',
    'source_commits': [], 'add_only': True}

manifest = {
    'version': 1,
    'setup_cmd': '/venv/bin/pip install -q --no-index --find-links /opt/veriftools/wheels --target /verif/.deps icontract deal && ./check --selftest',
    'hooks': hooks,
    'engines': [
        {'name': 'core', 'path': 'vlib/core.py', 'serves_properties': [c['property_id'] for c in checks],
         'kind_free_text': 'case sharding over 16 worker subprocesses, three-valued verdicts, known-finding matching, evidence, replay, sys.monitoring reach counters'},
        {'name': 'fgenlab+diffexec', 'path': 'vlib/fgenlab.py', 'serves_properties': [],
         'kind_free_text': 'feature-flag Fortran program generator and sanitizer-enabled differential executor (gfortran -fcheck=all, ASan, UBSan, FPE traps)'},
    ],
    'checks': checks,
    'not_applicable': na,
    'notes': 'Exit codes: 0 held on what was observed, 1 VIOLATION, 2 INCONCLUSIVE (monitor not reached / too few non-trivial cases). Known findings: known_findings/<id>.json.',
}
(ROOT / 'MANIFEST.json').write_text(json.dumps(manifest, indent=1) + '\n')
print(f'{len(checks)} checks, {len(na)} not_applicable')
