"""C38 -- temporary hoisting and stack / pool allocation preserve behaviour, with enough storage on every path."""
# pylint: disable=broad-except,too-many-locals,too-many-branches
import shutil
from vlib import scclab

PID = 'C38'
LEVEL = 'exploration'
TECHNIQUE = 'differential execution of generated call trees, original vs hoisted / stack-allocated temporaries'
LEVEL_TEXT = ('every generated call tree is transformed through the real Scheduler by the hoisting transformations '
              '(analysis + automatic / allocatable synthesis) and by each stack / pool allocator (alone and inside the '
              'SCC stack pipelines); original and transformed projects run with the same untouched main program under '
              'gfortran -fcheck=all + ASan/UBSan on 4 input sets that select different call branches; a generated '
              'overflow guard firing, a bounds-check / ASan report, a build failure, an exception or differing output '
              'is a violation')
LEVEL_NOTE = ('storage sufficiency is observed through the generated STOP guards, -fcheck=bounds on the typed stacks '
              'and ASan on the heap-allocated pool (an overflow inside the pool of an inner block is only seen through '
              'the guard or through the last block); index-stack variants emit CONTIGUOUS on explicit-shape dummies, '
              'which gfortran rejects: reported from a syntax check of the untouched output, then removed by a harness '
              'shim so that the rest of their behaviour can be observed')
RULE = ('generated call trees as in C37 (temporaries of rank 1-3, kinds real64/real32/integer/logical, sizes nlon, '
        'nlon*nz, nz+1, 0:nz, max(nz,3), constants; nested kernels on different branches); each tree is transformed by '
        '2 specs drawn from hoist (automatic, allocatable, all-locals; dim_vars, as_kwarguments), pool allocator '
        '(check_bounds, cray_ptr_loc_rhs), FtrPtr / DirectIdx / raw stack, and SCC stack / hoist pipelines. '
        'Non-trivial = the transformation changed the IR of at least one routine and both programs ran on all '
        'inputs; distinct = hash of project text + spec.')
CASES = {'quick': 48, 'thorough': 640}
MIN_NONTRIVIAL = {'quick': 24, 'thorough': 320}
ANCHORS = ['loki/transformations/temporaries/hoist_variables.py', 'loki/transformations/temporaries/stack_allocator.py',
           'loki/transformations/temporaries/raw_stack_allocator.py',
           'loki/transformations/temporaries/pool_allocator.py']
REQUIRED_REACH = ['find_variables', 'driver_variable_declaration', 'apply_pool_allocator_to_temporaries',
                  '_determine_stack_size', 'create_pool_allocator', 'apply_raw_stack_allocator_to_temporaries',
                  '_map_temporary_array', 'create_stacks_driver']
REQUIRED_COUNTERS = {'program_runs': 40, 'pipelines_applied': 20}
ASSUMPTIONS = ['gfortran 12 -O0 -fcheck=all -fcray-pointer + ASan/UBSan is the reference semantics',
               'generated programs are well-defined by construction (original must build and run clean, else the '
               'case is inconclusive)',
               'kind module parkind1 belongs to the input project (disabled in the scheduler config); int_kind of the '
               'index-stack variants is a kind the kernels import',
               'CONTIGUOUS on explicit-shape stack dummies is stripped by the harness after being reported']
BUDGET_S = {'quick': 3000, 'thorough': 9000}
CASE_TIMEOUT_S = 1500

HB = {'horizontal': '@horizontal', 'block_dim': '@block_dim'}


def kwargs_mode(rng, flags, opts):
    """as_kwarguments of the hoisting synthesis: positional hoisted actuals on calls that carry keyword arguments
    are a known finding, exercised in the 'posargs' slot only"""
    if 'posargs' in opts:
        return False
    if flags['keyword_calls']:
        return True
    return rng.random() < 0.4


def mk(rng, kind, flags, opts):
    """spec of one transformation family"""
    if kind == 'hoist-auto':
        a, t = {}, {}
        if rng.random() < 0.3:
            a['dim_vars'] = ('@hsize',)
        t['as_kwarguments'] = kwargs_mode(rng, flags, opts)
        if rng.random() < 0.2:
            t['remap_dimensions'] = False
        return {'name': kind, 'family': kind,
                'steps': [('HoistTemporaryArraysAnalysis', a), ('HoistVariablesTransformation', t)]}
    if kind == 'hoist-alloc':
        a, t = {}, {}
        if rng.random() < 0.3:
            a['dim_vars'] = ('@vsize',)
        t['as_kwarguments'] = kwargs_mode(rng, flags, opts)
        return {'name': kind, 'family': kind,
                'steps': [('HoistTemporaryArraysAnalysis', a), ('HoistTemporaryArraysTransformationAllocatable', t)]}
    if kind == 'hoist-all':
        return {'name': kind, 'family': kind,
                'steps': [('HoistVariablesAnalysis', {}),
                          ('HoistVariablesTransformation', {'as_kwarguments': kwargs_mode(rng, flags, opts)})]}
    if kind == 'pool':
        kw = {'block_dim': '@block_dim', 'check_bounds': rng.random() < 0.7,
              'cray_ptr_loc_rhs': rng.random() < 0.35, 'directive': rng.choice([None, 'openacc', 'openmp'])}
        if rng.random() < 0.5:
            kw['horizontal'] = '@horizontal'
        return {'name': kind, 'family': 'pool' + ('-locrhs' if kw['cray_ptr_loc_rhs'] else ''),
                'steps': [('TemporariesPoolAllocatorTransformation', kw)]}
    if kind == 'ftrptr':
        return {'name': kind, 'family': kind, 'shim_contiguous': True,
                'steps': [('FtrPtrStackTransformation', dict(HB, int_kind='jpim'))]}
    if kind == 'directidx':
        return {'name': kind, 'family': kind, 'shim_contiguous': True,
                'steps': [('DirectIdxStackTransformation', dict(HB, int_kind='jpim'))]}
    if kind == 'rawstack':
        return {'name': kind, 'family': kind, 'steps': [('TemporariesRawStackTransformation', dict(HB))]}
    # SCC pipelines with an allocator / hoisting stage
    kw = dict(HB, int_kind='jpim')
    if rng.random() < 0.5:
        kw['directive'] = 'openacc'
    if 'Stack' in kind:
        kw['check_bounds'] = rng.random() < 0.8
    if 'Hoist' in kind:
        kw['as_kwarguments'] = True if kind.startswith('SCCS') else kwargs_mode(rng, flags, opts)
    from vlib.checks.c37 import family
    return {'name': kind, 'family': 'scc-' + family(kind), 'steps': [(kind, kw)],
            'shim_contiguous': 'FtrPtr' in kind or 'DirectIdx' in kind}


# slot options: 'litkind' temporaries declared with literal kinds (REAL(KIND=8)), 'modimp' kind parameters imported
# in the module specification part instead of in the routines,
# 'posargs' hoisting with positional actuals on keyword calls, 'rawkind' raw stack under a driver that does not
# itself import the kinds of the kernels' temporaries (C37 covers raw stack on calls with keywords)
ROT = [
    ('hoist-auto', 'pool', ()),
    ('hoist-alloc', 'pool', ()),
    ('pool', 'rawstack', ()),
    ('hoist-auto', 'SCCVStackPipeline', ()),
    ('pool', 'hoist-alloc', ('posargs',)),
    ('hoist-all', 'pool', ()),
    ('ftrptr', 'hoist-auto', ()),
    ('SCCSStackPipeline', 'hoist-alloc', ()),
    ('directidx', 'pool', ()),
    ('hoist-auto', 'pool', ('litkind',)),
    ('pool', 'SCCVHoistPipeline', ()),
    ('hoist-alloc', 'SCCVStackPipeline', ()),
    ('rawstack', 'hoist-auto', ('rawkind',)),
    ('SCCSHoistPipeline', 'pool', ()),
    ('hoist-auto', 'SCCSStackPipeline', ()),
    ('pool', 'hoist-alloc', ('modimp',)),
]


def case_plan(rng, idx):
    r = idx % 16
    k1, k2, opts = ROT[r]
    flags = {
        'names': rng.choice('AB'),
        'depth': rng.choice([1, 2, 2, 3, 3]),
        'n_temps': rng.choice([4, 6, 7]),
        'vector_notation': rng.random() < 0.2,
        'ifs_block_loop': rng.random() < 0.3,
        'keyword_calls': rng.random() < 0.25,
        'two_modules': rng.random() < 0.3,
        'alias_names': rng.random() < 0.4,
        'driver_sections': rng.random() < 0.4,
        'horizontal_outer': rng.random() < 0.5,
        'max_stmts': rng.choice([2, 3]),
        'branch_calls': True,
    }
    if flags['ifs_block_loop']:
        flags['driver_sections'] = False        # see C37 slot 'drvsec'
    flags['literal_kinds'] = 'litkind' in opts
    flags['module_level_imports'] = 'modimp' in opts
    if 'posargs' in opts:
        flags['keyword_calls'] = True
        flags['depth'] = max(2, flags['depth'])
    elif 'rawstack' in (k1, k2) or 'RawStack' in k1 + k2:
        flags['keyword_calls'] = False
        flags['driver_all_kinds'] = 'rawkind' not in opts
    if any(k in ('rawstack', 'directidx', 'ftrptr') for k in (k1, k2)):
        # applied without the SCC base stage: horizontal range notation is refused ("Discontiguous access")
        flags['vector_notation'] = False
    specs = [mk(rng, k, flags, opts) for k in (k1, k2)]
    return flags, specs


def resolve_names(specs, names):
    for s in specs:
        for _, kw in s['steps']:
            for k, v in list(kw.items()):
                if isinstance(v, tuple):
                    kw[k] = tuple(names[x[1:]] if isinstance(x, str) and x.startswith('@') else x for x in v)


def run_case(idx, rng, tier, ctx):
    from vlib.sccfind import diagnose
    flags, specs = case_plan(rng, idx)
    case, sig = scclab.gen_case(rng, flags)
    resolve_names(specs, case.names)
    res = {'sig': scclab.sighash([sig] + [repr(s['steps']) for s in specs]), 'nontrivial': False, 'violations': [],
           'inconclusive': None, 'features': sorted(case.features) + ['spec:' + s['name'] for s in specs],
           'counters': {'program_runs': 0, 'pipelines_applied': 0, 'sanitizer_builds': 0, 'routines_changed': 0,
                        'overflow_guards_generated': 0, 'temporaries_in_project': 0}}
    wd = ctx['scratch'] / f'c{idx}'
    shutil.rmtree(wd, ignore_errors=True)
    try:
        scclab.write_project(case, wd / 'src')
        ref = scclab.Reference(case, wd)
        res['counters']['sanitizer_builds'] += 1
        if ref.bad:
            res['inconclusive'] = ('timeout: ' if ref.timeout else 'generator defect: ') + ref.bad[:300]
            return res
        res['counters']['program_runs'] += len(ref.runs)
        res['counters']['temporaries_in_project'] = case.n_temps
        ok, pending = 0, []
        for s in specs:
            out = scclab.run_spec(case, ref, wd, s, res['counters'])
            if out['files']:
                res['counters']['overflow_guards_generated'] += sum(
                    t.upper().count('STACK_U) STOP') for t in out['files'].values())
            for v in out['violations']:
                v['key'] = diagnose(PID, s, case, out, v)
                res['violations'].append(v)
            if out['inconclusive']:
                pending.append(out['inconclusive'])
            if out['nontrivial']:
                ok += 1
        res['nontrivial'] = ok > 0
        if pending and not res['violations'] and ok == 0:
            # (the harness drops the violations of an inconclusive case: only a case without any verdict is one)
            res['inconclusive'] = pending[0]
        res['counters']['specs_without_verdict'] = len(pending)
        res['sample'] = {'specs': [s['name'] for s in specs], 'kernels': case.kernels,
                         'temporaries': case.n_temps, 'features': sorted(case.features)[:12]}
    finally:
        shutil.rmtree(wd, ignore_errors=True)
    return res
