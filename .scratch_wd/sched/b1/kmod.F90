MODULE kmod
  USE kinds_mod, ONLY: jprb, npar, rpar
  IMPLICIT NONE
  CONTAINS
  SUBROUTINE kern (n, m, a1, a2, c1, c2, d1, k1, s1, s2, s3, i1, i2, lg1)
    USE kinds_mod, ONLY: jpim, jprb
    INTEGER, INTENT(IN) :: n
    INTEGER, INTENT(IN) :: m
    REAL(KIND=jprb), INTENT(IN) :: a1(n)
    REAL(KIND=jprb), INTENT(INOUT) :: a2(n)
    REAL(KIND=jprb), INTENT(OUT) :: c1(n, m)
    REAL(KIND=jprb), INTENT(OUT) :: c2(n, m)
    REAL(KIND=jprb), INTENT(INOUT) :: d1(-1:n - 2)
    INTEGER, INTENT(INOUT) :: k1(n)
    REAL(KIND=jprb), INTENT(IN) :: s1
    REAL(KIND=jprb), INTENT(INOUT) :: s2
    REAL(KIND=jprb), INTENT(OUT) :: s3
    INTEGER, INTENT(IN) :: i1
    INTEGER, INTENT(INOUT) :: i2
    LOGICAL, INTENT(IN) :: lg1
    REAL(KIND=jprb) :: x1
    INTEGER :: j1
    LOGICAL :: lg2
    REAL(KIND=jprb) :: w1(n)
    REAL(KIND=jprb) :: w2(n, m)
    REAL(KIND=jprb) :: f1(4)
    INTEGER :: i, j, k
    REAL(KIND=jprb) :: zw(n), zs, zv(n, m)
    REAL(KIND=jprb) :: zf(4)
    INTEGER :: jz, kz
    REAL(KIND=jprb) :: zp, zu1, zu2
    REAL(KIND=jprb) :: zq(n, 3, 2)
    REAL(KIND=jprb) :: sfn, sfx
    INTEGER, PARAMETER :: jploc = SELECTED_REAL_KIND(13, 300)
    REAL(KIND=jploc) :: zloc
    sfn(sfx) = sfx*2.0_jprb + 1.0_jprb
!$loki region-hoist target
    zq = 0.75_jprb
    zw = 0.5_jprb
    zv = 0.25_jprb
    zf = 1.0_jprb
    zs = 0.0_jprb
    zloc = 1.0_jploc
    zs = sfn(s1) + sfn(zs + 0.5_jprb)
    c1 = 7.5_jprb
    c2 = 2.0_jprb
    s3 = 2.0_jprb
    x1 = 10.0_jprb
    j1 = 11
    lg2 = .false.
!$loki remove
    w1 = 1.0_jprb
!$loki end remove
    w2 = 0.125_jprb
    f1 = 0.5_jprb
    SELECT CASE (MODULO((n - 3)*k1(n), 7))
    CASE (0)
      SELECT CASE (MODULO(4, 7))
      CASE (0)
        k1(n) = j1
        DO i=n,1,-1
          w2(:, m) = MIN(MAX(s1 - 3.0_jprb, -50.0_jprb), 50.0_jprb)
        END DO
      CASE (3:4)
        DO i=1,n
          CALL isub(n, a1, s3, x1)
          x1 = MAXVAL(a2) / (1.0_jprb + REAL(n*m, kind=jprb))
        END DO
        j1 = 1
        DO WHILE (j1 > 0)
          w1(1:n - 1) = MIN(MAX(s2 - 2.0_jprb, -50.0_jprb), 50.0_jprb)
          f1(1) = 2.0_jprb*COS((w1(1 + MOD(1, n))*w2(n, 1 + MOD(5, m)))**2)
          j1 = j1 - 1
        END DO
      CASE (5:)
        DO i=2,n
          CALL isub(n, a1, x1, s2)
          w1(:) = MIN(MAX(a1*3.0_jprb - (s3 / (1.0_jprb + ABS(a2))), -50.0_jprb), 50.0_jprb)
          k1(i) = (-2)**2
        END DO
        x1 = SIN(c1(1, 1 + MOD(1, m))**2 - (-d1(1 - 2)))
      END SELECT
    CASE (3:4)
      WHERE (w1 >= s2)
        d1 = SIN(d1 + 2.0_jprb / (1.0_jprb + ABS(s3)))
      END WHERE
    CASE (5:)
      WHERE (d1 > d1 - w1)
        w1 = SIN(s1 + 7.5_jprb*a2)
        w1 = SIN(a1 - a1)
      ELSEWHERE
        w1 = SIN(a1 / (1.0_jprb + ABS(d1)))
      END WHERE
      a2(1:n - 1) = MIN(MAX(0.25_jprb + 1.0_jprb, -50.0_jprb), 50.0_jprb)
    CASE (1, 2)
      c2(n, m) = 2.0_jprb*COS((-d1(1 - 2)))
    CASE DEFAULT
      PRINT '(A,ES24.16)', 'dbg s2', s2
    END SELECT
    x1 = MINVAL(d1) / (1.0_jprb + REAL(n*m, kind=jprb))
    j1 = MIN(MAX(k1(1 + MOD(2, n))*(k1(1) + m), -40), 40)
    WHERE (a1 < d1)
      d1 = SIN(x1 / (1.0_jprb + ABS(d1*w1)))
    ELSEWHERE
      d1 = MIN(MAX(a1 - d1, -50.0_jprb), 50.0_jprb)
    END WHERE
!$loki outline name( kern_o1 ) in( n,a1,s1 ) inout( a2 )
    DO jz=1,n
      a2(jz) = a2(jz) + a1(jz)*s1
    END DO
!$loki end outline
!$loki region-hoist
    zs = 2.0_jprb*s1
!$loki end region-hoist
    IF (.true.) THEN
      zs = 3.0_jprb
      IF (.false.) THEN
        zs = 7.5_jprb
      END IF
      IF (lg1) THEN
        IF (.not..true.) THEN
          zs = 0.5_jprb
        END IF
      END IF
    END IF
!$loki loop-unroll depth( 1 )
    DO jz=1,2
      DO kz=2,4,2
        zf(kz) = zf(kz) + REAL(jz*kz, kind=jprb)
      END DO
    END DO
    zs = zs + rpar*REAL(npar, kind=jprb)
    DO jz=1,npar
      zf(jz) = rpar
    END DO
!$loki loop-interchange
    DO jz=1,n
      DO kz=1,m
        zv(jz, kz) = a1(jz) + REAL(kz, kind=jprb)
      END DO
    END DO
    DO jz=1,n
      zw(jz) = a1(jz)*s1
!$loki loop-fission
      a2(jz) = zw(jz) + 0.25_jprb
    END DO
    zw(1:n) = a1(1:n) + 0.5_jprb
    zv(:, :) = zv(:, :)*s1
    zw(:) = zw + a1
    DO jz=1,n
      zp = a1(jz)*s1
      zw(jz) = zp + 0.5_jprb
    END DO
    CALL hdup(n, n, a1, zs)
    CONTAINS
    SUBROUTINE isub (nn, xin, xio, sout)
      INTEGER, INTENT(IN) :: nn
      REAL(KIND=jprb), INTENT(IN) :: xin(nn)
      REAL(KIND=jprb), INTENT(INOUT) :: xio
      REAL(KIND=jprb), INTENT(OUT) :: sout
      INTEGER :: ii
      sout = s1
      DO ii=1,MIN(nn, n)
        sout = sout + xin(ii)*1.5_jprb
      END DO
      sout = COS(sout)
      xio = xio*0.5_jprb + sout
    END SUBROUTINE isub
  END SUBROUTINE kern
  SUBROUTINE hdup (n1, n2, xin, sout)
    INTEGER, INTENT(IN) :: n1, n2
    REAL(KIND=jprb), INTENT(IN) :: xin(n1)
    REAL(KIND=jprb), INTENT(INOUT) :: sout
    sout = sout + xin(1)*REAL(n2, kind=jprb)
  END SUBROUTINE hdup
END MODULE kmod