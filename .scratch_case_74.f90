module kinds_mod
  implicit none
  integer, parameter :: jprb = selected_real_kind(13, 300)
  integer, parameter :: jpim = selected_int_kind(9)
  integer, parameter :: npar = 3
  integer, parameter :: npar2 = 2
  real(kind=jprb), parameter :: rpar = 1.5_jprb
end module kinds_mod
module KMOD
  USE Kinds_mod, ONLY: jprb, NPAR, rpar
  Implicit none
  type :: ttype
    real(Kind=JPRB) :: p
    REAL(kind=jprb) :: q(5)
    INTEGER :: KK
  end type Ttype
Contains
  SUBROUTINE kern(n, M, a1, A2, c1, d1, k1, s1, s2, s3, I1, I2, LG1, T1)
    use kinds_mod, ONLY: jpim, Jprb
    integer, INTENT(IN) :: n
    Integer, intent(in) :: m
    REAL(kind=jprb), INTENT(in) :: A1(N)
    REAL(kind=jprb), intent(inout) :: A2(n)
    REAL(kind=jprb), Intent(in) :: c1(n, m)
    REAL(KIND=JPRB), INTENT(inout) :: d1(-1:n - 2)
    integer, INTENT(inout) :: k1(N)
    REAL(KIND=JPRB), intent(in) :: S1
    real(kind=JPRB), Intent(inout) :: s2
    real(KIND=JPRB), INTENT(OUT) :: s3
    INTEGER, intent(IN) :: i1
    INTEGER, intent(inout) :: i2
    LOGICAL, INTENT(In) :: lg1
    type(ttype), INTENT(INOUT) :: T1
    real(kind=JPRB) :: x1
    real(KIND=jprb) :: x2
    integer :: j1
    integer :: j2
    LOGICAL :: LG2
    REAL(kind=jprb) :: f1(4)
    integer :: I, j, k
    REAL(kind=jprb) :: zw(n), zs, zv(n, M)
    REAL(Kind=Jprb) :: zf(4)
    integer :: jz, kz
    REAL(KIND=Jprb) :: zp, ZU1, zu2
    REAL(kind=jprb) :: zq(n, 3, 2)
    INTEGER, PARAMETER :: jploc = selected_real_kind(13, 300)
    REAL(kind=jploc) :: ZLOC
    ZQ = 0.75_jprb
    zw = 0.5_jprb
    zv = 0.25_jprb
    ZF = 1.0_jprb
    ZS = 0.0_jprb
    ZLOC = 1.0_jploc
    S3 = 1.0_jprb
    x1 = 3.0_jprb
    X2 = 1.0_jprb
    j1 = 11
    J2 = 11
    Lg2 = .false.
    f1 = 1.0_jprb
    do i = 1, n
      lp1: DO J = 1, n, 2
        a2(1:n - 1) = MIN(max(S2 + T1%P, -50.0_jprb), 50.0_jprb)
        do k = n, 1, -1
          ! TODO
        END do
        d1(i - 2) = 2.0_jprb*cos(real(I + j2, jprb) + A1(i))
      END DO LP1
      if (LG1) then
        ASSOCIATE (Z00 => S1)
          ! TODO
          s3 = sum(C1) / (1.0_jprb + REAL(N*m, jprb))
        END associate
      ELSE IF ((f1(1) >= x2) .and. (m > j2)) Then
        call isub(n, A1, sout=X1, Xio=T1%p)
      else
        s3 = 2.0_jprb*cos(((C1(I, 1) + c1(i, M))**2)**2)
      end if
      SELECT case (MODULO(j2, 7))
      case (3:4)
        T1%Q(4) = min(max(real(i2 - (i + 1), Jprb), -50.0_jprb), 50.0_jprb)
        ! x = 1 ! y
      CASE (0)
        WHERE (A1 <= a1*A2) D1 = Min(max(A1 + A1*10.0_jprb, -50.0_jprb), 50.0_jprb)
      end Select
    end DO
    ! note: end do
    lp2: do i = 2, m
      Call isub(n, a1, s3, x2)
      J2 = J2
    end DO lp2
    if (.not. (n > 5)) then
      DO i = 1, m
        ! note: end do
        LG2 = (D1(1 - 2)) > merge(a1(1 + mod(5, N)), C1(1, I), j2 > j1)
        LP3: do j = 1, N
          s2 = (exp(-abs(a2(j))) + f1(2)) / (1.0_jprb + abs(exp(-abs(a2(j))) + f1(2)))
        end do LP3
      End Do
    else
      LG2 = .not. (c1(1 + mod(5, n), 1) < 7.5_jprb)
    END if
    T1%p = minval(f1) / (1.0_jprb + REAL(n*M, JPRB))
    A2(1) = 2.0_jprb*COS(s1)
    where (A2 <= a1 / (1.0_jprb + Abs(d1)))
      a2 = MIN(max(ABS(2.0_jprb - (S3)), -50.0_jprb), 50.0_jprb)
      a2 = sin(3.0_jprb)
    end Where
    !$loki remove
    zs = ZS + 1.0_jprb
    DO jz = 1, n
      zw(jz) = ZS
    END DO
    !$loki end remove
    call hdup(n, N, A1, zs)
    do jz = 1, N
      zp = a1(jz)*S1
      zw(jz) = zp + 0.5_jprb
    end DO
    !$loki outline name(kern_o1) in(n,a1,s1) inout(a2)
    do jz = 1, N
      A2(jz) = a2(Jz) + a1(jz)*s1
    end do
    !$loki end outline
    call hlow(N, zq(:, 1, :), zs)
    zs = hfun(S1, i1) + HFUN(zs, 2)
    !$loki loop-fusion group(g1)
    DO jz = 1, N
      zw(JZ) = A1(jz) + s1
    end do
    !$loki loop-fusion group(g1)
    do jz = 1, n
      a2(JZ) = zw(jz)*0.5_jprb
    end do
    zw(1:N) = A1(1:N) + 0.5_jprb
    Zv(:, :) = zv(:, :)*S1
    zw(:) = ZW + a1
    !$loki loop-unroll depth(1)
    Do JZ = 1, 2
      do KZ = 2, 4, 2
        zf(kz) = ZF(kz) + real(JZ*kz, JPRB)
      end do
    end Do
    IF (LG1) then
      zs = 3.0_jprb
    else if (.false.) THEN
      zs = 7.5_jprb
    ELSE
      zs = s1
    end IF
  contains
  subroutine ISUB(nn, xin, xio, sout)
    Integer, INTENT(in) :: NN
    real(KIND=jprb), INTENT(in) :: XIN(nn)
    real(kind=jprb), intent(Inout) :: XIO
    REAL(KIND=Jprb), intent(out) :: SOUT
    integer :: ii
    SOUT = S1
    do ii = 1, min(nn, n)
      sout = sout + xin(ii)*1.5_jprb
    End do
    sout = cos(sout)
    xio = xio*0.5_jprb + SOUT
  end subroutine isub
  function ifun(x, k) RESULT(R)
    real(kind=jprb), INTENT(IN) :: x
    integer, intent(in) :: k
    real(KIND=jprb) :: R
    r = x + s1*REAL(k + i1, JPRB)*0.01_jprb
  end FUNCTION ifun
  END subroutine KERN
  SUBROUTINE HSUB(NN, xin, xio, SOUT)
    integer, intent(in) :: nn
    real(kind=jprb), intent(IN) :: xin(NN)
    REAL(kind=jprb), intent(Inout) :: xio
    real(kind=jprb), intent(out) :: Sout
    integer :: ii
    Sout = 0.0_jprb
    do ii = 1, nn
      SOUT = SOUT + XIN(ii)*0.5_jprb
    end do
    SOUT = sout / (1.0_jprb + real(Nn, JPRB))
    xio = sin(xio + SOUT)
  end subroutine hsub
  function Hfun(x, k) result(r)
    real(KIND=jprb), Intent(in) :: X
    integer, intent(IN) :: k
    real(KIND=jprb) :: R
    r = x*7.5_jprb + real(MOD(k, 5), jprb)
    If (k > 3) R = r - 7.5_jprb
  END function hfun
  SUBROUTINE hdup(N1, n2, XIN, sout)
    INTEGER, intent(IN) :: n1, n2
    REAL(KIND=JPRB), intent(in) :: XIN(n1)
    real(KIND=jprb), intent(inout) :: sout
    SOUT = sout + XIN(1)*real(n2, JPRB)
  end SUBROUTINE HDUP
  subroutine HLOW(nn, X2, sout)
    integer, Intent(in) :: nn
    REAL(Kind=JPRB), INTENT(in) :: X2(nn, 2)
    real(kind=jprb), intent(inout) :: sout
    sout = sout + X2(1, 1) + X2(Nn, 2)
  end subroutine hlow
end MODULE kmod
