"""sccfind -- mechanism keys for C37 / C38 violations (family prefix + diagnosis of known mechanisms)."""
import re


def diagnose(pid, spec, case, out, v):
    raw = v['key']
    fam = spec['family']
    return f'{fam}:{raw}'
