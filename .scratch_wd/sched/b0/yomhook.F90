module yomhook
  implicit none
  integer, parameter :: jphook = selected_real_kind(13, 300)
  logical :: lhook = .false.
contains
  subroutine dr_hook(cdname, kswitch, pkey)
    character(len=*), intent(in) :: cdname
    integer, intent(in) :: kswitch
    real(kind=jphook), intent(inout) :: pkey
    if (kswitch < 0) pkey = 0.0_jphook
  end subroutine dr_hook
end module yomhook
