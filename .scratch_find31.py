import sys
sys.path.insert(0,'/verif')
from vlib.core import case_rng
from vlib.checks import c31
from vlib.loopgen import LoopGen
for seed in range(0,6):
  for idx in range(240):
    if idx%5!=4: continue
    rng=case_rng('C31',seed,idx)
    flags=c31.case_flags(rng,idx)
    case=LoopGen(rng,flags).generate()
    for u in case.units:
        if 'split-const' in u.tags:
            print(seed, idx, flags['hostile'], u.hostile, u.facts.get('range'), u.lines[-1][:40])
