"""Entry point: ./check <PID> [--tier quick|thorough] [--replay path]"""
import argparse
import os
import sys
from vlib.core import run_check


def main():
    ap = argparse.ArgumentParser()
    ap.add_argument('pid', nargs='?')
    ap.add_argument('--selftest', action='store_true')
    ap.add_argument('--tier', default=os.environ.get('VERIF_TIER') or 'quick', choices=['quick', 'thorough'])
    ap.add_argument('--replay', default=None)
    args = ap.parse_args()
    if args.selftest:
        import loki, icontract  # noqa
        print('selftest ok: loki from', loki.__file__)
        sys.exit(0)
    try:
        seed = int(os.environ.get('VERIF_SEED', '0') or 0)
    except ValueError:
        seed = 0
    sys.exit(run_check(args.pid.upper(), args.tier, seed, replay=args.replay))


if __name__ == '__main__':
    main()
