"""C39 -- ParametriseTransformation: equal outputs for matching inputs, guard fires for all others."""
import re
import shutil
import traceback
from pathlib import Path

from vlib import diffexec
from vlib.core import sighash
from vlib.pargen import ParGen

PID = 'C39'
LEVEL = 'exploration'
TECHNIQUE = 'differential execution, original vs. parametrised project, on matching and non-matching inputs (sanitizers on)'
LEVEL_TEXT = ('every generated call tree (depth 1-3) whose integer size / flag arguments are used as array extents, loop '
              'bounds and flags is processed by the real Scheduler with ParametriseTransformation (random dic2p, '
              'replace_by_value, entry_points, abort_callback), linked with an untouched main program and run next to the '
              'original: 3 inputs with the fixed values (outputs must be equal) and 2 inputs with other values (non-zero '
              'exit, guard message naming a really mismatching variable, nothing printed after it, no run-time report)')
LEVEL_NOTE = ('gfortran 12 -O0 -fcheck=all + ASan/UBSan + FPE traps is the reference semantics; main passes oversized '
              'arrays so that no bounds report can pre-empt the guard; all call sites of a routine pass the parametrised '
              'variables identically and nothing below a kernel entry point is called from outside (documented '
              'consistency requirement)')
RULE = ('ParGen project (kinds module, 1-2 kernel modules, driver module): three integer roles (extent A, extent B, flag '
        'F) travel down the call tree under routine-specific names and are used as dummy / automatic array extents, loop '
        'bounds, IF / SELECT CASE / arithmetic flags; dic2p = random non-empty subset of the roles of the entry routine '
        'with random values (negative flags included); options replace_by_value x entry_points (None | driver | kernel) '
        'x abort_callback (None | error stop | call pabort). Non-trivial = transformed Fortran differs, all matching '
        'runs compared equal and all non-matching runs were judged; distinct = hash of sources + options.')
CASES = {'quick': 96, 'thorough': 1440}
MIN_NONTRIVIAL = {'quick': 40, 'thorough': 600}
ANCHORS = ['loki/transformations/parametrise.py']
REQUIRED_REACH = ['transform_subroutine']
REQUIRED_COUNTERS = {'matching_runs_equal': 40, 'guard_fired': 25}
ASSUMPTIONS = ['gfortran 12 -O0 with run-time checks is the reference semantics',
               'generated programs are well-defined by construction (original must run clean on every input, else discarded)',
               'the guard "triggers" = the process ends with a non-zero status after emitting the message the '
               'transformation (or the callback) was asked to emit, before any further output',
               'consistency requirement of the transformation docs is respected by the generator']
BUDGET_S = {'quick': 3600, 'thorough': 14400}   # generous: only matters on an overloaded machine
CASE_TIMEOUT_S = 1800
WATCHDOG_S = {'quick': 7200, 'thorough': 28800}   # generous: only matters on an overloaded machine

RANGE = {'A': (2, 6), 'B': (2, 5), 'F': (-1, 3)}


def case_flags(rng, idx):
    f = {}
    f['n_kernels'] = rng.choice([1, 2, 3, 3, 4])
    f['split_files'] = rng.random() < 0.4
    f['mixed_decl'] = rng.random() < 0.6
    f['kw_actual'] = rng.random() < 0.25
    f['expr_actual'] = rng.random() < 0.6
    f['select_case'] = rng.random() < 0.7
    f['automatic_arrays'] = rng.random() < 0.8
    f['local_parameters'] = rng.random() < 0.5
    f['module_parameters'] = rng.random() < 0.4
    # kind-suffixed literals (0.5_jprb) + replace_by_value is a known mechanism: gated slice (see run_case)
    f['kind_literals'] = rng.random() < 0.7
    f['entry_kernel'] = rng.random() < 0.3
    f['max_stmts'] = rng.choice([3, 5, 7])
    # gated slice: source spelled in upper case while dic2p / entry_points use lower case
    f['upper_case'] = idx % 12 == 7
    # gated slice: the same parametrised variable passed to two dummies of a callee
    f['dup_pass'] = idx % 12 == 9
    if f['dup_pass']:
        f['expr_actual'] = True
    return f


def innermost_loki_frame(exc):
    seen = 0
    while (exc.__cause__ or exc.__context__) is not None and seen < 8:
        exc = exc.__cause__ or exc.__context__
        seen += 1
    name = '?'
    for fr in traceback.extract_tb(exc.__traceback__):
        if '/loki/' in fr.filename:
            name = fr.name
    return f'{type(exc).__name__}@{name}'


def make_callback(kind):
    from loki.ir import nodes as ir
    from loki.expression import symbols as sym
    if kind == 'default':
        return None
    if kind == 'error_stop':
        def error_stop(**kwargs):
            return (ir.GenericStmt(text=f'error stop "{kwargs.get("msg")}"'),)
        return error_stop
    def call_abort(**kwargs):
        return (ir.CallStatement(name=sym.Variable(name='pabort'), arguments=(sym.StringLiteral(f'{kwargs.get("msg")}'),)),)
    return call_abort


def transform(case, opts, wd):
    from loki import Scheduler, SchedulerConfig
    from loki.frontend import FP
    from loki.transformations.build_system import FileWriteTransformation
    from loki.transformations.parametrise import ParametriseTransformation
    src, out = wd / 'src', wd / 'out'
    for d in (src, out, wd / 'xmods'):
        d.mkdir(parents=True, exist_ok=True)
    for name, text in case.files:
        (src / name).write_text(text)
    config = SchedulerConfig.from_dict({
        'default': {'mode': 'idem', 'role': 'kernel', 'expand': True, 'strict': True, 'enable_imports': True},
        'routines': {'driver': {'role': 'driver'}}})
    sched = Scheduler(paths=[src], config=config, seed_routines=['driver'], frontend=FP, xmods=[wd / 'xmods'],
                      output_dir=out)
    sources = {}
    for item in sched.items:
        sf = getattr(item, 'source', None)
        if sf is not None and getattr(sf, 'path', None) is not None:
            sources[Path(sf.path).name] = sf
    before = {n: sf.to_fortran() for n, sf in sources.items()}
    t = ParametriseTransformation(dic2p=dict(opts['dic2p']), replace_by_value=opts['replace_by_value'],
                                  entry_points=opts['entry_points'], abort_callback=make_callback(opts['abort']))
    sched.process(t)
    sched.process(FileWriteTransformation())
    new, changed = [], []
    for name, text in case.files:
        p = out / (Path(name).stem + '.idem.F90')
        if p.exists():
            txt = p.read_text()
            if name in before and before[name] != txt:
                changed.append(name)
            new.append((name, txt))
        else:
            new.append((name, text))
    return new, changed


def _norm_compile_error(detail):
    m = re.search(r'Error: (.{0,120})', detail or '')
    if not m:
        return 'unknown'
    msg = re.sub(r"'[^']*'|‘[^’]*’", 'X', m.group(1))
    msg = re.sub(r'\(\d+\)', '', msg)
    return re.sub(r'[^A-Za-z]+', '-', msg).strip('-')[:60]


def _runtime_tail(r):
    txt = ' '.join(r['san']) + ' ' + r['err']
    m = re.search(r'(Fortran runtime error: [A-Za-z ]{0,40}|AddressSanitizer: [a-z-]+|SIGSEGV|SIGFPE)', txt)
    return re.sub(r'[^A-Za-z]+', '-', m.group(1)).strip('-') if m else f'exit-status'


def run_case(idx, rng, tier, ctx):
    flags = case_flags(rng, idx)
    rbv = rng.random() < 0.5
    if rbv and idx % 12 != 3:
        flags['kind_literals'] = False
    case = ParGen(rng, flags).generate()
    entry = case.meta['entry'] or 'driver'
    eroles = case.roles[entry]
    cand = sorted(eroles)
    nsel = rng.choice([1, 1, 2, 3])
    sel = sorted(rng.sample(cand, min(nsel, len(cand))))
    fixed = {ro: rng.randint(*RANGE[ro]) for ro in sel}
    order = list(sel)
    rng.shuffle(order)
    opts = {'dic2p': [(eroles[ro], fixed[ro]) for ro in order],
            'replace_by_value': rbv,
            'entry_points': None if entry == 'driver' and rng.random() < 0.6 else (entry,),
            'abort': rng.choice(['default', 'default', 'error_stop', 'call_abort'])}
    # gated slices carry one construct with a known / suspected mechanism: keyed by construct + symptom class
    labels = (['upper-case-source'] if flags['upper_case'] else []) + \
        (['rbv-kind-suffixed-literals'] if rbv and flags['kind_literals'] else []) + \
        (['same-variable-passed-twice'] if 'hazard_same_variable_passed_twice' in case.features else [])
    tag = 'rbv' if opts['replace_by_value'] else 'par'
    feats = ['slice_' + l for l in labels] + sorted(case.features) + [f'abort_{opts["abort"]}', f'entry_{"kernel" if entry != "driver" else ("named" if opts["entry_points"] else "role")}',
                                     'replace_by_value' if opts['replace_by_value'] else 'parameter_declaration',
                                     f'n_parametrised_{len(sel)}'] + [f'role_{ro}' for ro in sel] + \
        (['negative_value'] if any(v < 0 for v in fixed.values()) else [])
    res = {'sig': sighash([case.units, opts]), 'nontrivial': False, 'violations': [], 'inconclusive': None,
           'features': feats, 'counters': {}}
    wd = ctx['scratch'] / f'c{idx}'
    shutil.rmtree(wd, ignore_errors=True)
    wd.mkdir(parents=True)
    witness = {'opts': opts, 'flags': flags, 'files': dict(case.files), 'main': case.driver, 'roles': case.roles,
               'extra': dict(case.extra)}

    def viol(key, msg, **extra):
        w = dict(witness)
        w.update(extra)
        k = f'par:{"+".join(labels)}:{key.split(":")[0]}' if labels else f'{tag}:{key}'
        res['violations'].append({'key': k, 'msg': msg[:700], 'witness': w})

    def inputs(matching):
        vals = {}
        for ro in 'ABF':
            vals[ro] = rng.randint(*RANGE[ro])
        for ro in sel:
            vals[ro] = fixed[ro]
        bad = []
        if not matching:
            k = rng.randint(1, len(sel))
            for ro in rng.sample(sel, k):
                lo, hi = RANGE[ro]
                vals[ro] = rng.choice([v for v in range(lo, hi + 1) if v != fixed[ro]])
                bad.append(ro)
        return f'{vals["A"]} {vals["B"]} {vals["F"]} {rng.randint(1, 50)}\n', bad

    try:
        try:
            oexe = diffexec.build(wd / 'orig', list(case.extra) + list(case.files) + [('main.F90', case.driver)], timeout=900)
        except diffexec.BuildError as e:
            res['inconclusive'] = ('timeout: ' if 'TIMEOUT' in str(e) else 'generator defect: ') + str(e)[:400]
            return res
        try:
            new, changed = transform(case, opts, wd)
        except Exception as e:  # pylint: disable=broad-except
            viol(f'exception:{innermost_loki_frame(e)}', f'{type(e).__name__}: {e}')
            return res
        witness['transformed'] = {n: t for n, t in new if n in changed}
        res['counters']['files_changed'] = len(changed)
        try:
            nexe = diffexec.build(wd / 'new', list(case.extra) + list(new) + [('main.F90', case.driver)], timeout=900)
        except diffexec.BuildError as e:
            if 'TIMEOUT' in str(e):
                res['inconclusive'] = 'timeout while compiling the transformed project'
                return res
            viol('compile:' + _norm_compile_error(str(e)), str(e))
            return res
        res['counters']['transformed_builds'] = 1
        judged = 0
        for q in range(5):
            matching = q < 3
            sin, bad = inputs(matching)
            ro = diffexec.run(oexe, stdin=sin, timeout=300)
            if ro['rc'] == -999:
                res['inconclusive'] = 'original timed out'
                return res
            if ro['rc'] != 0 or ro['san']:
                res['inconclusive'] = f"generator defect: original rc={ro['rc']} {ro['san'][:2]} {ro['err'][-300:]}"
                return res
            rn = diffexec.run(nexe, stdin=sin, timeout=300)
            if rn['rc'] == -999:
                res['inconclusive'] = 'transformed program timed out (wall-clock effects are never a verdict)'
                return res
            res['counters']['program_runs'] = res['counters'].get('program_runs', 0) + 2
            diff = {'stdin': sin, 'orig_out': ro['out'][-1200:], 'new_out': rn['out'][-1200:], 'new_err': rn['err'][-600:],
                    'new_rc': rn['rc']}
            if matching:
                eq, why = diffexec.outputs_equal(ro, rn)
                if not eq:
                    if rn['rc'] != 0 or rn['san']:
                        viol('match:runtime:' + _runtime_tail(rn), why, diff=diff)
                    else:
                        viol('match:output-differs', why, diff=diff)
                    return res
                res['counters']['matching_runs_equal'] = res['counters'].get('matching_runs_equal', 0) + 1
            else:
                names = {eroles[r_]: r_ for r_ in sel}
                both = rn['out'] + '\n' + rn['err']
                m = re.search(r'Variable (\w+) parametrised to value (-?\d+), but subroutine (\w+)\s+received another value',
                              both.replace('\n', ' '))
                begin = ro['out'].split('\n')[0]
                after = [ln for ln in rn['out'].split('\n')[1:] if ln.strip() and 'parametrised to value' not in ln
                         and 'PABORT' not in ln]
                if rn['rc'] == 0:
                    viol('guard:not-fired', f'exit status 0 for non-matching input {sin.strip()} (mismatching: {bad})', diff=diff)
                    return res
                if rn['san']:
                    viol('guard:runtime-report:' + _runtime_tail(rn), f'run-time report instead of / before the guard: {rn["san"][:2]}',
                         diff=diff)
                    return res
                if not m:
                    viol('guard:no-message', f'non-zero exit {rn["rc"]} without the guard message', diff=diff)
                    return res
                if m.group(1).lower() not in names or names[m.group(1).lower()] not in bad or \
                        int(m.group(2)) != fixed[names[m.group(1).lower()]] or m.group(3).lower() != entry:
                    viol('guard:wrong-message', f'guard message {m.group(0)!r} does not name a mismatching variable '
                         f'(mismatching roles {bad}, fixed {fixed}, entry {entry})', diff=diff)
                    return res
                if rn['out'].split('\n')[0].split() != begin.split() or after:
                    viol('guard:output-after-guard', f'unexpected output around the guard: {after[:3]}', diff=diff)
                    return res
                res['counters']['guard_fired'] = res['counters'].get('guard_fired', 0) + 1
            judged += 1
        res['nontrivial'] = bool(changed) and judged == 5
        res['sample'] = {'opts': opts, 'entry': entry, 'roles': case.roles, 'calls': case.calls, 'changed': changed,
                         'features': sorted(case.features)}
    finally:
        shutil.rmtree(wd, ignore_errors=True)
    return res
