"""E3 -- expression lab: neutral expression ASTs, Loki <-> AST conversion, an independent fully
parenthesising reference printer (Fortran and C), an independent evaluator under Fortran semantics with a
running error bound for reals, a seeded generator of hostile expression trees, a text-level generator of
Fortran expression strings, and batch gfortran / gcc evaluation services.

Neutral AST (nested tuples, hashable, json-able):
  ('int', v, kind|None)   ('real', text, kind|None)   ('log', bool)     kind '#py' marks a bare Python number
  ('var', name)           ('idx', name, (subs...))     names may be 'tt%i' (derived-type component)
  ('neg', x)              == Product((-1, x))          ('par', x) == Parenthesised{Add,Mul,Div,Pow}
  ('sum', (c...))  ('prod', (c...))  ('quot', n, d)  ('pow', b, e)
  ('cmp', op, l, r) op in == != < <= > >=   ('and', (c...)) ('or', (c...)) ('not', x) ('eqv', a, b) ('neqv', a, b)
  ('call', name, (args...))   ('cast', name, x, kind|None)

Types: 'i4', 'r4', 'r8', 'l'.  Values: Val(ty, v, err, mag, nt): err is an absolute error bound estimate that is
valid for any association order of unparenthesised sums (mag/nt carry the flattened additive terms).
"""
import math
import os
import re
import struct
import subprocess
from fractions import Fraction
from pathlib import Path

# ----------------------------------------------------------------------------------------------------------
# exceptions

class EvalError(Exception):
    """base"""


class Undefined(EvalError):
    """the expression has no defined value at this valuation (zero divisor, overflow, domain error)"""


class Overflow(Undefined):
    """an intermediate integer exceeds 32 bits in *this* association order (another order may be fine)"""


class Fragile(EvalError):
    """value is defined but ill-conditioned (comparison / truncation within the error bound)"""


class IllTyped(EvalError):
    """operands of the wrong type, unknown variable or function"""


# ----------------------------------------------------------------------------------------------------------
# environment: declared variables

KIND_OF = {'jpim': 'i4', 'jprb': 'r8', 'jprm': 'r4', 'ik4': 'i4'}
INTMAX = 2**31 - 1
U = {'r4': 2.0**-23, 'r8': 2.0**-52}      # generous unit round-offs


class Env:
    """Declared variables: name -> (ty, shape|None, role).  Roles steer the value sampler:
    'any' mixed-sign small, 'exp' small non-negative (exponents, subscripts-1), 'pos' strictly positive."""

    def __init__(self, derived=True, arrays=True):
        v = {}
        for n in ('i1', 'i2', 'i3', 'i4'):
            v[n] = ('i4', None, 'any', None)
        for n in ('k1', 'k2'):
            v[n] = ('i4', None, 'any', 'jpim')
        for n in ('n1', 'n2'):
            v[n] = ('i4', None, 'exp', None)
        for n in ('r1', 'r2', 'r3', 'r4'):
            v[n] = ('r8', None, 'any', 'jprb')
        for n in ('s1', 's2'):
            v[n] = ('r4', None, 'any', 'jprm')
        for n in ('p1', 'p2'):
            v[n] = ('r8', None, 'pos', 'jprb')
        for n in ('l1', 'l2', 'l3'):
            v[n] = ('l', None, 'any', None)
        if arrays:
            v['ia'] = ('i4', 4, 'any', None)
            v['ra'] = ('r8', 4, 'any', 'jprb')
        if derived:
            v['tt%i'] = ('i4', None, 'any', None)
            v['tt%x'] = ('r8', None, 'any', 'jprb')
            v['tt%n'] = ('i4', 3, 'any', None)
            v['tt%r'] = ('r8', 3, 'any', 'jprb')
        self.vars = v
        self.derived = derived

    def names(self, ty=None, shape=False, role=None, component=None):
        out = []
        for n, (t, s, r, _k) in self.vars.items():
            if ty is not None and t != ty:
                continue
            if bool(s) != bool(shape):
                continue
            if role is not None and r != role:
                continue
            if role is None and r != 'any':
                continue
            if component is not None and ('%' in n) != component:
                continue
            out.append(n)
        return out

    # -- value sampling ------------------------------------------------------------------------------
    def _sample(self, rng, ty, role):
        if ty == 'l':
            return rng.random() < 0.5
        if ty == 'i4':
            if role == 'exp':
                return rng.choice([0, 1, 1, 2, 2, 3])
            if rng.random() < 0.08:
                return 0
            return rng.choice([-1, 1]) * rng.choice([1, 2, 2, 3, 3, 4, 5, 6, 7, 9, 11])
        # reals: dyadic rationals so they are exact in both real kinds
        if role == 'pos':
            return rng.choice([0.5, 0.75, 1.25, 1.5, 2.0, 2.5, 3.0])
        if rng.random() < 0.05:
            return 0.0
        return rng.choice([-1, 1]) * rng.choice([0.25, 0.5, 0.75, 1.25, 1.5, 1.75, 2.0, 2.5, 3.0, 3.5, 4.5, 6.25])

    def valuation(self, rng):
        val = {}
        for n, (t, s, r, _k) in self.vars.items():
            val[n] = [self._sample(rng, t, r) for _ in range(s)] if s else self._sample(rng, t, r)
        return val

    # -- declarations --------------------------------------------------------------------------------
    FT = {'i4': 'integer', 'r4': 'real(kind=jprm)', 'r8': 'real(kind=jprb)', 'l': 'logical'}

    def fortran_params(self):
        return ('integer, parameter :: jprb = selected_real_kind(13,300), jprm = selected_real_kind(6,37), '
                'jpim = selected_int_kind(9), ik4 = selected_int_kind(9)\n')

    def fortran_decls(self):
        out = [self.fortran_params()]
        if self.derived:
            out.append('type ttype\n')
            for n, (t, s, _r, k) in self.vars.items():
                if '%' in n:
                    out.append(f'  {self._ft(t, k)} :: {n.split("%")[1]}' + (f'({s})' if s else '') + '\n')
            out.append('end type ttype\ntype(ttype) :: tt\n')
        for n, (t, s, _r, k) in self.vars.items():
            if '%' not in n:
                out.append(f'{self._ft(t, k)} :: {n}' + (f'({s})' if s else '') + '\n')
        return ''.join(out)

    def _ft(self, t, k):
        if t == 'i4':
            return f'integer(kind={k})' if k else 'integer'
        return self.FT[t]

    CT = {'i4': 'int', 'r4': 'float', 'r8': 'double', 'l': 'int'}

    def c_decls(self):
        out = []
        for n, (t, s, _r, _k) in self.vars.items():
            if '%' in n or s:
                continue
            out.append(f'{self.CT[t]} {n};')
        return '\n'.join(out) + '\n'

    # -- Loki scope ----------------------------------------------------------------------------------
    def loki_scope(self):
        """Return (scope, {name: loki variable}) with typed Scalars / Arrays (component names excluded unless derived)"""
        from loki import Scope
        from loki.expression import symbols as sym
        from loki.types import SymbolAttributes, BasicType, DerivedType
        sc = Scope()
        bt = {'i4': BasicType.INTEGER, 'r4': BasicType.REAL, 'r8': BasicType.REAL, 'l': BasicType.LOGICAL}
        out = {}
        parent = None
        if self.derived:
            parent = sym.Variable(name='tt', scope=sc, type=SymbolAttributes(DerivedType('ttype')))
        for kn in KIND_OF:
            sc.symbol_attrs[kn] = SymbolAttributes(BasicType.INTEGER, parameter=True)
        for n, (t, s, _r, k) in self.vars.items():
            kind = sym.Variable(name=k, scope=sc) if k else None
            shape = (sym.IntLiteral(s),) if s else None
            ty = SymbolAttributes(bt[t], kind=kind, shape=shape)
            if '%' in n:
                out[n] = sym.Variable(name=n, scope=sc, type=ty, parent=parent)
            else:
                out[n] = sym.Variable(name=n, scope=sc, type=ty)
        return sc, out


# ----------------------------------------------------------------------------------------------------------
# Loki <-> AST (uses only classes and their structural attributes, never a stringifier)

_PAR_OF = {'sum': 'ParenthesisedAdd', 'prod': 'ParenthesisedMul', 'quot': 'ParenthesisedDiv', 'pow': 'ParenthesisedPow',
           'neg': 'ParenthesisedMul'}


def from_loki(e):
    """Convert a Loki expression to the neutral AST, by node structure only."""
    from loki.expression import symbols as sym, operations as ops
    import pymbolic.primitives as pmbl
    if isinstance(e, bool):
        return ('log', e)
    if isinstance(e, int):
        return ('int', int(e), '#py')
    if isinstance(e, float):
        return ('real', repr(e), '#py')
    if isinstance(e, sym.IntLiteral):
        return ('int', e.value, _kind_name(e.kind))
    if isinstance(e, sym.FloatLiteral):
        return ('real', str(e.value), _kind_name(e.kind))
    if isinstance(e, sym.LogicLiteral):
        return ('log', bool(e.value))
    if isinstance(e, ops.Cast):
        return ('cast', str(e.name).lower(), from_loki(e.parameters[0]), _kind_name(e.kind))
    if isinstance(e, sym.InlineCall):
        args = tuple(from_loki(a) for a in e.parameters)
        kw = tuple((str(k).lower(), from_loki(v)) for k, v in e.kw_parameters.items()) if e.kw_parameters else ()
        fs = type(e.function).__name__
        if fs != 'ProcedureSymbol':
            # e.g. simplify() rebuilds calls with a DeferredTypeSymbol; cgen's choice of % vs fmod depends on it
            return ('call', str(e.function.name).lower(), args, kw, fs)
        if kw:
            return ('call', str(e.function.name).lower(), args, kw)
        return ('call', str(e.function.name).lower(), args)
    if isinstance(e, sym.Array):
        if e.dimensions:
            return ('idx', str(e.name).lower(), tuple(from_loki(d) for d in e.dimensions))
        return ('var', str(e.name).lower())
    if isinstance(e, (sym.MetaSymbol, sym.TypedSymbol)):
        return ('var', str(e.name).lower())
    par = isinstance(e, (ops.ParenthesisedAdd, ops.ParenthesisedMul, ops.ParenthesisedDiv, ops.ParenthesisedPow))
    wrap = (lambda x: ('par', x)) if par else (lambda x: x)
    if isinstance(e, pmbl.Sum):
        return wrap(('sum', tuple(from_loki(c) for c in e.children)))
    if isinstance(e, pmbl.Product):
        ch = e.children
        if len(ch) == 2 and isinstance(ch[0], int) and not isinstance(ch[0], bool) and ch[0] == -1:
            return wrap(('neg', from_loki(ch[1])))
        return wrap(('prod', tuple(from_loki(c) for c in ch)))
    if isinstance(e, pmbl.Quotient):
        return wrap(('quot', from_loki(e.numerator), from_loki(e.denominator)))
    if isinstance(e, pmbl.Power):
        return wrap(('pow', from_loki(e.base), from_loki(e.exponent)))
    if isinstance(e, pmbl.Comparison):
        return ('cmp', e.operator, from_loki(e.left), from_loki(e.right))
    if isinstance(e, pmbl.LogicalAnd):
        return ('and', tuple(from_loki(c) for c in e.children))
    if isinstance(e, pmbl.LogicalOr):
        return ('or', tuple(from_loki(c) for c in e.children))
    if isinstance(e, pmbl.LogicalNot):
        return ('not', from_loki(e.child))
    raise IllTyped(f'unsupported node {type(e).__name__}')


def _kind_name(k):
    if k is None:
        return None
    from loki.expression import symbols as sym
    if isinstance(k, sym.IntLiteral):
        return str(k.value)
    if isinstance(k, int):
        return str(k)
    name = getattr(k, 'name', None)
    return str(name if name is not None else k).lower()


def to_loki(a, lenv):
    """Build the Loki tree for AST `a`; lenv = (scope, {name: variable}) from Env.loki_scope()."""
    from loki.expression import symbols as sym, operations as ops
    scope, lvars = lenv
    rec = lambda x: to_loki(x, lenv)
    t = a[0]
    if t == 'int':
        if a[2] == '#py':
            return a[1]
        return sym.IntLiteral(a[1], kind=_kind_node(a[2], scope))
    if t == 'real':
        return sym.FloatLiteral(a[1], kind=_kind_node(a[2], scope))
    if t == 'log':
        return sym.LogicLiteral('true' if a[1] else 'false')
    if t == 'var':
        return lvars[a[1]]
    if t == 'idx':
        return lvars[a[1]].clone(dimensions=tuple(rec(s) for s in a[2]))
    if t == 'neg':
        return sym.Product((-1, rec(a[1])))
    if t == 'sum':
        return sym.Sum(tuple(rec(c) for c in a[1]))
    if t == 'prod':
        return sym.Product(tuple(rec(c) for c in a[1]))
    if t == 'quot':
        return sym.Quotient(rec(a[1]), rec(a[2]))
    if t == 'pow':
        return sym.Power(rec(a[1]), rec(a[2]))
    if t == 'par':
        x = a[1]
        if x[0] == 'sum':
            return ops.ParenthesisedAdd(tuple(rec(c) for c in x[1]))
        if x[0] == 'prod':
            return ops.ParenthesisedMul(tuple(rec(c) for c in x[1]))
        if x[0] == 'neg':
            return ops.ParenthesisedMul((-1, rec(x[1])))
        if x[0] == 'quot':
            return ops.ParenthesisedDiv(rec(x[1]), rec(x[2]))
        if x[0] == 'pow':
            return ops.ParenthesisedPow(rec(x[1]), rec(x[2]))
        return rec(x)       # Loki has no parenthesis node for other kinds
    if t == 'cmp':
        return sym.Comparison(rec(a[2]), a[1], rec(a[3]))
    if t == 'and':
        return sym.LogicalAnd(tuple(rec(c) for c in a[1]))
    if t == 'or':
        return sym.LogicalOr(tuple(rec(c) for c in a[1]))
    if t == 'not':
        return sym.LogicalNot(rec(a[1]))
    if t == 'call':
        if len(a) > 4 and a[4] == 'DeferredTypeSymbol':
            fsym = sym.DeferredTypeSymbol(a[1], scope=scope)
        else:
            fsym = sym.ProcedureSymbol(a[1], scope=scope)
        return sym.InlineCall(fsym, parameters=tuple(rec(x) for x in a[2]))
    if t == 'cast':
        return ops.Cast(a[1], rec(a[2]), kind=_kind_node(a[3], scope))
    raise ValueError(f'cannot build {t}')


def _kind_node(k, scope):
    from loki.expression import symbols as sym
    if k is None:
        return None
    if k.isdigit():
        return sym.IntLiteral(int(k))
    return sym.Variable(name=k, scope=scope)


def strip_par(a):
    """AST without 'par' wrappers for kinds Loki cannot represent (used to compare round trips)."""
    if not isinstance(a, tuple):
        return a
    if a and a[0] == 'par' and a[1][0] not in _PAR_OF:
        return strip_par(a[1])
    return tuple(strip_par(x) for x in a)


def kind_of(a):
    """Mechanism-level kind name of an AST node (used in classification keys)."""
    t = a[0]
    if t == 'par':
        return 'Parenthesised' + {'sum': 'Add', 'prod': 'Mul', 'neg': 'Neg', 'quot': 'Div', 'pow': 'Pow'}.get(a[1][0], 'X')
    if t == 'int':
        return 'NegIntLiteral' if a[1] < 0 else 'IntLiteral'
    if t == 'real':
        return 'NegFloatLiteral' if a[1].lstrip().startswith('-') else 'FloatLiteral'
    if t == 'call':
        return 'Call.' + a[1]
    return {'sum': 'Sum', 'prod': 'Product', 'quot': 'Quotient', 'pow': 'Power', 'neg': 'Neg', 'cmp': 'Comparison',
            'and': 'LogicalAnd', 'or': 'LogicalOr', 'not': 'LogicalNot', 'var': 'Var', 'idx': 'ArrayElem',
            'log': 'LogicLiteral', 'cast': 'Cast', 'eqv': 'Eqv', 'neqv': 'Neqv'}[t]


def children(a):
    """[(role, child)] of an AST node."""
    t = a[0]
    if t in ('sum', 'prod', 'and', 'or'):
        return [('first' if i == 0 else 'nonfirst', c) for i, c in enumerate(a[1])]
    if t == 'quot':
        return [('numerator', a[1]), ('denominator', a[2])]
    if t == 'pow':
        return [('base', a[1]), ('exponent', a[2])]
    if t in ('neg', 'not', 'par'):
        return [('operand', a[1])]
    if t == 'cmp':
        return [('left', a[2]), ('right', a[3])]
    if t in ('eqv', 'neqv'):
        return [('left', a[1]), ('right', a[2])]
    if t == 'call':
        return [(f'arg{i}', c) for i, c in enumerate(a[2])]
    if t == 'cast':
        return [('arg0', a[2])]
    if t == 'idx':
        return [(f'sub{i}', c) for i, c in enumerate(a[2])]
    return []


def replace_child(a, i, new):
    """AST `a` with its i-th child (in children() order) replaced."""
    t = a[0]
    if t in ('sum', 'prod', 'and', 'or'):
        ch = list(a[1]); ch[i] = new
        return (t, tuple(ch))
    if t in ('quot', 'pow', 'eqv', 'neqv'):
        l = list(a); l[1 + i] = new
        return tuple(l)
    if t in ('neg', 'not', 'par'):
        return (t, new)
    if t == 'cmp':
        l = list(a); l[2 + i] = new
        return tuple(l)
    if t == 'call':
        ch = list(a[2]); ch[i] = new
        return (t, a[1], tuple(ch)) + tuple(a[3:])
    if t == 'cast':
        return (t, a[1], new, a[3])
    if t == 'idx':
        ch = list(a[2]); ch[i] = new
        return (t, a[1], tuple(ch))
    raise ValueError(t)


def subtrees(a, path=()):
    """All (path, node) pairs, pre-order."""
    yield path, a
    for i, (_r, c) in enumerate(children(a)):
        yield from subtrees(c, path + (i,))


def size(a):
    return 1 + sum(size(c) for _r, c in children(a))


# ----------------------------------------------------------------------------------------------------------
# reference printers: fully parenthesised, structure only

_FOP = {'==': '==', '!=': '/=', '<': '<', '<=': '<=', '>': '>', '>=': '>='}


def _flit(a):
    if a[0] == 'int':
        s = str(abs(a[1])) + (f'_{a[2]}' if a[2] and a[2] != '#py' else '')
        return f'(-{s})' if a[1] < 0 else s
    txt = a[1].strip()
    neg = txt.startswith('-')
    txt = txt.lstrip('+-')
    if a[2] == '#py':
        txt = txt + '_jprb' if 'e' not in txt.lower() else txt.lower().replace('e', 'd')
    elif a[2]:
        txt = f'{txt}_{a[2]}'
    return f'(-{txt})' if neg else txt


def ref_fortran(a):
    """Fully parenthesised Fortran text of the AST."""
    r = ref_fortran
    t = a[0]
    if t in ('int', 'real'):
        return _flit(a)
    if t == 'log':
        return '.true.' if a[1] else '.false.'
    if t == 'var':
        return a[1]
    if t == 'idx':
        return f'{a[1]}({", ".join(r(s) for s in a[2])})'
    if t == 'par':
        return f'({r(a[1])})'
    if t == 'neg':
        return f'(-({r(a[1])}))'
    if t == 'sum':
        return '(' + ' + '.join(f'({r(c)})' for c in a[1]) + ')' if len(a[1]) <= 2 else _nest(a[1], ' + ', r)
    if t == 'prod':
        return '(' + ' * '.join(f'({r(c)})' for c in a[1]) + ')' if len(a[1]) <= 2 else _nest(a[1], ' * ', r)
    if t == 'quot':
        return f'(({r(a[1])}) / ({r(a[2])}))'
    if t == 'pow':
        return f'(({r(a[1])}) ** ({r(a[2])}))'
    if t == 'cmp':
        return f'(({r(a[2])}) {_FOP[a[1]]} ({r(a[3])}))'
    if t == 'and':
        return _nest(a[1], ' .and. ', r)
    if t == 'or':
        return _nest(a[1], ' .or. ', r)
    if t == 'not':
        return f'(.not. ({r(a[1])}))'
    if t == 'eqv':
        return f'(({r(a[1])}) .eqv. ({r(a[2])}))'
    if t == 'neqv':
        return f'(({r(a[1])}) .neqv. ({r(a[2])}))'
    if t == 'call':
        args = [r(x) for x in a[2]] + [f'{k}={r(v)}' for k, v in (a[3] if len(a) > 3 else ())]
        return f'{a[1]}({", ".join(args)})'
    if t == 'cast':
        return f'{a[1]}({r(a[2])}' + (f', kind={a[3]}' if a[3] else '') + ')'
    raise ValueError(t)


def _nest(ch, op, r):
    """left-nested fully parenthesised n-ary operation: (((a) op (b)) op (c))"""
    s = f'({r(ch[0])})'
    for c in ch[1:]:
        s = f'({s}{op}({r(c)}))'
    return s


_CT = {'i4': 'int', 'r4': 'float', 'r8': 'double', 'l': 'int'}


def ref_c(a, env):
    """Fully parenthesised C text with the tree's (Fortran) meaning; needs the helper functions of CBatch."""
    r = lambda x: ref_c(x, env)
    t = a[0]
    if t == 'int':
        return f'({a[1]})'
    if t == 'real':
        txt = a[1].strip().lower().replace('d', 'e')
        ty = static_type(a, env)
        return f'(({_CT[ty]})({txt}))'
    if t == 'log':
        return '1' if a[1] else '0'
    if t == 'var':
        return a[1]
    if t == 'par':
        return f'({r(a[1])})'
    if t == 'neg':
        return f'(-({r(a[1])}))'
    if t == 'sum':
        return _nest(a[1], ' + ', r)
    if t == 'prod':
        return _nest(a[1], ' * ', r)
    if t == 'quot':
        return f'(({r(a[1])}) / ({r(a[2])}))'
    if t == 'pow':
        tb, te = static_type(a[1], env), static_type(a[2], env)
        if tb == 'i4' and te == 'i4':
            return f'x_ipow({r(a[1])}, {r(a[2])})'
        ty = static_type(a, env)
        return f'(({_CT[ty]})pow(({r(a[1])}), ({r(a[2])})))'
    if t == 'cmp':
        return f'(({r(a[2])}) {a[1]} ({r(a[3])}))'
    if t == 'and':
        return _nest(a[1], ' && ', r)
    if t == 'or':
        return _nest(a[1], ' || ', r)
    if t == 'not':
        return f'(!({r(a[1])}))'
    if t == 'call' and a[1] == 'mod' and all(static_type(x, env) == 'i4' for x in a[2]):
        return f'(({r(a[2][0])}) % ({r(a[2][1])}))'
    if t == 'cast' and a[1] == 'real':
        return f'(({_CT[static_type(a, env)]})({r(a[2])}))'
    raise ValueError(f'no C reference for {t}')


# ----------------------------------------------------------------------------------------------------------
# static types

def _real_lit_type(a):
    k = a[2]
    if k in (None,):
        return 'r8' if 'd' in a[1].lower() else 'r4'
    if k == '#py':
        return 'r8'
    if k in KIND_OF:
        if KIND_OF[k][0] != 'r':
            raise IllTyped(f'real literal with integer kind {k}')
        return KIND_OF[k]
    if k == '4':
        return 'r4'
    if k == '8':
        return 'r8'
    raise IllTyped(f'unknown real kind {k}')


def _int_lit_type(a):
    k = a[2]
    if k in (None, '#py', '4') or KIND_OF.get(k) == 'i4':
        return 'i4'
    raise IllTyped(f'unknown integer kind {k}')


def _arith(t1, t2):
    if 'l' in (t1, t2):
        raise IllTyped('logical operand in arithmetic')
    if t1 == 'r8' or t2 == 'r8':
        return 'r8'
    if t1 == 'r4' or t2 == 'r4':
        return 'r4'
    return 'i4'


_ELEM1 = ('abs', 'sqrt', 'exp', 'log')


def static_type(a, env):
    """Fortran type of the AST under the declarations of env."""
    st = lambda x: static_type(x, env)
    t = a[0]
    if t == 'int':
        return _int_lit_type(a)
    if t == 'real':
        return _real_lit_type(a)
    if t == 'log':
        return 'l'
    if t in ('var', 'idx'):
        d = env.vars.get(a[1])
        if d is None:
            raise IllTyped(f'unknown variable {a[1]}')
        if (t == 'idx') != bool(d[1]):
            raise IllTyped(f'rank mismatch for {a[1]}')
        if t == 'idx':
            for s in a[2]:
                if st(s) != 'i4':
                    raise IllTyped('non-integer subscript')
        return d[0]
    if t in ('par', 'neg'):
        ty = st(a[1])
        if t == 'neg' and ty == 'l':
            raise IllTyped('minus on logical')
        return ty
    if t in ('sum', 'prod'):
        ty = st(a[1][0])
        if ty == 'l':
            raise IllTyped('logical operand in arithmetic')
        for c in a[1][1:]:
            ty = _arith(ty, st(c))
        return ty
    if t in ('quot', 'pow'):
        return _arith(st(a[1]), st(a[2]))
    if t == 'cmp':
        _arith(st(a[2]), st(a[3]))
        return 'l'
    if t in ('and', 'or'):
        for c in a[1]:
            if st(c) != 'l':
                raise IllTyped('non-logical operand of logical operator')
        return 'l'
    if t == 'not':
        if st(a[1]) != 'l':
            raise IllTyped('non-logical operand of .not.')
        return 'l'
    if t in ('eqv', 'neqv'):
        if st(a[1]) != 'l' or st(a[2]) != 'l':
            raise IllTyped('non-logical operand of .eqv.')
        return 'l'
    if t == 'cast':
        if a[1] == 'real':
            k = a[3]
            if st(a[2]) == 'l':
                raise IllTyped('real() of logical')
            if k is None:
                return 'r4'
            return _real_lit_type(('real', '0', k))
        if a[1] == 'int':
            if st(a[2]) == 'l':
                raise IllTyped('int() of logical')
            return 'i4'
        raise IllTyped(f'unknown cast {a[1]}')
    if t == 'call':
        if len(a) > 3 and a[3]:
            raise IllTyped('keyword arguments not modelled')
        n, args = a[1], a[2]
        tys = [st(x) for x in args]
        if n in ('abs',) and len(tys) == 1 and tys[0] != 'l':
            return tys[0]
        if n in ('sqrt', 'exp', 'log') and len(tys) == 1 and tys[0][0] == 'r':
            return tys[0]
        if n in ('min', 'max') and len(tys) >= 2 and len(set(tys)) == 1 and tys[0] != 'l':
            return tys[0]
        if n in ('mod', 'sign') and len(tys) == 2 and tys[0] == tys[1] and tys[0] != 'l':
            return tys[0]
        if n in ('nint', 'floor', 'ceiling') and len(tys) == 1 and tys[0][0] == 'r':
            return 'i4'
        if n == 'int' and len(tys) == 1 and tys[0] != 'l':
            return 'i4'
        if n == 'real' and len(tys) == 1 and tys[0] != 'l':
            return 'r4'
        raise IllTyped(f'unmodelled call {n}({",".join(tys)})')
    raise IllTyped(f'unknown node {t}')


# ----------------------------------------------------------------------------------------------------------
# evaluator

class Val:
    __slots__ = ('ty', 'v', 'err', 'mag', 'nt')

    def __init__(self, ty, v, err=0.0, mag=None, nt=1):
        self.ty, self.v, self.err = ty, v, err
        self.mag = abs(v) if mag is None and ty != 'l' else mag
        self.nt = nt

    def __repr__(self):
        return f'Val({self.ty},{self.v!r},err={self.err:.2g})' if self.ty[0] == 'r' else f'Val({self.ty},{self.v!r})'


def _rep(v, ty):
    """is float v exactly representable in real type ty"""
    if ty == 'r8':
        return True
    try:
        return struct.unpack('f', struct.pack('f', v))[0] == v
    except OverflowError:
        return False


def _chk_real(v):
    if v != v or math.isinf(v):
        raise Undefined('nan/inf')
    if abs(v) > 1e30 or (v != 0.0 and abs(v) < 1e-30):
        raise Undefined('real out of modelled range')
    return v


def _chk_int(v):
    if abs(v) > INTMAX:
        raise Overflow('integer overflow')
    return v


def _toreal(x, ty):
    """convert Val to real type ty"""
    if x.ty == ty:
        return x
    if x.ty == 'l':
        raise IllTyped('logical in arithmetic')
    v = float(x.v)
    err = x.err if x.ty[0] == 'r' else 0.0
    if not _rep(v, ty) or (x.ty == 'i4' and abs(x.v) >= 2**24 and ty == 'r4'):
        err += U[ty] * abs(v)
    return Val(ty, v, err)


def _exact_op(op, x, y, v, ty):
    """true if the float result v of exact operands is itself exact and representable"""
    try:
        fx, fy = Fraction(x), Fraction(y)
        if op == '+':
            f = fx + fy
        elif op == '*':
            f = fx * fy
        else:
            f = fx / fy
        return Fraction(v) == f and _rep(v, ty)
    except (ZeroDivisionError, OverflowError, ValueError):
        return False


def _trunc_div(a, b):
    q = abs(a) // abs(b)
    return q if (a >= 0) == (b >= 0) else -q


class Evaluator:
    """Evaluates ASTs under Fortran semantics.  c_pow=True models C's pow() for every Power (result double):
    used only to recognise one known cgen mechanism, never as the oracle."""

    def __init__(self, env, c_pow=False, maxerr_rel=1e-5):
        self.env = env
        self.c_pow = c_pow
        self.maxerr_rel = maxerr_rel

    def __call__(self, a, valuation):
        x = self.ev(a, valuation)
        if x.ty[0] == 'r' and x.err > self.maxerr_rel * abs(x.v) + 1e-9:
            raise Fragile('error bound too large')
        return x

    # -- arithmetic helpers ----------------------------------------------------------------------------
    def add(self, xs):
        ty = xs[0].ty
        for x in xs[1:]:
            ty = _arith(ty, x.ty)
        if ty == 'i4':
            return Val('i4', _chk_int(sum(x.v for x in xs)))
        # partial sums may be formed in the coarsest real kind among the operands (r4 + i4 is an r4 operation even
        # if an r8 term follows), and printing may legitimately re-associate: bound with the coarsest unit round-off
        coarse = 'r4' if any(x.ty == 'r4' for x in xs) else ty
        rs = [_toreal(x, ty) for x in xs]
        v = 0.0
        exact = all(r.err == 0.0 for r in rs)
        for r in rs:
            nv = v + r.v
            if exact and not _exact_op('+', v, r.v, nv, coarse):
                exact = False
            v = nv
        _chk_real(v)
        mag = sum(r.mag for r in rs)
        nt = sum(r.nt for r in rs)
        err = 0.0 if exact else sum(r.err for r in rs) + nt * U[coarse] * mag
        return Val(ty, v, err, mag=mag, nt=nt)

    def mul2(self, x, y):
        ty = _arith(x.ty, y.ty)
        if ty == 'i4':
            return Val('i4', _chk_int(x.v * y.v))
        x, y = _toreal(x, ty), _toreal(y, ty)
        v = _chk_real(x.v * y.v)
        if x.err == 0.0 and y.err == 0.0 and _exact_op('*', x.v, y.v, v, ty):
            return Val(ty, v)
        err = abs(x.v) * y.err + abs(y.v) * x.err + x.err * y.err + 2 * U[ty] * abs(v)
        return Val(ty, v, err)

    def div(self, x, y):
        ty = _arith(x.ty, y.ty)
        if ty == 'i4':
            if y.v == 0:
                raise Undefined('integer division by zero')
            return Val('i4', _chk_int(_trunc_div(x.v, y.v)))
        x, y = _toreal(x, ty), _toreal(y, ty)
        if y.v == 0.0 and y.err == 0.0:
            raise Undefined('real division by zero')
        if abs(y.v) <= 4 * y.err:
            raise Fragile('divisor within error bound of zero')
        v = _chk_real(x.v / y.v)
        if x.err == 0.0 and y.err == 0.0 and _exact_op('/', x.v, y.v, v, ty):
            return Val(ty, v)
        err = (x.err + abs(v) * y.err) / (abs(y.v) - y.err) + 2 * U[ty] * abs(v)
        return Val(ty, v, err)

    def power(self, x, y):
        ty = _arith(x.ty, y.ty)
        if self.c_pow:
            ty = 'r8'
            if x.ty == 'i4' and y.ty == 'i4':
                if x.v == 0 and y.v < 0:
                    raise Undefined('pow(0, negative)')
                try:
                    return Val('r8', _chk_real(float(x.v) ** y.v), 4 * U['r8'] * abs(float(x.v) ** y.v))
                except OverflowError:
                    raise Undefined('overflow') from None
        if ty == 'i4':
            b, e = x.v, y.v
            if e < 0:
                if b == 0:
                    raise Undefined('0 ** negative')
                return Val('i4', 1 if b == 1 else ((1 if e % 2 == 0 else -1) if b == -1 else 0))
            if abs(b) > 1 and e > 62:
                raise Overflow('integer overflow')
            return Val('i4', _chk_int(b ** e))
        if y.ty == 'i4':
            x = _toreal(x, ty)
            n = y.v
            if n == 0:
                return Val(ty, 1.0)
            if x.v == 0.0:
                if n < 0 or x.err > 0.0:
                    raise Undefined('0.0 ** non-positive')
                return Val(ty, 0.0)
            if abs(n) > 64:
                raise Undefined('exponent too large')
            if x.err > 0.01 * abs(x.v):
                raise Fragile('base badly conditioned')
            try:
                v = _chk_real(x.v ** n)
            except (OverflowError, ZeroDivisionError):
                raise Undefined('overflow') from None
            if x.err == 0.0 and n > 0:
                try:
                    if Fraction(v) == Fraction(x.v) ** n and _rep(v, ty):
                        return Val(ty, v)
                except OverflowError:
                    pass
            rel = abs(n) * (x.err / abs(x.v)) + (2 * abs(n) + 2) * U[ty]
            return Val(ty, v, 1.5 * rel * abs(v))
        # real exponent
        x, y = _toreal(x, ty), _toreal(y, ty)
        if x.v - 4 * x.err <= 0.0:
            raise Undefined('non-positive base with real exponent')
        try:
            v = _chk_real(x.v ** y.v)
        except (OverflowError, ZeroDivisionError, ValueError):
            raise Undefined('overflow') from None
        rel = abs(math.log(x.v)) * y.err + abs(y.v) * x.err / x.v
        return Val(ty, v, abs(v) * (1.5 * rel + 16 * U[ty]))

    # -- main dispatch ---------------------------------------------------------------------------------
    def ev(self, a, val):
        t = a[0]
        ev = lambda x: self.ev(x, val)
        if t == 'int':
            return Val(_int_lit_type(a), _chk_int(a[1]))
        if t == 'real':
            ty = _real_lit_type(a)
            txt = a[1].strip().lower().replace('d', 'e')
            try:
                v = float(txt)
                exact = Fraction(txt) == Fraction(v) and _rep(v, ty)
            except ValueError:
                raise IllTyped(f'bad real literal {a[1]!r}') from None
            return Val(ty, v, 0.0 if exact else U[ty] * abs(v))
        if t == 'log':
            return Val('l', bool(a[1]))
        if t == 'var':
            d = self.env.vars.get(a[1])
            if d is None or d[1]:
                raise IllTyped(f'unknown scalar {a[1]}')
            return Val(d[0], val[a[1]])
        if t == 'idx':
            d = self.env.vars.get(a[1])
            if d is None or not d[1] or len(a[2]) != 1:
                raise IllTyped(f'unknown array {a[1]}')
            s = ev(a[2][0])
            if s.ty != 'i4':
                raise IllTyped('non-integer subscript')
            if not 1 <= s.v <= d[1]:
                raise Undefined('subscript out of bounds')
            return Val(d[0], val[a[1]][s.v - 1])
        if t == 'par':
            x = ev(a[1])
            return Val(x.ty, x.v, x.err) if x.ty != 'l' else x      # parentheses fix the association
        if t == 'neg':
            x = ev(a[1])
            if x.ty == 'l':
                raise IllTyped('minus on logical')
            return Val(x.ty, -x.v, x.err, mag=x.mag, nt=x.nt)
        if t == 'sum':
            return self.add([ev(c) for c in a[1]])
        if t == 'prod':
            xs = [ev(c) for c in a[1]]
            r = xs[0]
            if r.ty == 'l':
                raise IllTyped('logical in product')
            if len(xs) == 1:
                return Val(r.ty, r.v, r.err)
            for x in xs[1:]:
                r = self.mul2(r, x)
            return r
        if t == 'quot':
            return self.div(ev(a[1]), ev(a[2]))
        if t == 'pow':
            return self.power(ev(a[1]), ev(a[2]))
        if t == 'cmp':
            l, r = ev(a[2]), ev(a[3])
            ty = _arith(l.ty, r.ty)
            if ty != 'i4':
                l, r = _toreal(l, ty), _toreal(r, ty)
                if (l.err or r.err) and abs(l.v - r.v) <= 4 * (l.err + r.err) + 1e-12 * max(abs(l.v), abs(r.v)):
                    raise Fragile('comparison within error bound')
            op = a[1]
            res = {'==': l.v == r.v, '!=': l.v != r.v, '<': l.v < r.v, '<=': l.v <= r.v, '>': l.v > r.v,
                   '>=': l.v >= r.v}[op]
            return Val('l', res)
        if t in ('and', 'or'):
            xs = [ev(c) for c in a[1]]
            if any(x.ty != 'l' for x in xs):
                raise IllTyped('non-logical operand of logical operator')
            return Val('l', all(x.v for x in xs) if t == 'and' else any(x.v for x in xs))
        if t == 'not':
            x = ev(a[1])
            if x.ty != 'l':
                raise IllTyped('non-logical operand of .not.')
            return Val('l', not x.v)
        if t in ('eqv', 'neqv'):
            l, r = ev(a[1]), ev(a[2])
            if l.ty != 'l' or r.ty != 'l':
                raise IllTyped('non-logical operand of .eqv.')
            return Val('l', (l.v == r.v) if t == 'eqv' else (l.v != r.v))
        if t == 'cast':
            x = ev(a[2])
            ty = static_type(a, self.env)
            if a[1] == 'real':
                return _toreal(x, ty) if x.ty != ty else Val(x.ty, x.v, x.err)
            return self.to_int(x, 'int')
        if t == 'call':
            return self.call(a, val)
        raise IllTyped(f'unknown node {t}')

    def to_int(self, x, how):
        if x.ty == 'l':
            raise IllTyped('conversion of logical')
        if x.ty == 'i4':
            return Val('i4', x.v)
        f = {'int': math.trunc, 'nint': lambda z: int(math.floor(abs(z) + 0.5)) * (1 if z >= 0 else -1),
             'floor': math.floor, 'ceiling': math.ceil}[how]
        lo, hi, mid = f(x.v - 2 * x.err), f(x.v + 2 * x.err), f(x.v)
        if x.err and not lo == hi == mid:
            raise Fragile('conversion to integer within error bound of a step')
        return Val('i4', _chk_int(int(mid)))

    def call(self, a, val):
        n = a[1]
        static_type(a, self.env)
        xs = [self.ev(x, val) for x in a[2]]
        if n == 'abs':
            x = xs[0]
            return Val(x.ty, abs(x.v), x.err)
        if n in ('min', 'max'):
            v = (min if n == 'min' else max)(x.v for x in xs)
            return Val(xs[0].ty, v, max(x.err for x in xs))
        if n == 'mod':
            x, y = xs
            if x.ty == 'i4':
                if y.v == 0:
                    raise Undefined('mod by zero')
                return Val('i4', x.v - _trunc_div(x.v, y.v) * y.v)
            raise Fragile('real mod not modelled')
        if n == 'sign':
            x, y = xs
            if x.ty == 'i4':
                return Val('i4', abs(x.v) if y.v >= 0 else -abs(x.v))
            if y.v == 0.0 or abs(y.v) <= 4 * y.err:
                raise Fragile('sign of (almost) zero')
            return Val(x.ty, abs(x.v) if y.v > 0 else -abs(x.v), x.err)
        if n == 'sqrt':
            x = xs[0]
            if x.v - 4 * x.err <= 0.0:
                if x.v == 0.0 and x.err == 0.0:
                    return Val(x.ty, 0.0)
                raise Undefined('sqrt of non-positive')
            v = math.sqrt(x.v)
            return Val(x.ty, v, x.err / (2 * math.sqrt(x.v - 4 * x.err)) + 2 * U[x.ty] * v)
        if n == 'exp':
            x = xs[0]
            if abs(x.v) > 60:
                raise Undefined('exp range')
            v = _chk_real(math.exp(x.v))
            return Val(x.ty, v, v * (1.5 * x.err + 8 * U[x.ty]))
        if n == 'log':
            x = xs[0]
            if x.v - 4 * x.err <= 0.0:
                raise Undefined('log of non-positive')
            v = math.log(x.v)
            return Val(x.ty, v, x.err / (x.v - 4 * x.err) + 8 * U[x.ty] * max(abs(v), 1e-3))
        if n in ('int', 'nint', 'floor', 'ceiling'):
            return self.to_int(xs[0], n)
        if n == 'real':
            return _toreal(xs[0], 'r4') if xs[0].ty != 'r4' else xs[0]
        raise IllTyped(f'unmodelled call {n}')


def agree(x, obs, slack=16.0):
    """Does the observed value `obs` (int | float | bool | Val) agree with the tree value `x` (Val)?"""
    oerr = 0.0
    if isinstance(obs, Val):
        oerr, obs = (obs.err if obs.ty[0] == 'r' else 0.0), obs.v
    if x.ty == 'l' or isinstance(obs, bool):
        if x.ty == 'l' and isinstance(obs, int):        # C prints logicals as 0 / 1
            return obs in (0, 1, True, False) and bool(x.v) == bool(obs)
        return False
    if x.ty == 'i4' and isinstance(obs, int):
        return x.v == obs
    try:
        a, b = float(x.v), float(obs)
    except (TypeError, ValueError, OverflowError):
        return False
    if b != b or math.isinf(b):
        return False
    u = U['r4'] if x.ty == 'r4' else U['r8']
    tol = slack * (x.err + oerr) + 8 * u * max(abs(a), abs(b)) + 1e-300
    return abs(a - b) <= tol


# ----------------------------------------------------------------------------------------------------------
# batch evaluation services

def _run(cmd, cwd, timeout, stdin=None):
    try:
        p = subprocess.run(cmd, cwd=cwd, capture_output=True, text=True, timeout=timeout, input=stdin,
                           errors='replace', check=False)
        return p.returncode, p.stdout, p.stderr
    except subprocess.TimeoutExpired:
        return -999, '', 'timeout'


class BatchError(Exception):
    """the batch service itself failed (toolchain problem, timeout): inconclusive, never a verdict"""


ERR_COMPILE = ('error', 'compile')
ERR_RUNTIME = ('error', 'runtime')


class _Batch:
    """Common driver: evaluate texts[k] at valuations[v] for mask[k][v]; bisects on compile or run-time failure.
    Result: list (per text) of dict {v: value} or ('error', 'compile'|'runtime')."""
    MAXN = 400
    suffix = ''

    def __init__(self, env, valuations, workdir, timeout=300):
        self.env, self.vals, self.wd = env, valuations, Path(workdir)
        self.wd.mkdir(parents=True, exist_ok=True)
        self.timeout = timeout
        self.compiles = 0
        self.runs = 0
        self.bisections = 0
        self.first_error = {}

    def evaluate(self, texts, masks=None):
        n = len(texts)
        if masks is None:
            masks = [[True] * len(self.vals)] * n
        out = [None] * n
        todo = [list(range(i, min(i + self.MAXN, n))) for i in range(0, n, self.MAXN)]
        while todo:
            idxs = todo.pop()
            if not idxs:
                continue
            status, res, msg = self._try([texts[i] for i in idxs], [masks[i] for i in idxs])
            if status == 'ok':
                for i, r in zip(idxs, res):
                    out[i] = r
                continue
            if status == 'fatal':
                raise BatchError(msg)
            if len(idxs) == 1:
                out[idxs[0]] = ERR_COMPILE if status == 'compile' else ERR_RUNTIME
                self.first_error.setdefault(idxs[0], msg[:400])
                continue
            self.bisections += 1
            bad = self._culprits(msg, len(idxs)) if status == 'compile' else None
            if bad:
                good = [i for j, i in enumerate(idxs) if j not in bad]
                for j in sorted(bad):
                    todo.append([idxs[j]])
                todo.append(good)
            else:
                h = len(idxs) // 2
                todo.append(idxs[:h])
                todo.append(idxs[h:])
        return out

    def _culprits(self, msg, n):      # pylint: disable=unused-argument
        return None


_FHEAD = '''module xh
implicit none
interface pr
  module procedure pr_i4, pr_i8, pr_r4, pr_r8, pr_l
end interface
contains
subroutine pr_i4(k, v, x)
  integer, intent(in) :: k, v
  integer(kind=4), intent(in) :: x
  write(*,'(A,1X,I0,1X,I0,1X,I0)') 'I', k, v, x
end subroutine
subroutine pr_i8(k, v, x)
  integer, intent(in) :: k, v
  integer(kind=8), intent(in) :: x
  write(*,'(A,1X,I0,1X,I0,1X,I0)') 'I', k, v, x
end subroutine
subroutine pr_r4(k, v, x)
  integer, intent(in) :: k, v
  real(kind=4), intent(in) :: x
  write(*,'(A,1X,I0,1X,I0,1X,ES16.8E3)') 'S', k, v, x
end subroutine
subroutine pr_r8(k, v, x)
  integer, intent(in) :: k, v
  real(kind=8), intent(in) :: x
  write(*,'(A,1X,I0,1X,I0,1X,ES26.17E3)') 'R', k, v, x
end subroutine
subroutine pr_l(k, v, x)
  integer, intent(in) :: k, v
  logical, intent(in) :: x
  write(*,'(A,1X,I0,1X,I0,1X,L1)') 'L', k, v, x
end subroutine
end module xh
'''


def _fval(x, ty):
    if ty == 'l':
        return '.true.' if x else '.false.'
    if ty == 'i4':
        return str(x)
    return repr(float(x)).replace('e', 'd') + ('' if 'e' in repr(float(x)) else 'd0') if ty == 'r8' else f'real({float(x)!r}d0, kind=jprm)'


class FortranBatch(_Batch):
    """gfortran (-O0, default -std=gnu) evaluation of expression texts."""
    LINE_RE = re.compile(r'^x\.f90:(\d+):', re.M)

    def _program(self, texts, masks):
        env = self.env
        L = [_FHEAD, 'program xp\nuse xh\nimplicit none\n', env.fortran_decls(), 'integer :: xv\n',
             f'do xv = 1, {len(self.vals)}\n', 'select case (xv)\n']
        for vi, val in enumerate(self.vals):
            L.append(f'case ({vi + 1})\n')
            for n, (t, s, _r, _k) in env.vars.items():
                if s:
                    L.append(f'{n} = (/ {", ".join(_fval(x, t) for x in val[n])} /)\n')
                else:
                    L.append(f'{n} = {_fval(val[n], t)}\n')
        L.append('end select\n')
        head = ''.join(L)
        nhead = head.count('\n')
        body = []
        self._line2idx = {}
        for k, (txt, m) in enumerate(zip(texts, masks)):
            cond = ' .or. '.join(f'xv == {vi + 1}' for vi, ok in enumerate(m) if ok)
            if not cond:
                continue
            if all(m):
                body.append(f'call pr({k}, xv, {txt})\n')
            else:
                body.append(f'if ({cond}) call pr({k}, xv, {txt})\n')
            self._line2idx[nhead + len(body)] = k
        return head + ''.join(body) + 'end do\nend program xp\n'

    def _culprits(self, msg, n):
        bad = {self._line2idx[int(m)] for m in self.LINE_RE.findall(msg) if int(m) in self._line2idx}
        return bad if bad and len(bad) < n else None

    def _try(self, texts, masks):
        src = self._program(texts, masks)
        (self.wd / 'x.f90').write_text(src)
        self.compiles += 1
        rc, _out, err = _run(['gfortran', '-O0', '-w', '-ffree-line-length-none', '-fno-range-check', 'x.f90', '-o', 'x.exe'],
                             self.wd, self.timeout)
        if rc == -999:
            return 'fatal', None, 'gfortran timeout'
        if rc != 0:
            if 'Error' not in err:
                return 'fatal', None, 'gfortran failed: ' + err[-400:]
            return 'compile', None, err
        self.runs += 1
        rc, out, err = _run([str(self.wd / 'x.exe')], self.wd, self.timeout)
        if rc == -999:
            return 'fatal', None, 'program timeout'
        if rc != 0:
            return 'runtime', None, f'rc={rc} ' + err[-300:]
        return 'ok', _parse_out(out, len(texts)), ''


def _parse_out(out, n):
    res = [dict() for _ in range(n)]
    for line in out.splitlines():
        p = line.split()
        if len(p) != 4 or p[0] not in 'ISRL':
            continue
        k, v = int(p[1]), int(p[2]) - 1
        if p[0] == 'I':
            res[k][v] = int(p[3])
        elif p[0] == 'L':
            res[k][v] = p[3] in ('T', '1')
        else:
            try:
                res[k][v] = float(p[3])
            except ValueError:
                res[k][v] = float('nan')
    return res


_CHEAD = '''#include <stdio.h>
#include <stdbool.h>
#include <float.h>
#include <math.h>
static int x_ipow(int b, int e) { int r = 1; if (e < 0) { if (b == 1) return 1; if (b == -1) return (e % 2) ? -1 : 1; return 0; }
  while (e-- > 0) r *= b; return r; }
static void pr_i(int k, int v, long long x) { printf("I %d %d %lld\\n", k, v, x); }
static void pr_d(int k, int v, double x) { printf("R %d %d %.17e\\n", k, v, x); }
static void pr_f(int k, int v, float x) { printf("S %d %d %.9e\\n", k, v, (double)x); }
#define PR(k, v, x) _Generic((x), int: pr_i, long: pr_i, long long: pr_i, _Bool: pr_i, unsigned: pr_i, float: pr_f, \\
   double: pr_d, long double: pr_d)(k, v, x)
'''


class CBatch(_Batch):
    """gcc (-O0) evaluation of C expression texts; scalars only."""
    LINE_RE = re.compile(r'^x\.c:(\d+):\d+: error', re.M)

    def _program(self, texts, masks):
        """every expression lives in its own function with by-value parameters, so a printed `--x` (decrement)
        cannot disturb the variables seen by the other expressions"""
        env = self.env
        sc = [(n, env.CT[t]) for n, (t, s, _r, _k) in env.vars.items() if not s and '%' not in n]
        params = ', '.join(f'{ct} {n}' for n, ct in sc)
        args = ', '.join(n for n, _ct in sc)
        head = _CHEAD
        nhead = head.count('\n')
        body = []
        self._line2idx = {}
        calls = []
        for k, (txt, m) in enumerate(zip(texts, masks)):
            cond = ' || '.join(f'xv == {vi + 1}' for vi, ok in enumerate(m) if ok)
            if not cond:
                continue
            body.append(f'static void e{k}(int xv, {params}) {{ PR({k}, xv, {txt}); }}\n')
            self._line2idx[nhead + len(body)] = k
            calls.append(f'if ({cond}) e{k}(xv, {args});\n')
        L = [env.c_decls(), 'int main(void) {\n', f'for (int xv = 1; xv <= {len(self.vals)}; xv++) {{\n', 'switch (xv) {\n']
        for vi, val in enumerate(self.vals):
            L.append(f'case {vi + 1}:\n')
            for n, (t, s, _r, _k) in env.vars.items():
                if s or '%' in n:
                    continue
                x = val[n]
                L.append(f'{n} = {int(x) if t in ("l", "i4") else repr(float(x))};\n')
            L.append('break;\n')
        L.append('}\n')
        return head + ''.join(body) + ''.join(L) + ''.join(calls) + '}\nreturn 0;\n}\n'

    def _culprits(self, msg, n):
        bad = {self._line2idx[int(m)] for m in self.LINE_RE.findall(msg) if int(m) in self._line2idx}
        return bad if bad and len(bad) < n else None

    def _try(self, texts, masks):
        (self.wd / 'x.c').write_text(self._program(texts, masks))
        self.compiles += 1
        rc, _out, err = _run(['gcc', '-O0', '-w', '-std=gnu11', 'x.c', '-o', 'xc.exe', '-lm'], self.wd, self.timeout)
        if rc == -999:
            return 'fatal', None, 'gcc timeout'
        if rc != 0:
            if 'error' not in err:
                return 'fatal', None, 'gcc failed: ' + err[-400:]
            return 'compile', None, err
        self.runs += 1
        rc, out, err = _run([str(self.wd / 'xc.exe')], self.wd, self.timeout)
        if rc == -999:
            return 'fatal', None, 'program timeout'
        if rc != 0:
            return 'runtime', None, f'rc={rc} ' + err[-300:]
        res = _parse_out(out, len(texts))
        return 'ok', res, ''


# ----------------------------------------------------------------------------------------------------------
# Fortran-frontend parsing service

_FPARSER_READY = False


_SUSPECT = re.compile(r'[-+*/]\s*[-+]|\.\s*\.|\*\*\s*[-+]')


def fp_parse(texts, env, lhs_types=None, precheck=False):
    """Parse `x = <text>` for every text with Loki's FP frontend inside one typed routine.
    Returns a list of Loki rhs expressions, or the exception for texts the frontend rejects."""
    from loki import Subroutine
    from loki.frontend import FP
    from loki.ir import FindNodes, Assignment
    from fparser.two import Fortran2003
    global _FPARSER_READY
    if not _FPARSER_READY:
        from fparser.two.parser import ParserFactory
        ParserFactory().create(std='f2008')
        _FPARSER_READY = True
    out = [None] * len(texts)
    ok = []
    for i, t in enumerate(texts):
        if not precheck and not _SUSPECT.search(t):
            ok.append(i)
            continue
        try:
            e = Fortran2003.Expr(t)
            if e is None:
                raise ValueError('fparser: no match')
            ok.append(i)
        except Exception as ex:   # pylint: disable=broad-except
            out[i] = ex
    if not ok:
        return out
    lines = []
    for j, i in enumerate(ok):
        lt = (lhs_types[i] if lhs_types else None) or 'r8'
        lines.append(f'zz{lt} = {texts[i]}')
    src = ('subroutine xt()\nimplicit none\n' + env.fortran_decls() +
           'integer :: zzi4\nreal(kind=jprb) :: zzr8\nreal(kind=jprm) :: zzr4\nlogical :: zzl\n' +
           '\n'.join(lines) + '\nend subroutine xt\n')
    try:
        r = Subroutine.from_source(src, frontend=FP)
        asg = FindNodes(Assignment).visit(r.body)
        if len(asg) != len(ok):
            raise ValueError(f'{len(asg)} assignments for {len(ok)} statements')
        for i, a in zip(ok, asg):
            out[i] = a.rhs
    except Exception as ex:   # pylint: disable=broad-except
        if len(ok) == 1:
            out[ok[0]] = ex
        else:
            h = len(ok) // 2
            for part in (ok[:h], ok[h:]):
                res = fp_parse([texts[i] for i in part], env, [lhs_types[i] for i in part] if lhs_types else None,
                               precheck=len(part) <= 4)
                for i, x in zip(part, res):
                    out[i] = x
    return out


# ----------------------------------------------------------------------------------------------------------
# shapes (parent kind, role, child kind, child type) -- used for generator gating, features and keys

def shapes(a, env, out=None):
    """Set of (parent kind, role, child kind, child type class) over all edges of the AST."""
    out = set() if out is None else out
    pk = kind_of(a)
    for role, c in children(a):
        try:
            ty = static_type(c, env)
        except EvalError:
            ty = '?'
        out.add((pk, role, kind_of(c), ty))
        shapes(c, env, out)
    return out


def left_spine_int_div(c, env):
    """does the left spine of a multiplicative child (through first factors, numerators, unary minus) contain an
    integer division?  That is when printing the child bare at a non-first position changes the value."""
    while True:
        t = c[0]
        if t == 'quot':
            if static_type_safe(c, env) == 'i4':
                return True
            c = c[1]
        elif t == 'prod':
            for x in c[1][1:]:
                if x[0] == 'quot' and static_type_safe(x, env) == 'i4':
                    return True
            c = c[1][0]
        elif t == 'neg':
            c = c[1]
        else:
            return False


def find_edges(a, env, patterns, out=None):
    """patterns (parent kind, role, child kind[, type prefix | predicate(child, env)]) that occur in the AST"""
    out = set() if out is None else out
    pk = kind_of(a)
    for role, c in children(a):
        ck = kind_of(c)
        for p in patterns:
            if p[0] == pk and p[1] == role and p[2] == ck and edge_cond(p, c, env):
                out.add(tuple(p[:3]))
        find_edges(c, env, patterns, out)
    return out


def edge_cond(p, c, env):
    if len(p) < 4 or p[3] is None:
        return True
    if callable(p[3]):
        return p[3](c, env)
    return static_type_safe(c, env).startswith(p[3])


def match_shapes(shape_set, patterns):
    """patterns: iterable of (parent, role, child[, type]); type optional ('i4', 'r' for any real, ...)."""
    hit = set()
    for p in patterns:
        for s in shape_set:
            if s[:3] == tuple(p[:3]) and (len(p) < 4 or p[3] is None or s[3].startswith(p[3])):
                hit.add(tuple(p))
    return hit


# Fortran operator levels for deciding where a frontend would have needed parentheses
_LEVEL = {'or': 1, 'and': 2, 'not': 3, 'cmp': 4, 'sum': 5, 'neg': 5, 'prod': 6, 'quot': 6, 'pow': 7, 'eqv': 0, 'neqv': 0}


def level(a):
    if a[0] in ('int',) and a[1] < 0:
        return 5
    if a[0] == 'real' and a[1].lstrip().startswith('-'):
        return 5
    return _LEVEL.get(a[0], 9)


def syntax_needs_paren(parent, role, child):
    """Would standard Fortran need parentheses around `child` at this position of `parent` to denote the tree?"""
    lc = level(child)
    t = parent[0]
    if t == 'sum':
        if role == 'first':
            return lc < 5
        return lc < 6 and child[0] != 'neg'
    if t == 'neg':
        return lc < 6
    if t == 'prod':
        return lc < 6 if role == 'first' else lc < 7
    if t == 'quot':
        return lc < 6 if role == 'numerator' else lc < 7
    if t == 'pow':
        return lc < 9 if role == 'base' else lc < 7
    if t == 'cmp':
        return lc < 5
    if t == 'not':
        return lc < 4
    if t == 'and':
        return lc < 2 if role == 'first' else lc < 3
    if t == 'or':
        return lc < 1 if role == 'first' else lc < 2
    return False


# ----------------------------------------------------------------------------------------------------------
# tree generator

DEFAULT_GEN_FLAGS = {
    'depth': 4,               # maximum nesting depth
    'par_mode': 'none',       # 'none' | 'random' | 'frontend': where explicit parenthesis nodes are placed
    'avoid': (),              # shape patterns (parent, role, child[, type]) that are wrapped / replaced
    'neg_literals': True,     # IntLiteral(-3), FloatLiteral('-1.5')
    'nested_neg': True,       # Product((-1, Product((-1, x))))
    'nary': True,             # sums / products with more than two children, Product((-1, a, b))
    'calls': True, 'casts': True, 'arrays': True, 'components': True, 'kinds': True, 'real4': True,
    'target': 'fortran',      # 'c': scalars, no intrinsic calls except integer mod, real casts only
    'int_power': True,        # integer ** integer
    'd_exponent': True,       # real literals with d exponent
}


class TreeGen:
    """Seeded generator of well-typed neutral ASTs (convert with to_loki)."""

    def __init__(self, rng, env, flags=None):
        self.rng, self.env = rng, env
        self.f = dict(DEFAULT_GEN_FLAGS)
        self.f.update(flags or {})
        self.c = self.f['target'] == 'c'
        if self.c:
            self.f.update(arrays=False, components=False, calls=False)

    # -- leaves ---------------------------------------------------------------------------------------
    def int_leaf(self):
        r, f = self.rng, self.f
        x = r.random()
        if x < 0.55:
            pool = self.env.names('i4', component=False)
            return ('var', r.choice(pool))
        if x < 0.62 and f['components']:
            return ('var', 'tt%i')
        if x < 0.70 and f['arrays']:
            if f['components'] and r.random() < 0.3:
                return ('idx', 'tt%n', (self.subscript(3),))
            return ('idx', 'ia', (self.subscript(4),))
        v = r.choice([0, 1, 2, 2, 3, 3, 4, 5, 7, 10])
        if f['neg_literals'] and r.random() < 0.2 and v:
            v = -v
        k = r.choice(['jpim', None, None]) if f['kinds'] else None
        return ('int', v, k)

    def subscript(self, n):
        r = self.rng
        x = r.random()
        if x < 0.5:
            return ('int', r.randint(1, n), None)
        if x < 0.8 or n < 4:
            return ('sum', (('var', r.choice(['n1', 'n2'])), ('int', 1, None))) if n >= 4 else ('int', r.randint(1, n), None)
        return ('call', 'max', (('int', 1, None), ('call', 'min', (('var', r.choice(['n1', 'n2'])), ('int', n, None)))))

    def real_leaf(self, pos=False):
        r, f = self.rng, self.f
        x = r.random()
        if pos:
            if x < 0.6:
                return ('var', r.choice(['p1', 'p2']))
            return ('real', r.choice(['0.5', '1.5', '2.0', '1.25', '3.0', '2.5e0']), r.choice(['jprb', None]) if f['kinds'] else None)
        if x < 0.5:
            pool = self.env.names('r8', component=False) + (self.env.names('r4') if f['real4'] else []) + ['p1']
            return ('var', r.choice(pool))
        if x < 0.56 and f['components']:
            return ('var', 'tt%x')
        if x < 0.64 and f['arrays']:
            if f['components'] and r.random() < 0.3:
                return ('idx', 'tt%r', (self.subscript(3),))
            return ('idx', 'ra', (self.subscript(4),))
        txt = r.choice(['0.5', '1.5', '2.0', '0.25', '3.0', '1.75', '0.1', '2.5e0', '1.0e-1', '4.', '.5', '12.5'])
        if f['d_exponent'] and r.random() < 0.15:
            txt = r.choice(['1.5d0', '2.5d-1', '1.0d1', '0.1d0'])
            k = None
        else:
            k = r.choice(['jprb', 'jprb', 'jprm' if f['real4'] else 'jprb', None]) if f['kinds'] else None
        if f['neg_literals'] and r.random() < 0.15:
            txt = '-' + txt
        return ('real', txt, k)

    def exponent(self, depth, real_base):
        """small exponents keep powers in range"""
        r = self.rng
        x = r.random()
        if x < 0.45:
            v = r.choice([0, 1, 2, 2, 2, 3])
            if real_base and self.f['neg_literals'] and r.random() < 0.2:
                return ('int', -r.choice([1, 2]), None)
            return ('int', v, None)
        if x < 0.75:
            return ('var', r.choice(['n1', 'n2']))
        if x < 0.85:
            return self.wrapc('sum', ('sum', (('var', 'n1'), ('int', 1, None))), None)
        if x < 0.92 and real_base:
            return ('neg', ('var', r.choice(['n1', 'n2'])))
        if x < 0.96 and depth > 1:
            return ('pow', ('int', r.choice([1, 2]), None), ('var', r.choice(['n1', 'n2'])))
        return ('prod', (('var', 'n1'), ('var', 'n2')))

    # -- composite ------------------------------------------------------------------------------------
    def gen(self, ty, depth=None):
        """ty: 'i' integer, 'r' real, 'l' logical"""
        depth = self.f['depth'] if depth is None else depth
        return {'i': self.gen_int, 'r': self.gen_real, 'l': self.gen_log}[ty](depth)

    def _nchildren(self):
        if self.f['nary'] and self.rng.random() < 0.25:
            return self.rng.choice([3, 3, 4])
        return 2

    def operand(self, ty, depth):
        """operand of an arithmetic node of result class ty: for real results some operands may be integer"""
        if ty == 'r' and self.rng.random() < 0.3:
            return self.gen_int(depth)
        return self.gen(ty, depth)

    def build(self, kind, parts):
        """assemble node of `kind` from child list, applying the parenthesis policy to every child"""
        if kind in ('sum', 'prod', 'and', 'or'):
            node = (kind, tuple(parts))
        elif kind in ('neg', 'not'):
            node = (kind, parts[0])
        else:
            node = (kind,) + tuple(parts)
        for i, (role, c) in enumerate(children(node)):
            node = replace_child(node, i, self.policy(node, role, c))
        return node

    def policy(self, parent, role, c):
        f, r = self.f, self.rng
        wrapable = c[0] in _PAR_OF
        if c[0] in ('int', 'real') and level(c) == 5 and f['par_mode'] == 'frontend' and syntax_needs_paren(parent, role, c):
            c = ('par', ('neg', self._abs_lit(c)))
        elif wrapable:
            if f['par_mode'] == 'frontend' and syntax_needs_paren(parent, role, c):
                c = ('par', c)
            elif f['par_mode'] == 'random' and r.random() < 0.3:
                c = ('par', c)
        if f['avoid']:
            pk, ck = kind_of(parent), kind_of(c)
            for p in f['avoid']:
                if p[0] == pk and p[1] == role and p[2] == ck and edge_cond(p, c, self.env):
                    c = self._dodge(c)
                    break
        return c

    def _abs_lit(self, c):
        return ('int', -c[1], c[2]) if c[0] == 'int' else ('real', c[1].lstrip().lstrip('-'), c[2])

    def _dodge(self, c):
        if c[0] in _PAR_OF:
            return ('par', c)
        if c[0] in ('int', 'real') and level(c) == 5:
            return ('par', ('neg', self._abs_lit(c)))
        if c[0] == 'not':
            return c[1] if c[1][0] != 'not' else ('var', 'l1')
        ty = static_type(c, self.env)
        return ('var', {'i4': 'i1', 'r8': 'r1', 'r4': 's1', 'l': 'l1'}[ty])

    def wrapc(self, _k, node, _x):
        return node

    def gen_int(self, depth):
        r, f = self.rng, self.f
        if depth <= 0 or r.random() < 0.12:
            return self.int_leaf()
        d = depth - 1
        x = r.random()
        if x < 0.22:
            return self.build('sum', [self.sum_term('i', d) for _ in range(self._nchildren())])
        if x < 0.44:
            parts = [self.gen_int(d) for _ in range(self._nchildren())]
            if f['nary'] and r.random() < 0.1:
                parts = [('int', -1, r.choice(['#py', None]))] + parts
            return self.build('prod', parts)
        if x < 0.64:
            return self.build('quot', [self.gen_int(d), self.gen_int(d)])
        if x < 0.74 and f['int_power']:
            return self.build('pow', [self.small_int(d), self.exponent(d, False)])
        if x < 0.84:
            return self.build('neg', [self.neg_operand('i', d)])
        if x < 0.94 and (f['calls'] or self.c):
            if self.c:
                return ('call', 'mod', (self.gen_int(d), self.gen_int(d)))
            n = r.choice(['abs', 'min', 'max', 'mod', 'sign', 'nint', 'int'])
            if n == 'abs':
                return ('call', n, (self.gen_int(d),))
            if n in ('nint', 'int'):
                if n == 'int' and f['casts'] and r.random() < 0.6:
                    return ('cast', 'int', self.gen_real(min(d, 2)), None)
                return ('call', n, (self.gen_real(min(d, 2)),))
            return ('call', n, (self.gen_int(d), self.gen_int(d)))
        return self.int_leaf()

    def small_int(self, depth):
        """base of an integer power: small magnitude"""
        r = self.rng
        x = r.random()
        if x < 0.35:
            return ('var', r.choice(['n1', 'n2', 'i1', 'i2', 'k1']))
        if x < 0.55:
            v = r.choice([1, 2, 2, 3])
            return ('int', -v if (self.f['neg_literals'] and r.random() < 0.35) else v, None)
        if x < 0.75 and depth > 0 and self.f['int_power']:
            return self.build('pow', [self.small_int(depth - 1), ('int', r.choice([0, 1, 2, 2]), None)])
        if x < 0.85:
            return self.build('neg', [('var', r.choice(['n1', 'n2', 'i3']))])
        if depth > 0:
            return self.gen_int(min(depth, 2))
        return ('var', 'n1')

    def sum_term(self, ty, depth):
        if self.rng.random() < 0.4:
            return self.build('neg', [self.neg_operand(ty, depth)])
        return self.operand(ty, depth)

    def neg_operand(self, ty, depth):
        r = self.rng
        if self.f['nested_neg'] and r.random() < 0.15:
            return self.build('neg', [self.operand(ty, max(depth - 1, 0))])
        return self.operand(ty, depth) if ty == 'i' or r.random() < 0.8 else self.gen_real(depth)

    def gen_real(self, depth):
        r, f = self.rng, self.f
        if depth <= 0 or r.random() < 0.12:
            return self.real_leaf()
        d = depth - 1
        x = r.random()
        if x < 0.22:
            parts = [self.sum_term('r', d) for _ in range(self._nchildren())]
            return self.build('sum', self._force_real(parts, d))
        if x < 0.44:
            parts = self._force_real([self.operand('r', d) for _ in range(self._nchildren())], d)
            if f['nary'] and r.random() < 0.1:
                parts = [('int', -1, r.choice(['#py', None]))] + parts
            return self.build('prod', parts)
        if x < 0.64:
            return self.build('quot', self._force_real([self.operand('r', d), self.operand('r', d)], d))
        if x < 0.76:
            if r.random() < 0.7:
                base = self.gen_real(d) if r.random() < 0.7 else self.gen_pos(d)
                return self.build('pow', [base, self.exponent(d, True)])
            e = self.gen_real(min(d, 1)) if r.random() < 0.6 else ('real', r.choice(['0.5', '1.5', '2.0']), 'jprb')
            base = self.gen_pos(d) if r.random() < 0.8 else self.build('sum', [('call', 'abs', (self.gen_real(min(d, 1)),)), ('real', '0.5', 'jprb')]) if f['calls'] else self.gen_pos(d)
            return self.build('pow', [base, e])
        if x < 0.84:
            inner = self.gen_real(d)
            if f['nested_neg'] and r.random() < 0.15:
                inner = self.build('neg', [inner])
            return self.build('neg', [inner])
        if x < 0.90 and f['casts']:
            k = r.choice(['jprb', 'jprb', 'jprm' if f['real4'] else 'jprb', None if f['real4'] else 'jprb'])
            return ('cast', 'real', self.gen_int(d) if r.random() < 0.7 else self.gen_real(d), k)
        if x < 0.97 and f['calls']:
            n = r.choice(['abs', 'min', 'max', 'sqrt', 'sign', 'exp'])
            if n == 'abs':
                return ('call', n, (self.gen_real(d),))
            if n == 'sqrt':
                return ('call', n, (self.gen_pos(d),))
            if n == 'exp':
                return ('call', n, (self.gen_real(min(d, 1)),))
            a, b = self.gen_real8(d), self.gen_real8(d)
            return ('call', n, (a, b))
        return self.real_leaf()

    def gen_real8(self, depth):
        """real(jprb) typed expression (min/max/sign need operands of one kind)"""
        a = self.gen_real(depth)
        if static_type(a, self.env) != 'r8':
            a = ('cast', 'real', a, 'jprb') if self.f['casts'] else ('var', 'r1')
        return a

    def _force_real(self, parts, depth):
        if all(static_type(p, self.env) == 'i4' for p in parts):
            parts[self.rng.randrange(len(parts))] = self.gen_real(depth)
        return parts

    def gen_pos(self, depth):
        r = self.rng
        if depth <= 0 or r.random() < 0.4:
            return self.real_leaf(pos=True)
        d = depth - 1
        x = r.random()
        if x < 0.3:
            return self.build('prod', [self.gen_pos(d), self.gen_pos(d)])
        if x < 0.5:
            return self.build('quot', [self.gen_pos(d), self.gen_pos(d)])
        if x < 0.7:
            return self.build('sum', [self.gen_pos(d), self.gen_pos(d)])
        if x < 0.85:
            return self.build('pow', [self.gen_pos(d), self.exponent(d, True)])
        return self.real_leaf(pos=True)

    def gen_log(self, depth):
        r = self.rng
        if depth <= 0 or r.random() < 0.08:
            x = r.random()
            if x < 0.7:
                return ('var', r.choice(['l1', 'l2', 'l3']))
            return ('log', r.random() < 0.5)
        d = depth - 1
        x = r.random()
        if x < 0.45:
            op = r.choice(['==', '!=', '<', '<=', '>', '>='])
            if r.random() < 0.5:
                return self.build('cmp', [op, self.gen_int(d), self.gen_int(d)])
            return self.build('cmp', [op, self.operand('r', d), self.operand('r', d)])
        if x < 0.65:
            return self.build('and', [self.gen_log(d) for _ in range(self._nchildren())])
        if x < 0.85:
            return self.build('or', [self.gen_log(d) for _ in range(self._nchildren())])
        return self.build('not', [self.gen_log(d)])


# ----------------------------------------------------------------------------------------------------------
# text-level generator of Fortran expression strings (for the standalone parser)

DEFAULT_TEXT_FLAGS = {
    'depth': 3,
    'hostile': False,        # allow every construct below; otherwise the listed ones are avoided
    # constructs that are avoided unless hostile (known parse_expr mechanisms, see C07):
    'neg_before_pow': False, 'long_int_mulchain': False, 'float_kind': False, 'numeric_kind': False,
    'digit_kind': False, 'eqv': False, 'bare_component': False, 'not_before_cmp': False, 'digit_dot_op': False,
    'd_exponent': False, 'positional_kind': False,
    'redundant_parens': 0.15, 'dot_ops': 0.4, 'upper': 0.15, 'spaces': True,
    'calls': True, 'arrays': True, 'components': True,
}


class TextGen:
    """Generates (text, ast): a well-formed standard Fortran expression string and the AST it denotes under the
    Fortran grammar (R1002-R1022: ** right-assoc above * /, unary sign at add-operand level, relational above
    .not. above .and. above .or. above .eqv.).  The AST uses binary nodes, left-folded as the standard groups."""

    DOT = {'==': '.eq.', '!=': '.ne.', '<': '.lt.', '<=': '.le.', '>': '.gt.', '>=': '.ge.'}

    def __init__(self, rng, env, flags=None):
        self.rng, self.env = rng, env
        self.f = dict(DEFAULT_TEXT_FLAGS)
        self.f.update(flags or {})
        if self.f['hostile']:
            for k in ('neg_before_pow', 'long_int_mulchain', 'float_kind', 'numeric_kind', 'digit_kind', 'eqv',
                      'bare_component', 'not_before_cmp', 'digit_dot_op', 'd_exponent', 'positional_kind'):
                self.f[k] = True
        self.features = set()

    def sp(self, op, tight=False):
        if not self.f['spaces']:
            return op if not op.startswith('.') else f' {op} '
        x = self.rng.random()
        if op.startswith('.'):
            return f' {op} ' if x < 0.8 else op
        if tight:
            return op if x < 0.7 else f' {op} '
        return f' {op} ' if x < 0.6 else op

    def dot(self, left, op, right):
        """left <dot-operator> right; `2.ge.k` (digit glued to the operator) only when digit_dot_op is allowed"""
        glue = self.f['spaces'] and self.rng.random() < 0.2
        if glue and left[-1:].isdigit():
            if not self.f['digit_dot_op']:
                glue = False
            else:
                self.features.add('digit-dot-operator')
        if not self.f['spaces'] and left[-1:].isdigit() and not self.f['digit_dot_op']:
            return f'{left} {op}{right}' if False else f'{left} {op} {right}'
        if glue:
            return f'{left}{op}{right}'
        if not self.f['spaces']:
            if left[-1:].isdigit():
                self.features.add('digit-dot-operator')
            return f'{left}{op}{right}'
        return f'{left} {op} {right}'

    def case(self, s):
        return s.upper() if self.rng.random() < self.f['upper'] else s

    def maybe_par(self, text, ast):
        if self.rng.random() < self.f['redundant_parens']:
            self.features.add('redundant-parens')
            return f'({text})', ('par', ast)
        return text, ast

    # -- primaries -------------------------------------------------------------------------------------
    def primary(self, ty, depth, pos=False, last=False, after_op=True):
        """returns (text, ast, is_component)"""
        r, f = self.rng, self.f
        x = r.random()
        if depth > 0 and x < 0.22 and not pos:
            t, a = self.arith(ty, depth - 1)
            return f'({t})', ('par', a), False
        if depth > 0 and x < 0.34 and f['calls'] and not pos:
            return self.call(ty, depth - 1) + (False,)
        if ty == 'i':
            if x < 0.6:
                return self.case(r.choice(self.env.names('i4', component=False) + ['n1'])), None, False
            if x < 0.68 and f['arrays']:
                s, sa = self.subscript(4)
                return f'{self.case("ia")}({s})', ('idx', 'ia', (sa,)), False
            if x < 0.78 and f['components']:
                if r.random() < 0.6:
                    return 'tt%i', ('var', 'tt%i'), True
                s, sa = self.subscript(3)
                return f'tt%n({s})', ('idx', 'tt%n', (sa,)), True
            v = r.choice([1, 2, 2, 3, 3, 4, 5, 7, 10])
            k = None
            y = r.random()
            if y < 0.2:
                k = 'jpim'
            elif y < 0.27 and f['numeric_kind']:
                k = '4'; self.features.add('numeric-kind')
            elif y < 0.34 and f['digit_kind']:
                k = 'ik4'; self.features.add('digit-kind')
            return str(v) + (f'_{self.case(k)}' if k else ''), ('int', v, k), False
        # real
        if pos:
            if x < 0.6:
                return r.choice(['p1', 'p2']), None, False
            txt = r.choice(['0.5', '1.5', '2.0', '2.5e0', '3.'])
            return txt, ('real', txt, None), False
        if x < 0.6:
            return self.case(r.choice(self.env.names('r8', component=False) + self.env.names('r4') + ['p1'])), None, False
        if x < 0.68 and f['arrays']:
            s, sa = self.subscript(4)
            return f'ra({s})', ('idx', 'ra', (sa,)), False
        if x < 0.78 and f['components']:
            if r.random() < 0.6:
                return 'tt%x', ('var', 'tt%x'), True
            s, sa = self.subscript(3)
            return f'tt%r({s})', ('idx', 'tt%r', (sa,)), True
        txt = r.choice(['0.5', '1.5', '2.0', '0.25', '3.', '.5', '2.5e0', '1.0E-1', '1.5d0', '2.5D-1', '12.5', '1e1', '0.1d0'])
        if 'd' in txt.lower():
            if not f['d_exponent']:
                txt = '1.25'
            else:
                self.features.add('d-exponent')
        k = None
        if 'd' not in txt.lower():
            y = r.random()
            if y < 0.3 and f['float_kind']:
                k = r.choice(['jprb', 'jprb', 'jprm'])
                self.features.add('float-kind')
            elif y < 0.36 and f['float_kind'] and f['numeric_kind']:
                k = '8'; self.features.add('numeric-kind')
        if k and 'e' not in txt.lower() and '.' not in txt:
            k = None
        return txt + (f'_{self.case(k)}' if k else ''), ('real', txt, k), False

    def subscript(self, n):
        r = self.rng
        x = r.random()
        if x < 0.5 or n < 4:
            v = r.randint(1, n)
            return str(v), ('int', v, None)
        nm = r.choice(['n1', 'n2'])
        if x < 0.8:
            return f'{nm}{self.sp("+")}1', ('sum', (('var', nm), ('int', 1, None)))
        return f'max(1, min({nm}, {n}))', ('call', 'max', (('int', 1, None), ('call', 'min', (('var', nm), ('int', n, None)))))

    def call(self, ty, depth):
        r = self.rng
        self.features.add('call')
        if ty == 'i':
            n = r.choice(['abs', 'min', 'max', 'mod', 'sign', 'nint', 'int'])
            if n == 'abs':
                t, a = self.arith('i', depth)
                return f'{self.case(n)}({t})', ('call', n, (a,))
            if n in ('nint', 'int'):
                t, a = self.arith('r', depth, strict=True)
                if n == 'int':
                    return f'{self.case(n)}({t})', ('cast', 'int', a, None)
                return f'{self.case(n)}({t})', ('call', n, (a,))
            (t1, a1), (t2, a2) = self.arith('i', depth), self.arith('i', depth)
            return f'{self.case(n)}({t1}, {t2})', ('call', n, (a1, a2))
        n = r.choice(['abs', 'sqrt', 'real', 'real', 'exp', 'max', 'min'])
        if n == 'abs':
            t, a = self.arith('r', depth, strict=True)
            return f'{self.case(n)}({t})', ('call', n, (a,))
        if n == 'sqrt':
            t, a, _c = self.primary('r', 0, pos=True)
            return f'sqrt({t})', ('call', n, (a if a else ('var', t.lower()),))
        if n == 'exp':
            t, a = self.arith('r', 0, strict=True)
            return f'exp({t})', ('call', n, (a,))
        if n in ('max', 'min'):
            outs = []
            for _ in range(2):
                t, a = self.arith('i', depth)
                outs.append((f'real({t}, kind=jprb)', ('cast', 'real', a, 'jprb')))
            return f'{n}({outs[0][0]}, {outs[1][0]})', ('call', n, (outs[0][1], outs[1][1]))
        t, a = self.arith('i', depth)
        x = r.random()
        if x < 0.4:
            return f'{self.case("real")}({t}, kind=jprb)', ('cast', 'real', a, 'jprb')
        if x < 0.7 and self.f['positional_kind']:
            self.features.add('positional-kind')
            return f'real({t}, jprb)', ('cast', 'real', a, 'jprb')
        return f'real({t})', ('cast', 'real', a, None)

    # -- arithmetic ------------------------------------------------------------------------------------
    def _leaf_ast(self, t, a):
        return a if a is not None else ('var', t.lower())

    def factor(self, ty, depth, last=False, strict=False):
        """mult-operand: primary [** mult-operand]; returns (text, ast, kind) kind in 'prim'|'pow'|'comp'"""
        r, f = self.rng, self.f
        opty = ty
        if ty == 'r' and not strict and r.random() < 0.3:
            opty = 'i'
        x = r.random()
        if x < 0.25:
            realexp = opty == 'r' and r.random() < 0.3
            bt, ba, bc = self.primary(opty, depth, pos=realexp, last=False)
            if bc and not f['bare_component']:
                bt, bc = f'({bt})', False
                ba = ('par', self._leaf_ast(bt, ba)) if False else ba
            if bc:
                self.features.add('component-before-operator')
            ba = self._leaf_ast(bt.strip('()'), ba) if ba is None else ba
            if realexp:
                et, ea = r.choice([('0.5', ('real', '0.5', None)), ('1.5', ('real', '1.5', None)), ('r1', ('var', 'r1')), ('s1', ('var', 's1'))])
            else:
                y = r.random()
                if y < 0.5:
                    v = r.choice([0, 1, 2, 2, 3])
                    et, ea = str(v), ('int', v, None)
                elif y < 0.8:
                    nm = r.choice(['n1', 'n2'])
                    et, ea = nm, ('var', nm)
                elif y < 0.9:
                    nm = r.choice(['n1', 'n2'])          # right-associative chain a**b**c
                    v = r.choice([1, 2])
                    et, ea = f'{v}{self.sp("**", True)}{nm}', ('pow', ('int', v, None), ('var', nm))
                    self.features.add('pow-chain')
                elif opty == 'r':
                    nm = r.choice(['n1', 'n2'])
                    et, ea = f'(-{nm})', ('par', ('neg', ('var', nm)))
                else:
                    et, ea = '(n1 + 1)', ('par', ('sum', (('var', 'n1'), ('int', 1, None))))
            self.features.add('pow')
            return f'{bt}{self.sp("**", True)}{et}', ('pow', ba, ea), 'pow'
        t, a, c = self.primary(opty, depth, last=last)
        a = self._leaf_ast(t, a)
        return t, a, ('comp' if c else 'prim')

    def term(self, ty, depth, last=False, strict=False):
        """add-operand: chain of factors with * and /; returns (text, ast, first_kind)"""
        r, f = self.rng, self.f
        n = r.choice([1, 1, 2, 2, 3, 3, 4, 5])
        if depth <= 0:
            n = min(n, 2)
        ops = [r.choice('*/') for _ in range(n - 1)]
        allreal = False
        if n >= 4 and '/' in ops and not f['long_int_mulchain']:
            if ty == 'i':
                ops = ['*'] * (n - 1) if r.random() < 0.5 else ops[:2]
                n = len(ops) + 1
            else:
                allreal = True
        if n >= 4 and '/' in ops and ty == 'r' and not allreal:
            self.features.add('long-mixed-mulchain')
        if n >= 4 and '/' in ops and ty == 'i':
            self.features.add('long-int-mulchain')
        text, ast, first = None, None, None
        for i in range(n):
            islast = last and i == n - 1
            ft, fa, fk = self.factor(ty, depth, last=islast, strict=strict or allreal or (ty == 'r' and n == 1))
            if fk == 'comp' and i < n - 1 and not f['bare_component']:
                ft, fa, fk = f'({ft})', fa, 'prim'
            elif fk == 'comp' and i < n - 1:
                self.features.add('component-before-operator')
            if i == 0:
                text, ast, first = ft, fa, fk
            else:
                op = ops[i - 1]
                text = f'{text}{self.sp(op, True)}{ft}'
                ast = ('prod', (ast, fa)) if op == '*' else ('quot', ast, fa)
        if n > 1:
            self.features.add('mulchain%d' % min(n, 4))
        if ty == 'r' and static_type_safe(ast, self.env) == 'i4':
            t2, a2, c2 = self.primary('r', 0)
            if c2 and not f['bare_component']:
                t2, c2 = f'({t2})', False
            if n > 1 or not f['bare_component']:
                text, ast = f'({text})', ('par', ast)        # keeps components / powers away from the new operator
            text, ast = f'{text}{self.sp("*", True)}{t2}', ('prod', (ast, self._leaf_ast(t2.strip('()'), a2)))
        return text, ast, first

    def arith(self, ty, depth, last=False, strict=False):
        """level-2 expression: [sign] term {(+|-) term}"""
        r, f = self.rng, self.f
        n = r.choice([1, 1, 1, 2, 2, 3])
        text, ast = None, None
        for i in range(n):
            tt, ta, first = self.term(ty, depth, last=(last and i == n - 1), strict=strict)
            if i == 0:
                x = r.random()
                if x < 0.25:
                    if first == 'pow' and not f['neg_before_pow']:
                        # avoid -a**b: parenthesise the whole term
                        tt, ta = f'({tt})', ('par', ta)
                    elif first == 'pow':
                        self.features.add('neg-before-pow')
                    self.features.add('unary-minus')
                    text, ast = f'-{tt}' if r.random() < 0.8 else f'- {tt}', ('neg', ta)
                elif x < 0.3:
                    self.features.add('unary-plus')
                    text, ast = f'+{tt}', ta
                else:
                    text, ast = tt, ta
            else:
                op = r.choice('+-')
                text = f'{text}{self.sp(op)}{tt}'
                ast = ('sum', (ast, ta if op == '+' else ('neg', ta)))
        return text, ast

    # -- logical ---------------------------------------------------------------------------------------
    def relop(self, op):
        if self.rng.random() < self.f['dot_ops']:
            self.features.add('dot-relop')
            return self.case(self.DOT[op])
        return self.sp({'!=': '/='}.get(op, op))

    def comparison(self, depth, last=False):
        r = self.rng
        op = r.choice(['==', '!=', '<', '<=', '>', '>='])
        ty = r.choice('ir')
        (lt, la), (rt, ra_) = self.arith(ty, depth), self.arith(ty if r.random() < 0.7 else 'i', depth, last=last)
        self.features.add('cmp')
        ro = self.relop(op)
        if ro.startswith('.'):
            return self.dot(lt, ro, rt), ('cmp', op, la, ra_)
        return f'{lt}{ro}{rt}', ('cmp', op, la, ra_)

    def not_term(self, depth, last=False):
        r, f = self.rng, self.f
        x = r.random()
        neg = r.random() < 0.3
        if x < 0.5:
            t, a = self.comparison(depth, last=last and True)
            if neg:
                if not f['not_before_cmp']:
                    t, a = f'({t})', a
                else:
                    self.features.add('not-before-cmp')
        elif x < 0.75 or depth <= 0:
            if r.random() < 0.8:
                nm = r.choice(['l1', 'l2', 'l3'])
                t, a = self.case(nm), ('var', nm)
            else:
                b = r.random() < 0.5
                t, a = self.case('.true.' if b else '.false.'), ('log', b)
        else:
            t, a = self.logical(depth - 1)
            t = f'({t})'
        if neg:
            self.features.add('not')
            t, a = f'{self.case(".not.")}{" " if r.random() < 0.8 else ""}{t}', ('not', a)
        return t, a

    def and_term(self, depth, last=False):
        n = self.rng.choice([1, 1, 2, 3])
        text, ast = None, None
        for i in range(n):
            t, a = self.not_term(depth, last=last and i == n - 1)
            text, ast = (t, a) if i == 0 else (self.dot(text, self.case('.and.'), t), ('and', (ast, a)))
        return text, ast

    def or_term(self, depth, last=False):
        n = self.rng.choice([1, 1, 2, 3])
        text, ast = None, None
        for i in range(n):
            t, a = self.and_term(depth, last=last and i == n - 1)
            text, ast = (t, a) if i == 0 else (self.dot(text, self.case('.or.'), t), ('or', (ast, a)))
        return text, ast

    def logical(self, depth, last=False):
        r = self.rng
        t, a = self.or_term(depth, last=last)
        if self.f['eqv'] and r.random() < 0.25:
            t2, a2 = self.or_term(depth, last=last)
            op = r.choice(['eqv', 'neqv'])
            self.features.add('eqv')
            return f'{t} {self.case("." + op + ".")} {t2}', (op, a, a2)
        return t, a

    def generate(self, ty=None):
        """returns (text, ast, features)"""
        self.features = set()
        ty = ty or self.rng.choice('iirrl')
        d = self.f['depth']
        if ty == 'l':
            t, a = self.logical(d, last=True)
            if a[0] in ('var', 'log'):
                t, a = self.comparison(d, last=True)
        else:
            t, a = self.arith(ty, d, last=True)
            if ty == 'r' and not self.f['float_kind'] and self.rng.random() < 0.25:
                # a real literal with a kind as the very last token (the only place parse_expr's lexer accepts one)
                lit = self.rng.choice(['1.5', '2.25', '0.5e0', '12.5', '1.0E-1'])
                k = self.rng.choice(['jprb', 'jprm'])
                op = self.rng.choice('+-')
                t = f'{t}{self.sp(op)}{lit}_{self.case(k)}'
                la = ('real', lit, k)
                a = ('sum', (a, la if op == '+' else ('neg', la)))
                self.features.add('float-kind-last')
        return t, a, sorted(self.features)


def static_type_safe(a, env):
    try:
        return static_type(a, env)
    except EvalError:
        return '?'


def strip_all_par(a):
    """AST with every 'par' wrapper removed (same value for integers / logicals; reals within the error bound)."""
    if not isinstance(a, tuple):
        return a
    if a and a[0] == 'par':
        return strip_all_par(a[1])
    return tuple(strip_all_par(x) for x in a)


# ----------------------------------------------------------------------------------------------------------
# deterministic enumeration of (parent, role, child) shapes

def enumerate_pairs(target='fortran', mixed=True, par_variants=True):
    """All small trees P[role <- C] for parent/role P, child shape C and operand type class (int, real, mixed);
    deterministic order.  Used so that every (parent kind, position, child kind) edge is printed in every run."""
    out = []
    fills = {'int': [('var', 'i1'), ('var', 'i2'), ('var', 'i3'), ('var', 'k1')],
             'real': [('var', 'r1'), ('var', 'r2'), ('var', 'r3'), ('var', 'p1')],
             'mixed': [('var', 'i1'), ('var', 'i2'), ('var', 'r1'), ('var', 'i3')],
             'exp': [('int', 2, None), ('var', 'n2'), ('var', 'n1'), ('int', 1, None)]}
    if target != 'fortran' or not mixed:
        pass
    tys = ['int', 'real'] + (['mixed'] if mixed else [])

    def childs(f, ty):
        a, b, c = f[0], f[1], f[2]
        n = ('var', 'n1')
        neg = lambda x: ('neg', x)
        nl = ('int', -3, None) if ty in ('int', 'exp') else ('real', '-1.5', 'jprb')
        L = [('sum', (a, b)), ('sum', (a, neg(b))), ('sum', (neg(a), b)), ('prod', (a, b)), ('prod', (a, b, c)),
             ('prod', (('int', -1, '#py'), a, b)), ('prod', (('int', -1, None), a)), ('prod', (('quot', a, b), c)),
             ('prod', (a, ('quot', b, c))), ('prod', (neg(a), b)), ('prod', (a, neg(b))), ('quot', a, b),
             ('quot', neg(a), b), ('quot', ('prod', (a, b)), c), ('quot', a, neg(b)),
             ('pow', a, n), ('pow', neg(a), ('int', 2, None)), neg(a), neg(neg(a)), neg(('prod', (a, b))),
             neg(('quot', a, b)), neg(('sum', (a, b))), neg(('pow', a, ('int', 2, None))), nl, neg(nl)]
        if par_variants:
            L += [('par', x) for x in L if x[0] in _PAR_OF]
        if target == 'fortran':
            L += [('call', 'abs', (a,))]
            if ty in ('int', 'exp'):
                L += [('call', 'mod', (a, b)), ('call', 'max', (a, b))]
            else:
                L += [('cast', 'real', ('var', 'i2'), 'jprb')]
        elif ty in ('int', 'exp'):
            L += [('call', 'mod', (a, b))]
        else:
            L += [('cast', 'real', ('var', 'i2'), 'jprb')]
        return L

    for ty in tys:
        f = fills[ty]
        x, y = f[3], f[1]
        for C in childs(f, ty):
            P = [('sum', (C, x)), ('sum', (x, C)), ('sum', (x, C, y)), ('prod', (C, x)), ('prod', (x, C)), ('prod', (x, C, y)),
                 ('prod', (('int', -1, '#py'), C, x)), ('quot', C, x), ('quot', x, C), ('pow', C, ('int', 2, None)),
                 ('neg', C), ('cmp', '<', C, x), ('cmp', '>=', x, C)]
            if target == 'fortran':
                P += [('call', 'abs', (C,)), ('call', 'max', (x, C)) if ty != 'mixed' else ('call', 'abs', (('sum', (x, C)),))]
            out += P
        # exponent position: small operands
        for C in childs(fills['exp'], 'exp'):
            out.append(('pow', f[0], C))
    # logical edges
    la, lb, lc = ('var', 'l1'), ('var', 'l2'), ('var', 'l3')
    cmpn = ('cmp', '<', ('var', 'i1'), ('var', 'i2'))
    LC = [('and', (la, lb)), ('or', (la, lb)), ('not', la), ('not', ('not', la)), cmpn, ('not', cmpn), ('and', (la, lb, lc)),
          ('or', (('and', (la, lb)), lc)), ('and', (('or', (la, lb)), lc)), ('log', True)]
    for C in LC:
        out += [('and', (C, lc)), ('and', (lc, C)), ('or', (C, lc)), ('or', (lc, C)), ('not', C), ('and', (lc, C, la)), ('or', (lc, C, la))]
    seen, uniq = set(), []
    for a in out:
        if a not in seen:
            seen.add(a); uniq.append(a)
    return uniq


# ----------------------------------------------------------------------------------------------------------
# canonical standard-Fortran printer (minimal parentheses by the grammar levels; independent of Loki)

def surface_text(a):
    """Standard-conforming Fortran text denoting the AST: parentheses exactly where the grammar needs them
    ('par' nodes print theirs).  Negative literals and '#py' numbers print as parenthesised signed constants."""
    t = a[0]
    s = surface_text

    def ch(parent, role, c):
        txt = s(c)
        if syntax_needs_paren(parent, role, c) and not txt.startswith('(') or (
                syntax_needs_paren(parent, role, c) and _needs_wrap(txt)):
            return f'({txt})'
        return txt
    if t == 'int':
        k = f'_{a[2]}' if a[2] and a[2] != '#py' else ''
        return f'-{-a[1]}{k}' if a[1] < 0 else f'{a[1]}{k}'
    if t == 'real':
        txt = a[1].strip()
        return txt + (f'_{a[2]}' if a[2] and a[2] != '#py' else '')
    if t == 'log':
        return '.true.' if a[1] else '.false.'
    if t == 'var':
        return a[1]
    if t == 'idx':
        return f'{a[1]}({", ".join(s(x) for x in a[2])})'
    if t == 'par':
        return f'({s(a[1])})'
    if t == 'neg':
        return '-' + ch(a, 'operand', a[1])
    if t == 'sum':
        out = ch(a, 'first', a[1][0])
        for c in a[1][1:]:
            if c[0] == 'neg':
                out += ' - ' + ch(c, 'operand', c[1])
            else:
                out += ' + ' + ch(a, 'nonfirst', c)
        return out
    if t == 'prod':
        return '*'.join(ch(a, 'first' if i == 0 else 'nonfirst', c) for i, c in enumerate(a[1]))
    if t == 'quot':
        return ch(a, 'numerator', a[1]) + '/' + ch(a, 'denominator', a[2])
    if t == 'pow':
        return ch(a, 'base', a[1]) + '**' + ch(a, 'exponent', a[2])
    if t == 'cmp':
        return ch(a, 'left', a[2]) + f' {_FOP[a[1]]} ' + ch(a, 'right', a[3])
    if t == 'and':
        return ' .and. '.join(ch(a, 'first' if i == 0 else 'nonfirst', c) for i, c in enumerate(a[1]))
    if t == 'or':
        return ' .or. '.join(ch(a, 'first' if i == 0 else 'nonfirst', c) for i, c in enumerate(a[1]))
    if t == 'not':
        return '.not. ' + ch(a, 'operand', a[1])
    if t in ('eqv', 'neqv'):
        l = s(a[1]) if a[1][0] not in ('eqv', 'neqv') or True else s(a[1])
        r = s(a[2]) if a[2][0] not in ('eqv', 'neqv') else f'({s(a[2])})'
        return f'{l} .{t}. {r}'
    if t == 'call':
        return f'{a[1]}({", ".join(s(x) for x in a[2])})'
    if t == 'cast':
        return f'{a[1]}({s(a[2])}' + (f', kind={a[3]}' if a[3] else '') + ')'
    raise ValueError(t)


def _needs_wrap(txt):
    """txt starts with '(' but that parenthesis does not enclose the whole text"""
    depth = 0
    for i, c in enumerate(txt):
        if c == '(':
            depth += 1
        elif c == ')':
            depth -= 1
            if depth == 0:
                return i != len(txt) - 1
    return True
