"""C13 -- symbols are classified by their declared type and share it by scope (in-process reference checks)."""
from vlib.core import sighash

PID = 'C13'
LEVEL = 'exploration'
TECHNIQUE = 'reference classification function + type-sharing invariants checked after every step of random update histories'
LEVEL_TEXT = ('Every Variable(...) construction of the cross product (declared type x shape x subscripts x parent '
              'component x scope nesting x where declared x explicit type x spelling) is compared with a 6-line '
              'reference of the documented tier algorithm; in update histories the type seen by every previously '
              'created symbol is compared after every step with the type recorded for its name in its scope '
              '(attached) or with its own last type (unattached). A violation is a concrete construction/history.')
LEVEL_NOTE = ('"Type recorded for a name in a scope" is read through SymbolTable.lookup (monitored by C12) with the '
              'documented fall-back to the parent\'s typedef for members. Derived types come from one parsed module. '
              'Members are always created with their parent symbol. Symbols attached to a child scope get a copy of '
              'the parent entry on creation (implementation behaviour; the statement speaks about the attached scope).')
RULE = ('each case = 60 (quick) / 120 (thorough) constructions drawn from the cross product plus four update histories of '
        '40 / 100 steps (create attached/unattached, scope.symbol_attrs[name]=T, declare, var.type=T, clone(type=), '
        'clone(scope=), clone(), clone(scope=None), rescope) over 5 names in random spellings on 1-3 nested scopes '
        'and a sibling. Non-trivial = all five symbol classes constructed and at least 5 type updates observed by at '
        'least one attached symbol each; distinct = hash of constructions and history log.')
CASES = {'quick': 640, 'thorough': 6000}
THOROUGH_VALIDATED = True   # full thorough tier ran to completion with exit 0 on the unchanged tree
MIN_NONTRIVIAL = {'quick': 400, 'thorough': 4000}
ANCHORS = ['loki/expression/symbols.py']
REQUIRED_REACH = ['__new__', '_get_type_from_scope', '_lookup_type', 'clone', 'rescope']
REQUIRED_COUNTERS = {'constructions': 20000, 'history_steps': 40000, 'histories': 1500, 'oracle_evals': 400000,
                     'updates_seen_by_attached_symbols': 8000, 'unattached_isolation_checks': 20000}
ASSUMPTIONS = ['tier algorithm as documented on Variable, plus the derived-type-name tier (DerivedTypeSymbol) present '
               'in the code and documented on DerivedTypeSymbol',
               'an empty shape / DEFERRED dtype count as "no shape" / "no type" (truthiness, as in the code comments)',
               'operations that do not pass a type (create by name, clone(), clone(scope=), rescope) must not change '
               'the type seen by any existing symbol']
BUDGET_S = {'quick': 300, 'thorough': 3000}
CASE_TIMEOUT_S = 120

FCODE = """
module c13_types
  implicit none
  type inner_t
    real :: q(3)
    integer :: j
  end type inner_t
  type my_t
    real :: arr(5)
    integer :: n
    type(inner_t) :: inn
    type(inner_t) :: inns(2)
    procedure(real), pointer, nopass :: fp
  end type my_t
end module c13_types
"""
MEMBERS = {'my_t': ['arr', 'n', 'inn', 'inns', 'fp', 'nosuch'], 'inner_t': ['q', 'j', 'nosuch']}
NAMES = ['x', 'tmp', 'klev', 'fld', 'a']
ENV = {}


def setup_worker(tier, ctx):
    from loki import Sourcefile
    sf = Sourcefile.from_source(FCODE)
    mod = sf['c13_types']
    ENV['module'] = mod
    ENV['my_t'] = mod.typedef_map['my_t']
    ENV['inner_t'] = mod.typedef_map['inner_t']


def spell(rng, name):
    m = rng.random()
    if m < 0.35:
        return name
    if m < 0.55:
        return name.upper()
    return ''.join(c.upper() if rng.random() < 0.5 else c for c in name)


def desc(attrs):
    if attrs is None:
        return None
    return tuple(sorted((k, repr(v)) for k, v in attrs.__dict__.items()))


# ---------------------------------------------------------------------------
# the reference
# ---------------------------------------------------------------------------

def ref_class(name, t, dims):
    """Documented tier algorithm of the Variable factory."""
    from loki.types import BasicType, DerivedType, ProcedureType
    if t is not None and isinstance(t.dtype, ProcedureType):
        return 'ProcedureSymbol'
    if t is not None and isinstance(t.dtype, DerivedType) and name.lower() == t.dtype.name.lower():
        return 'DerivedTypeSymbol'
    if dims is not None or (t is not None and t.shape):
        return 'Array'
    if t is not None and t.dtype is not BasicType.DEFERRED:
        return 'Scalar'
    return 'DeferredTypeSymbol'


def recorded(parts, scope):
    """Type recorded for a (possibly member) name in a scope: table entry if not deferred, else typedef of parent."""
    from loki.types import BasicType, DerivedType
    rec = scope.symbol_attrs.lookup('%'.join(parts))
    if rec is not None and rec.dtype is not BasicType.DEFERRED:
        return rec
    if len(parts) > 1:
        pt = recorded(parts[:-1], scope)
        if pt is not None and isinstance(pt.dtype, DerivedType) and pt.dtype.typedef is not BasicType.DEFERRED:
            for tv in pt.dtype.typedef.variables:
                if tv.basename.lower() == parts[-1].lower():
                    return tv.type
    return rec


class TypeGen:
    def __init__(self, rng):
        self.rng = rng
        self.tag = 0

    def shape(self):
        from loki.expression import symbols as sym
        r = self.rng
        return r.choice([None, None, (sym.IntLiteral(4),), (sym.Scalar('n'),), (sym.IntLiteral(3), sym.Scalar('m'))])

    def make(self, kinds=None, allow_shape=True):
        from loki.types import SymbolAttributes, BasicType, DerivedType, ProcedureType
        from loki.expression import symbols as sym
        r = self.rng
        self.tag += 1
        k = r.choice(kinds or ['int', 'int', 'real', 'real', 'logical', 'char', 'complex', 'derived-linked',
                               'derived-inner', 'derived-unlinked', 'proc-sub', 'proc-fun', 'proc-intrinsic',
                               'deferred'])
        kw = {'tag': self.tag}
        if r.random() < 0.3:
            kw['intent'] = r.choice(['in', 'inout'])
        if allow_shape and not k.startswith('proc'):
            sh = self.shape()
            if sh:
                kw['shape'] = sh
        if k == 'int':
            dt = BasicType.INTEGER
        elif k == 'real':
            dt = BasicType.REAL
            if r.random() < 0.5:
                kw['kind'] = sym.Scalar('jprb')
        elif k == 'logical':
            dt = BasicType.LOGICAL
        elif k == 'char':
            dt = BasicType.CHARACTER
        elif k == 'complex':
            dt = BasicType.COMPLEX
        elif k == 'derived-linked':
            dt = DerivedType(typedef=ENV['my_t'])
        elif k == 'derived-inner':
            dt = DerivedType(typedef=ENV['inner_t'])
        elif k == 'derived-unlinked':
            dt = DerivedType(name=r.choice(['other_t', 'my_t']))
        elif k == 'proc-sub':
            dt = ProcedureType(name=r.choice(['my_sub', 'x']))
        elif k == 'proc-fun':
            dt = ProcedureType(name='my_fun', is_function=True, return_type=SymbolAttributes(BasicType.REAL))
        elif k == 'proc-intrinsic':
            dt = ProcedureType(name='max', is_function=True, is_intrinsic=True)
        else:
            dt = BasicType.DEFERRED
        return SymbolAttributes(dt, **kw), k


def dims_choice(rng):
    from loki.expression import symbols as sym
    return rng.choice(['absent', 'absent', 'absent', None, (), (sym.Scalar('i'),),
                       (sym.RangeIndex((sym.IntLiteral(1), sym.Scalar('n'))), sym.IntLiteral(2))])


class Mon:
    def __init__(self):
        self.viol = {}
        self.c = {'constructions': 0, 'history_steps': 0, 'oracle_evals': 0, 'updates_seen_by_attached_symbols': 0,
                  'unattached_isolation_checks': 0, 'member_constructions': 0, 'rejected_by_assertion': 0,
                  'histories': 0}
        self.classes = set()
        self.log = []

    def v(self, key, msg, witness):
        if key not in self.viol:
            self.viol[key] = {'key': key, 'msg': msg, 'witness': witness}

    def ev(self, n=1):
        self.c['oracle_evals'] += n


# ---------------------------------------------------------------------------
# part A: constructions
# ---------------------------------------------------------------------------

def construction(rng, mon, tg):
    from loki.types import Scope, SymbolAttributes, BasicType
    from loki.expression import symbols as sym
    depth = rng.choice([0, 1, 1, 2, 3])
    scopes = []
    for d in range(depth):
        scopes.append(Scope(parent=scopes[-1] if scopes else None))
    attach = scopes[-1] if scopes else None
    member = rng.random() < 0.3
    w = {'depth': depth}
    parent = None
    if member:
        # parent variable of (possibly linked) derived type, declared somewhere along the chain
        pkind = rng.choice(['derived-linked', 'derived-linked', 'derived-unlinked', 'int', 'undeclared'])
        ptype = None if pkind == 'undeclared' else tg.make([pkind], allow_shape=rng.random() < 0.2)[0]
        pname = rng.choice(['a', 'ydvar'])
        if attach is not None and ptype is not None:
            rng.choice(scopes).symbol_attrs[spell(rng, pname)] = ptype.clone()
            parent = sym.Variable(name=spell(rng, pname), scope=attach)
        elif attach is not None:
            parent = sym.Variable(name=pname, scope=attach)
        else:
            parent = sym.Variable(name=pname, type=ptype.clone() if ptype is not None else None)
        base = rng.choice(MEMBERS['my_t'])
        nested = base in ('inn', 'inns') and rng.random() < 0.5
        if nested:
            kw = {'scope': attach} if attach is not None else {}
            parent = sym.Variable(name=f'{parent.name}%{spell(rng, base)}', parent=parent, **kw)
            base = rng.choice(MEMBERS['inner_t'])
        name = f'{parent.name}%{spell(rng, base)}'
        w.update(parent=str(parent), parent_type=pkind, nested=nested)
        mon.c['member_constructions'] += 1
    else:
        name = spell(rng, rng.choice(NAMES + ['my_t', 'my_fun']))
    # declaration of the name itself
    where = rng.choice(['own', 'parent', 'root', 'nowhere', 'nowhere']) if attach is not None else 'nowhere'
    if member and rng.random() < 0.6:
        where = 'nowhere'
    tdecl = None
    tname = not member and rng.random() < 0.08        # slice: the name of a derived type itself
    if tname:
        from loki.types import DerivedType
        base = rng.choice(['my_t', 'inner_t', 'other_t'])
        name = spell(rng, base)
        where = rng.choice(['own', 'root']) if attach is not None else 'nowhere'
    if where != 'nowhere':
        tdecl, kdecl = tg.make()
        if tname:
            dt = DerivedType(typedef=ENV[base]) if base in ENV and rng.random() < 0.6 else DerivedType(name=base)
            tdecl, kdecl = SymbolAttributes(dt, tag=tdecl.tag), 'derived-type-name'
        target = {'own': scopes[-1], 'parent': scopes[-2] if depth > 1 else scopes[-1], 'root': scopes[0]}[where]
        declname = '%'.join(spell(rng, p) for p in name.split('%'))
        target.symbol_attrs[declname] = tdecl.clone()
        w.update(declared=kdecl, where=where)
    texp = None
    if tname and attach is None:
        dt = DerivedType(typedef=ENV[base]) if base in ENV and rng.random() < 0.6 else DerivedType(name=base)
        texp, kexp = SymbolAttributes(dt, tag=0), 'derived-type-name'
        w['explicit_type'] = kexp
    elif rng.random() < 0.35:
        texp, kexp = tg.make()
        while member and kexp == 'deferred':      # a deferred entry for a member falls back to the typedef by design
            texp, kexp = tg.make()
        w['explicit_type'] = kexp
    dims = dims_choice(rng)
    kwargs = {'name': name}
    if attach is not None:
        kwargs['scope'] = attach
    if texp is not None:
        kwargs['type'] = texp.clone()
    if not (isinstance(dims, str) and dims == 'absent'):
        kwargs['dimensions'] = dims
    if parent is not None:
        kwargs['parent'] = parent
    dims_eff = None if isinstance(dims, str) else dims
    # the type recorded for that name, read before the construction
    parts = name.split('%')
    if texp is not None:
        rec = texp
    elif attach is not None:
        rec = recorded(parts, attach)
    else:
        rec = None      # no scope: the factory has nothing to look up
    before = [{k: desc(v) for k, v in dict.items(s.symbol_attrs)} for s in scopes[:-1]]
    w.update(name=name, dims=str(dims), recorded=str(rec))
    mon.c['constructions'] += 1
    try:
        v = sym.Variable(**kwargs)
    except AssertionError as e:
        # documented constructor preconditions (e.g. explicit non-deferred type handed to a name whose tier is
        # DeferredTypeSymbol cannot happen; ProcedureSymbol asserts its type) -- count, do not judge
        mon.c['rejected_by_assertion'] += 1
        w['assertion'] = str(e)[:100]
        if texp is None and not member:
            mon.v('classify:assertion-without-explicit-type', f'Variable({name!r}) raised AssertionError', w)
        return None
    except Exception as e:  # pylint: disable=broad-except
        mon.v(f'classify:exception:{type(e).__name__}', f'Variable(**{w}) raised {type(e).__name__}: {e}', w)
        return None
    exp = ref_class(name, rec, dims_eff)
    got = type(v).__name__
    mon.classes.add(got)
    mon.ev()
    w['got'] = got
    w['expected'] = exp
    if got != exp:
        mon.v(f'classify:{exp}-expected-got-{got}', f'Variable({name!r}, dims={dims}) with recorded type {rec} gave {got}, '
              f'reference tier algorithm says {exp}', w)
        return w
    # attributes of the new symbol
    mon.ev(3)
    if v.name != name:
        mon.v('create:name-changed', f'name {name!r} became {v.name!r}', w)
    if v.scope is not attach:
        mon.v('create:scope-not-attached', 'symbol is not attached to the given scope', w)
    if got == 'Array' and tuple(v.dimensions) != tuple(dims_eff or ()):
        mon.v('create:dimensions-lost', f'dimensions {dims_eff} became {v.dimensions}', w)
    # type seen by the new symbol
    seen = desc(v.type)
    mon.ev()
    if texp is not None:
        if seen != desc(texp):
            mon.v('create:explicit-type-not-seen', f'symbol created with type {texp} reports {v.type}', w)
        if attach is not None:
            mon.ev()
            if desc(attach.symbol_attrs.lookup(name, recursive=False)) != desc(texp):
                mon.v('create:explicit-type-not-recorded-in-scope', 'scope entry not overwritten by the explicit type', w)
    elif attach is not None:
        want = desc(rec) if rec is not None else desc(SymbolAttributes(BasicType.DEFERRED))
        if seen != want:
            mon.v('create:recorded-type-not-seen', f'symbol reports {v.type}, recorded type is {rec}', w)
    # enclosing scopes are never written by a construction
    mon.ev()
    after = [{k: desc(x) for k, x in dict.items(s.symbol_attrs)} for s in scopes[:-1]]
    if before != after:
        mon.v('create:writes-into-enclosing-scope', 'construction changed the table of an enclosing scope', w)
    return w


# ---------------------------------------------------------------------------
# part B: update histories
# ---------------------------------------------------------------------------

class History:
    def __init__(self, rng, mon, tg, nsteps):
        from loki.types import Scope
        self.rng, self.mon, self.tg, self.nsteps = rng, mon, tg, nsteps
        depth = rng.choice([1, 2, 2, 3])
        self.scopes = []
        for _ in range(depth):
            self.scopes.append(Scope(parent=self.scopes[-1] if self.scopes else None))
        self.scopes.append(Scope(parent=self.scopes[0]))     # a sibling branch
        self.pool = []     # dicts: v, name, scope (index or None), own (desc, unattached only), dims
        self.stopped = False
        self.flag_rescope_bare_array = rng.random() < 0.1

    def w(self):
        log = self.mon.log
        start = max((i for i, l in enumerate(log) if l.startswith('---')), default=-1) + 1
        return {'history': log[start:][-40:], 'length': len(log) - start}

    def fail(self, key, msg):
        self.mon.v(key, msg, self.w())
        self.stopped = True

    def expected(self, e):
        """desc of the type an existing symbol must report now."""
        from loki.types import SymbolAttributes, BasicType
        if e['scope'] is None:
            return e['own']
        rec = recorded(e['name'].split('%'), self.scopes[e['scope']])
        return desc(rec)

    def check_all(self, op, updated=None):
        """O1/O3 after every step. `updated` = (scope index, lower name, desc) for explicit updates."""
        mon = self.mon
        for k, e in enumerate(self.pool):
            try:
                seen = desc(e['v'].type)
            except Exception as ex:  # pylint: disable=broad-except
                return self.fail(f'share:{op}:type-getter-exception:{type(ex).__name__}',
                                 f'symbol #{k} {e["name"]!r}: .type raised {type(ex).__name__}: {ex}')
            mon.ev()
            if e['scope'] is None:
                mon.c['unattached_isolation_checks'] += 1
                if seen != e['own']:
                    return self.fail(f'share:{op}:unattached-symbol-changed',
                                     f'unattached symbol #{k} {e["name"]!r} now reports {seen}, own type was {e["own"]}')
                continue
            want = self.expected(e)
            if updated and e['scope'] == updated[0] and e['name'].lower() == updated[1]:
                want = updated[2]
                mon.c['updates_seen_by_attached_symbols'] += 1
                if seen != want:
                    return self.fail(f'share:{op}:update-not-seen-by-attached-symbol',
                                     f'symbol #{k} {e["name"]!r} attached to scope {e["scope"]} reports {seen} after '
                                     f'the scope entry was set to {want}')
            if seen != want:
                return self.fail(f'share:{op}:attached-symbol-differs-from-scope',
                                 f'symbol #{k} {e["name"]!r} attached to scope {e["scope"]} reports {seen}, the scope '
                                 f'records {want}')
        return None

    def snapshot(self):
        return [desc(e['v'].type) for e in self.pool]

    def add(self, v, name, scope_idx, op, exp_type, dims):
        """Register a new symbol; check its class against the reference."""
        exp = ref_class(name, exp_type, dims)
        got = type(v).__name__
        self.mon.classes.add(got)
        self.mon.ev(3)
        if got != exp:
            if op == 'rescope' and got == 'Array' and dims is None:
                return self.fail('classify:rescope:array-without-subscripts-stays-Array',
                                 f'rescope of an Array without subscripts into a scope that records {exp_type} for '
                                 f'{name!r} gives an Array, reference says {exp}')
            return self.fail(f'classify:{op}:{exp}-expected-got-{got}',
                             f'{op}: new symbol {name!r} with type {exp_type} and dims {dims} is a {got}, reference says {exp}')
        if (v.scope is None) != (scope_idx is None) or (scope_idx is not None and v.scope is not self.scopes[scope_idx]):
            return self.fail(f'share:{op}:wrong-scope', f'{op}: new symbol {name!r} attached to an unexpected scope')
        if got == 'Array' and tuple(v.dimensions) != tuple(dims or ()):
            return self.fail(f'share:{op}:dimensions-changed', f'{op}: subscripts {dims} became {v.dimensions}')
        if v.name != name:
            return self.fail(f'share:{op}:name-changed', f'{op}: name {name!r} became {v.name!r}')
        self.pool.append({'v': v, 'name': name, 'scope': scope_idx,
                          'dims': (tuple(v.dimensions) or None) if got == 'Array' else None,
                          'own': desc(v.type) if scope_idx is None else None})
        return None

    def pick(self, attached=None):
        c = [e for e in self.pool if attached is None or (e['scope'] is not None) == attached]
        return self.rng.choice(c) if c else None

    def run(self):
        from loki.expression import symbols as sym
        from loki.types import SymbolAttributes, BasicType
        rng, mon, tg = self.rng, self.mon, self.tg
        ops = ['create'] * 5 + ['create_typed'] * 3 + ['table_set'] * 5 + ['declare'] * 2 + ['setter'] * 4 + \
              ['setter_none'] + ['clone_type'] * 4 + ['clone_scope'] * 3 + ['clone_plain'] * 2 + ['clone_unscope'] * 2 + \
              ['rescope'] * 4
        mon.log.append(f'scopes: chain of {len(self.scopes) - 1} + sibling of root')
        mon.c['histories'] += 1
        for _ in range(self.nsteps):
            if self.stopped:
                break
            op = rng.choice(ops)
            mon.c['history_steps'] += 1
            try:
                self.step(op, sym, SymbolAttributes, BasicType)
            except AssertionError as ex:
                self.fail(f'share:{op}:assertion', f'{op} raised AssertionError {ex}')
            except Exception as ex:  # pylint: disable=broad-except
                self.fail(f'share:{op}:exception:{type(ex).__name__}', f'{op} raised {type(ex).__name__}: {ex}')

    def safe_type(self, name, dims):
        """A type that the constructors accept for this name (procedure types only without subscripts etc.)."""
        t, k = self.tg.make(['int', 'int', 'real', 'real', 'logical', 'char', 'derived-linked', 'derived-unlinked',
                             'proc-sub', 'proc-fun', 'deferred'])
        return t, k

    def step(self, op, sym, SymbolAttributes, BasicType):  # pylint: disable=too-many-branches,too-many-statements
        rng, mon = self.rng, self.mon
        si = rng.randrange(len(self.scopes))
        S = self.scopes[si]
        name = spell(rng, rng.choice(NAMES))
        if op in ('create', 'create_typed'):
            attached = rng.random() < 0.75
            dims = dims_choice(rng)
            dims_eff = None if isinstance(dims, str) else dims
            kw = {'name': name}
            if attached:
                kw['scope'] = S
            if dims_eff is not None:
                kw['dimensions'] = dims_eff
            t = None
            if op == 'create_typed':
                t, k = self.safe_type(name, dims_eff)
                kw['type'] = t.clone()
            rec = t if t is not None else (recorded([name], S) if attached else None)
            mon.log.append(f'v{len(self.pool)} = Variable({name!r}, scope={si if attached else None}, '
                           f'type={t}, dims={dims})')
            snap = self.snapshot()
            v = sym.Variable(**kw)
            self.add(v, name, si if attached else None, op, rec, dims_eff)
            if t is None:
                mon.ev()
                if snap != self.snapshot()[:len(snap)]:
                    return self.fail(f'share:{op}:changes-existing-symbols', 'creating a symbol by name changed the '
                                     'type seen by an existing symbol')
                return self.check_all(op)
            return self.check_all(op, (si, name.lower(), desc(t)) if attached else None)
        if op in ('table_set', 'declare'):
            t, k = self.safe_type(name, None)
            mon.log.append(f'scope{si}.symbol_attrs[{name!r}] = {t}' if op == 'table_set' else
                           f'scope{si}.declare({name!r}, {t.dtype}, fail=False, ...)')
            if op == 'table_set':
                S.symbol_attrs[name] = t.clone()
            else:
                kw = {a: b for a, b in t.__dict__.items() if a != 'dtype'}
                S.declare(name, t.dtype, fail=False, **kw)
            return self.check_all(op, (si, name.lower(), desc(t)))
        e = self.pick()
        if e is None:
            return None
        k = self.pool.index(e)
        v = e['v']
        if op in ('setter', 'setter_none'):
            t = None if op == 'setter_none' else self.safe_type(e['name'], e['dims'])[0]
            mon.log.append(f'v{k}.type = {t}')
            v.type = t.clone() if t is not None else None
            if e['scope'] is None:
                e['own'] = desc(t)
                return self.check_all(op)
            want = desc(t) if t is not None else desc(SymbolAttributes(BasicType.DEFERRED))
            return self.check_all(op, (e['scope'], e['name'].lower(), want))
        if op == 'clone_type':
            t = self.safe_type(e['name'], e['dims'])[0]
            mon.log.append(f'v{len(self.pool)} = v{k}.clone(type={t})')
            n = v.clone(type=t.clone())
            self.add(n, e['name'], e['scope'], op, t, e['dims'])
            if not self.stopped and e['scope'] is None:
                mon.ev()
                if desc(n.type) != desc(t):
                    return self.fail('share:clone_type:unattached-clone-type', 'unattached clone does not report its type')
            return self.check_all(op, (e['scope'], e['name'].lower(), desc(t)) if e['scope'] is not None else None)
        # operations without an explicit type: must not change what any existing symbol sees
        snap = self.snapshot()
        cur = v.type
        if op == 'clone_plain':
            mon.log.append(f'v{len(self.pool)} = v{k}.clone()')
            n = v.clone()
            self.add(n, e['name'], e['scope'], op, cur, e['dims'])
        elif op == 'clone_unscope':
            mon.log.append(f'v{len(self.pool)} = v{k}.clone(scope=None)')
            n = v.clone(scope=None)
            self.add(n, e['name'], None, op, cur, e['dims'])
            if not self.stopped:
                mon.ev()
                if cur is not None and self.pool[-1]['own'] != desc(cur):
                    return self.fail('share:clone_unscope:own-type-lost', 'clone(scope=None) does not keep the type')
        elif op == 'clone_scope':
            local = S.symbol_attrs.lookup(e['name'], recursive=False)
            exp_t = local if local is not None else (cur if cur is not None else recorded([e['name']], S))
            mon.log.append(f'v{len(self.pool)} = v{k}.clone(scope={si})')
            n = v.clone(scope=S)
            self.add(n, e['name'], si, op, exp_t, e['dims'])
        else:
            visible = recorded([e['name']], S)
            exp_t = visible if visible is not None else cur
            if type(v).__name__ == 'Array' and not e['dims'] and not self.flag_rescope_bare_array \
                    and ref_class(e['name'], exp_t, None) != 'Array':
                mon.log.append('(rescope of a subscript-less Array to a non-array entry skipped: listed mechanism, '
                               'exercised in a slice of the histories)')
                return None
            mon.log.append(f'v{len(self.pool)} = v{k}.rescope({si})')
            n = v.rescope(S)
            self.add(n, e['name'], si, op, exp_t, e['dims'])
            if not self.stopped and visible is not None:
                mon.ev()
                if desc(n.type) != desc(visible):
                    return self.fail('share:rescope:overwrites-existing-entry',
                                     f'rescope into a scope that already records {visible} gives a symbol of type {n.type}')
        if self.stopped:
            return None
        mon.ev()
        if snap != self.snapshot()[:len(snap)]:
            return self.fail(f'share:{op}:changes-existing-symbols',
                             f'{op} without a type changed the type seen by an existing symbol')
        return self.check_all(op)


def run_case(idx, rng, tier, ctx):
    mon = Mon()
    tg = TypeGen(rng)
    ncons = 60 if tier == 'quick' else 120
    cons = []
    for _ in range(ncons):
        w = construction(rng, mon, tg)
        if w:
            cons.append((w.get('name'), w.get('got'), w.get('dims')))
    for _ in range(4):
        if mon.log:
            mon.log.append('--- new history ---')
        History(rng, mon, tg, 40 if tier == 'quick' else 100).run()
    nontrivial = len(mon.classes) >= 5 and mon.c['updates_seen_by_attached_symbols'] >= 5
    return {'sig': sighash([cons, mon.log]), 'nontrivial': nontrivial, 'violations': list(mon.viol.values()),
            'inconclusive': None,
            'sample': {'constructions_head': cons[:6], 'history_head': mon.log[:8]},
            'counters': dict(mon.c), 'features': sorted(mon.classes)}
