"""C28 -- inlining preserves behaviour (differential execution of original vs inlined kernel, sanitizers on)."""
import re
import shutil
import traceback

from vlib import diffexec
from vlib.core import sighash
from vlib.inlgen import InlineGen, HAZARDS

PID = 'C28'
LEVEL = 'exploration'
TECHNIQUE = 'differential execution (gfortran run-time checks + ASan/UBSan) of generated caller/callee programs before and after inlining'
LEVEL_TEXT = ('every sampled caller/callee program computed the same outputs before and after each inlining utility on 4 input '
              'sets, with bounds checks, sanitizers and FPE traps on; inlined code re-parsed and compiled')
LEVEL_NOTE = ('gfortran -O0 with run-time checks is the reference semantics; programs are well-defined by construction; '
              'reals compared to rtol 1e-11; sampled programs and inputs only')
RULE = ('InlineGen programs (ProgGen kernel interleaved with calls to generated module subroutines/functions, elemental '
        'functions, internal procedures, statement functions, imported and local PARAMETERs; argument aliasing, keyword/'
        'optional arguments with PRESENT, local-name clashes with the caller and -- in 60 % of the subroutine cases -- between '
        'two internal / marked callees whose same-named local differs in type or shape, callee names spelled in different '
        'letter case in declarations and uses (30 %), sections and lower bounds /= 1 as actuals, expression '
        'actuals, nested calls, function references inside larger expressions, initialised callee locals, automatic '
        'arrays). One mode per case: inline_marked_subroutines, inline_internal_procedures, inline_functions, '
        'inline_elemental_functions, inline_statement_functions, inline_constant_parameters, or InlineTransformation '
        '(random option vector) run by a Scheduler over a multi-file project. Original and transformed sources are built '
        'with the same untouched driver and run on 4 input sets. Non-trivial = the transformation removed at least one '
        'call / statement-function / parameter reference from the kernel and both programs ran; distinct = hash of source+mode. '
        'Features with a known defect are enabled in every 4th case only (one hazard per case, 22 hazards in rotation).')
CASES = {'quick': 192, 'thorough': 3200}
MIN_NONTRIVIAL = {'quick': 80, 'thorough': 1400}
ANCHORS = ['loki/transformations/inline/procedures.py', 'loki/transformations/inline/functions.py',
           'loki/transformations/inline/constants.py', 'loki/transformations/inline/transformation.py',
           'loki/transformations/inline/mapper.py']
REQUIRED_REACH = ['map_call_to_procedure_body', 'inline_subroutine_calls', 'inline_internal_procedures',
                  'inline_marked_subroutines', 'inline_function_calls', 'inline_statement_functions',
                  'inline_constant_parameters', 'transform_subroutine', 'map_inline_call']
REQUIRED_COUNTERS = {'program_runs': 100, 'calls_inlined': 100}
ASSUMPTIONS = ['gfortran 12 -O0 with run-time checks is the reference semantics',
               'generated programs are well-defined by construction (original must compile and run clean, else the case is discarded as inconclusive)',
               'real outputs compared to relative 1e-11',
               'recursion, sequence association and procedure pointers are not generated']
BUDGET_S = {'quick': 400, 'thorough': 3000}
CASE_TIMEOUT_S = 300

MODES = ['marked', 'internal', 'functions', 'elemental', 'stmtfunc', 'constants', 'composed', 'composed']

# hazard slice: every 4th case carries exactly one hazard (a feature with a known defect mechanism), cycling
# through this list; the other 75 % of the cases run without any hazard.
HAZ = [
    ('callee_return', 'marked'), ('dummy_name_capture', 'marked'), ('expr_actual_modified', 'marked'),
    ('absent_optional_ref', 'marked'), ('fun_in_while', 'functions'), ('kind_selected', 'constants'),
    ('autoarr_two_sizes', 'marked'), ('fun_in_elseif', 'functions'), ('fun_return', 'functions'),
    ('neg_const', 'constants'), ('fun_array_arg', 'elemental'),
    ('fun_in_inline_if', 'elemental'), ('all_functions_with_intrinsics', 'functions'),
    ('fun_keyword_arg', 'functions'), ('const_chain', 'constants'), ('assoc_param', 'constants'),
    ('absent_optional_fun', 'functions'), ('callee_return', 'internal'), ('dummy_name_capture', 'functions'),
    ('nested_same_fun', 'internal'), ('deadcode_simplify', 'composed'), ('assumed_shape_lb', 'marked'),
    ('absent_optional_composed', 'composed'),
]


def setup_worker(tier, ctx):
    from loki import config
    config['log-level'] = 'ERROR'


def plan(idx, rng):
    """mode, generator flags and transformation options of case ``idx``"""
    hazard = None
    if idx % 4 == 3:
        hazard, mode = HAZ[(idx // 4) % len(HAZ)]
    else:
        mode = MODES[(idx - (idx + 1) // 4) % len(MODES)]
    f = {h: False for h in HAZARDS}
    if hazard in HAZARDS:
        f[hazard] = True
    if hazard == 'absent_optional_fun':
        f['optional_absent'] = True
    opts = {}
    f.update(subs=False, funs=False, elemental=False, internals=False, stmtfuncs=False, constants=False,
             pragma=False, split_files=False, import_in_routine=rng.random() < 0.4)
    if mode == 'marked':
        f.update(subs=True, pragma=True, funs=rng.random() < 0.3)
        opts = {'callees_first': rng.random() < 0.7, 'adjust_imports': rng.random() < 0.7}
    elif mode == 'internal':
        f.update(internals=True, funs=rng.random() < 0.3)
    elif mode == 'functions':
        f.update(funs=True, elemental=rng.random() < 0.5, subs=rng.random() < 0.3)
        opts = {'callees_first': rng.random() < 0.5, 'explicit_list': hazard != 'all_functions_with_intrinsics'}
    elif mode == 'elemental':
        f.update(elemental=True, funs=hazard is None and rng.random() < 0.3)
    elif mode == 'stmtfunc':
        f.update(stmtfuncs=True, funs=rng.random() < 0.3)
    elif mode == 'constants':
        f.update(constants=True, funs=rng.random() < 0.3)
        opts = {'external_only': rng.random() < 0.5}
    elif mode == 'composed':
        f.update(subs=True, pragma=True, funs=True, elemental=True, internals=rng.random() < 0.4,
                 stmtfuncs=rng.random() < 0.4, constants=rng.random() < 0.4, split_files=True)
        opts = {'inline_constants': rng.random() < 0.5, 'inline_elementals': rng.random() < 0.6,
                'inline_stmt_funcs': rng.random() < 0.5, 'inline_internals': rng.random() < 0.5,
                'inline_marked': rng.random() < 0.7, 'remove_dead_code': rng.random() < 0.6,
                'adjust_imports': rng.random() < 0.7, 'external_only': rng.random() < 0.6}
        if hazard == 'deadcode_simplify':
            opts['remove_dead_code'] = True
        # absent optionals rely on the dead-code pass to drop the PRESENT-guarded statements; known to fail: own slice
        f['optional_absent'] = False
        if hazard == 'absent_optional_composed':
            opts.update(remove_dead_code=True, inline_marked=True)
            f['optional_absent'] = True
        # dead-code removal rewrites every IF/SELECT condition with loki.expression.simplify (defects: see C08);
        # outside the hazard slice the conditions are plain comparisons that simplify leaves alone
        f['simple_conditions'] = opts['remove_dead_code'] and hazard != 'deadcode_simplify'
        if not (opts['inline_marked'] or opts['inline_elementals']):
            opts[rng.choice(['inline_marked', 'inline_elementals'])] = True
    f['must_call'] = {'marked': ['hsub'], 'internal': ['isub', 'isub2', 'ifun'], 'functions': ['hfun'], 'elemental': ['hele'],
                      'stmtfunc': ['sf1', 'sf2'], 'constants': [],
                      'composed': ['hsub', 'hele', 'isub', 'isub2', 'sf2']}[mode]
    if hazard == 'assoc_param':
        f['associate'] = True
        opts['external_only'] = False
    f['max_stmts'] = rng.choice([5, 7, 9])
    f['call_density'] = rng.choice([0.25, 0.35, 0.5])
    f.setdefault('associate', rng.random() < 0.5)
    if hazard is None:
        # (drawn last and only outside the hazard slice, so that the hazard cases stay as they were)
        # several callees with same-named locals of different type / shape that the caller does not declare
        f['twin_locals'] = mode in ('marked', 'internal', 'composed') and rng.random() < 0.6
        if f['twin_locals'] and mode in ('marked', 'composed'):
            f['must_call'] = f['must_call'] + ['hsub2']
        # declarations and uses of callee locals / scalar dummies spelled in different letter case
        f['respell'] = rng.random() < 0.3
        if (idx % 32 == 10 or idx % 64 in (33, 8)) and mode in ('marked', 'internal', 'composed'):
            # array dummies too: known defect (uses of an array dummy are matched to its declaration by a case-sensitive
            # name comparison), own small slice outside the hazard rotation
            hazard = 'respell_array_dummy'
            f['respell'] = f['respell_array_dummy'] = True
    return mode, hazard, f, opts


def innermost_loki_frame(exc):
    name = '?'
    for fr in traceback.extract_tb(exc.__traceback__):
        if '/loki/' in fr.filename:
            name = fr.name
    return name


_CALLEE_RE = re.compile(r'\b(hsub2?|isub2?|hfun2?|hele|ifun|sf[12])\s*\(', re.I)
_PARAM_RE = re.compile(r'\b(nc[123]|cp[1-4]|lpar[12])\b', re.I)


def kern_text(unit_text):
    m = re.search(r'subroutine kern\b.*?end subroutine kern', unit_text, re.I | re.S)
    return m.group(0) if m else ''


def kern_exec(unit_text):
    """executable part of kern without its internal procedures and comments"""
    t = kern_text(unit_text)
    t = re.split(r'^\s*contains\s*$', t, flags=re.I | re.M)[0]
    return '\n'.join(ln for ln in t.splitlines() if not ln.strip().startswith('!'))


TARGETS = {'marked': r'call\s+hsub2?', 'internal': r'isub2?|ifun', 'functions': r'hfun2?|hele', 'elemental': r'hele',
           'stmtfunc': r'sf[12]', 'constants': r'(?!x)x'}


def target_re(mode, opts):
    if mode != 'composed':
        return re.compile(r'\b(' + TARGETS[mode] + r')\s*\(', re.I)
    pats = ['(?!x)x']
    if opts.get('inline_marked'):
        pats.append(TARGETS['marked'])
    if opts.get('inline_internals'):
        pats.append(TARGETS['internal'])
    if opts.get('inline_elementals'):
        pats.append(TARGETS['elemental'])
    if opts.get('inline_stmt_funcs'):
        pats.append(TARGETS['stmtfunc'])
    return re.compile(r'\b(' + '|'.join(pats) + r')\s*\(', re.I)


def refs(unit_text, callee_re=_CALLEE_RE):
    t = kern_exec(unit_text)
    t = re.sub(r'^\s*(real|integer|logical)\b[^\n]*$', '', t, flags=re.I | re.M)    # declarations
    t = re.sub(r'^\s*sf[12]\s*\([a-z, ]*\)\s*=[^\n]*$', '', t, flags=re.I | re.M)  # statement function definitions
    return len(callee_re.findall(t)), len(_PARAM_RE.findall(t))


# ---------------------------------------------------------------------------- transformation drivers
def transform_direct(case, mode, opts):
    """single Sourcefile holding all modules; returns [(filename, text)] of the transformed program"""
    from loki import Sourcefile
    from loki.transformations import inline as I
    sf = Sourcefile.from_source('\n'.join(t for _, t in case.files))
    kern = sf['kern']
    callee_order = [n for n in ('hsub2', 'hfun2', 'hfun', 'hsub') if n in [r.name.lower() for r in sf.all_subroutines]]
    targets = ([sf[n] for n in callee_order] if opts.get('callees_first') else []) + [kern]
    for r in targets:
        if mode == 'marked':
            I.inline_marked_subroutines(r, adjust_imports=opts.get('adjust_imports', True))
        elif mode == 'internal':
            I.inline_internal_procedures(r)
        elif mode == 'functions':
            if opts.get('explicit_list', True):
                funs = tuple(x for x in sf.all_subroutines if x.is_function and x is not r)
                I.inline_functions(r, functions=funs)
            else:
                I.inline_functions(r)
        elif mode == 'elemental':
            I.inline_elemental_functions(r)
        elif mode == 'stmtfunc':
            I.inline_statement_functions(r)
        elif mode == 'constants':
            I.inline_constant_parameters(r, external_only=opts.get('external_only', True))
    return [('k.F90', sf.to_fortran())]


def transform_scheduler(case, opts, wd):
    from loki import Scheduler, SchedulerConfig
    from loki.frontend import FP
    from loki.transformations.inline import InlineTransformation
    src = wd / 'src'
    src.mkdir(parents=True, exist_ok=True)
    for name, text in case.files:
        (src / name).write_text(text)
    config = SchedulerConfig.from_dict({'default': {'role': 'kernel', 'expand': True, 'strict': False,
                                                    'enable_imports': True}, 'routines': {}})
    sched = Scheduler(paths=[src], config=config, seed_routines=['kern'], frontend=FP, xmods=[wd / 'xmods'])
    sched.process(InlineTransformation(**opts))
    by_name = {}
    for item in sched.items:
        p = getattr(item.source, 'path', None) if hasattr(item, 'source') else None
        sf = item.source
        while sf is not None and not hasattr(sf, 'to_fortran'):
            sf = getattr(sf, 'parent', None)
        if p is None and sf is not None:
            p = sf.path
        if sf is not None and p is not None:
            by_name[p.name] = sf
    out = []
    for name, text in case.files:
        out.append((name, by_name[name].to_fortran() if name in by_name else text))
    return out, len(by_name)


# ---------------------------------------------------------------------------- classification
def _norm_compile_error(detail):
    m = re.search(r'Error: (.{0,120})', detail or '')
    if not m:
        return 'unknown'
    msg = re.sub(r"'[^']*'|‘[^’]*’", 'X', m.group(1))
    msg = re.sub(r'\(\d+\)', '', msg)
    return re.sub(r'[^A-Za-z]+', '-', msg).strip('-')[:60]


def classify(mode, hazard, symptom, detail, case, new_text, exc=None):
    """
    mechanism key of a violation.  ``symptom`` in exception | reparse | compile | differ.
    Known mechanisms are recognised from the case's (single) hazard flag *and* its trace in the sources;
    everything else gets a generic key built from mode and symptom.
    """
    src = case.units
    lo_new = (new_text or '').lower()
    if hazard == 'callee_return' and symptom == 'differ' and \
            len(re.findall(r'^\s*(if \(.*\) )?return\b', kern_exec(lo_new), re.M)) > 0:
        return 'inline:callee-has-RETURN'
    if hazard == 'fun_return' and symptom in ('differ', 'compile') and \
            len(re.findall(r'^\s*(if \(.*\) )?return\b', kern_exec(lo_new), re.M)) > 0:
        return 'inline:function-callee-has-RETURN'
    if hazard == 'dummy_name_capture' and symptom in ('exception', 'differ', 'compile'):
        return 'inline:actual-mentions-name-of-callee-dummy'
    if hazard == 'expr_actual_modified' and symptom == 'differ':
        return 'inline:expression-actual-re-evaluated-after-callee-modified-operand'
    if hazard == 'absent_optional_ref' and symptom in ('compile', 'exception'):
        return 'inline:absent-optional-dummy-left-in-inlined-body'
    if hazard == 'fun_in_while' and symptom == 'differ':
        return 'inline:function-in-DO-WHILE-condition-evaluated-once'
    if hazard == 'fun_in_elseif' and symptom in ('differ', 'compile', 'exception'):
        return 'inline:function-in-ELSE-IF-condition'
    if hazard == 'kind_selected' and symptom in ('compile', 'reparse') and re.search(r'_selected_real_kind', lo_new):
        return 'constants:kind-parameter-expression-as-literal-suffix'
    if hazard == 'neg_const' and symptom in ('compile', 'reparse'):
        return 'constants:negative-constant-unbracketed'
    if hazard == 'autoarr_two_sizes' and symptom in ('differ', 'compile'):
        return 'inline:hoisted-automatic-array-sized-by-one-call-only'
    if hazard == 'assumed_shape_lb' and symptom == 'differ':
        return 'inline:assumed-shape-dummy-actual-lower-bound-not-shifted'
    if hazard == 'fun_in_inline_if' and symptom in ('reparse', 'compile', 'differ'):
        return 'inline:function-in-inline-IF-statement'
    if hazard == 'all_functions_with_intrinsics' and symptom == 'exception' and isinstance(exc, AssertionError):
        return 'inline:inline_functions-asserts-on-intrinsic-call'
    if hazard == 'fun_keyword_arg' and symptom == 'exception' and isinstance(exc, ValueError):
        return 'inline:actual-contains-function-reference-with-keyword-argument'
    if hazard == 'const_chain' and symptom in ('compile', 'differ'):
        return 'constants:initialiser-referring-to-other-parameter'
    if hazard == 'assoc_param' and symptom in ('compile', 'reparse'):
        return 'constants:associate-name-of-parameter-selector-replaced'
    if hazard in ('absent_optional_fun', 'absent_optional_composed') and symptom in ('compile', 'exception'):
        return 'inline:absent-optional-dummy-left-in-inlined-body'
    if hazard == 'nested_same_fun' and symptom in ('compile', 'exception'):
        return 'inline:nested-reference-to-same-function-left-behind'
    if hazard == 'deadcode_simplify':
        return 'inline:remove_dead_code:simplify-rewrites-or-rejects-condition'
    if hazard == 'respell_array_dummy' and (symptom == 'exception' or symptom in ('compile', 'differ') and
                                            re.search(r'\b(xin2?|yio|xv)\s*\(', kern_exec(lo_new))):
        return 'inline:array-dummy-use-spelled-in-other-case-than-declaration'
    if hazard == 'fun_array_arg' and symptom in ('differ', 'compile', 'exception'):
        return 'inline:elemental-function-with-array-argument'
    if symptom == 'differ' and lo_new.count('result_r =') >= 2 and \
            re.search(r'\b(hfun2?|hele|ifun)\s*\([^()]*\b(hfun2?|hele|ifun)\s*\(', src.lower()):
        # a function reference nested in the argument of another function reference whose result variables carry the
        # same name: both are inlined into the one variable 'result_<name>' and the outer value is overwritten
        return 'inline:nested-function-references-share-the-renamed-result-variable'
    if symptom == 'exception':
        return f'inline:{mode}:exception:{type(exc).__name__}@{innermost_loki_frame(exc)}'
    if symptom == 'reparse':
        return f'inline:{mode}:transformed-source-does-not-reparse:{type(exc).__name__}'
    if symptom == 'compile':
        return f'inline:{mode}:compile-error:{_norm_compile_error(detail)}'
    if 'run-time check reports differ' in (detail or '') or 'exit status' in (detail or ''):
        return f'inline:{mode}:runtime-error-in-transformed'
    return f'inline:{mode}:output-differs'


# ---------------------------------------------------------------------------- case
def run_case(idx, rng, tier, ctx):
    mode, hazard, flags, opts = plan(idx, rng)
    case = InlineGen(rng, flags).generate()
    feats = sorted(case.features | {'mode_' + mode} | ({'hazard_' + hazard} if hazard else set()))
    res = {'sig': sighash([case.units, mode, opts]), 'nontrivial': False, 'violations': [], 'inconclusive': None,
           'features': feats, 'counters': {}}
    wd = ctx['scratch'] / f'c{idx}'
    witness = {'mode': mode, 'hazard': hazard, 'options': opts, 'files': case.files, 'driver': case.driver}

    def viol(symptom, detail, new_text=None, exc=None, extra=None):
        w = dict(witness)
        if new_text:
            w['transformed_kernel'] = kern_text(new_text)[:6000]
        if extra:
            w.update(extra)
        res['violations'].append({'key': classify(mode, hazard, symptom, detail, case, new_text, exc),
                                  'msg': f'[{mode}] {detail}'[:700], 'witness': w})
    try:
        try:
            if mode == 'composed':
                new_files, nitems = transform_scheduler(case, opts, wd)
                res['counters']['scheduler_files'] = nitems
            else:
                new_files = transform_direct(case, mode, opts)
        except RecursionError as e:
            viol('exception', f'RecursionError: {e}', exc=e)
            return res
        except Exception as e:  # pylint: disable=broad-except
            viol('exception', f'{type(e).__name__}: {e} :: {traceback.format_exc()[-500:]}', exc=e)
            return res
        new_text = '\n'.join(t for _, t in new_files)
        res['counters']['transformations_applied'] = 1
        # side monitor: the generated code must be readable by Loki again
        try:
            from loki import Sourcefile
            Sourcefile.from_source(new_text)
            res['counters']['reparse_ok'] = 1
        except Exception as e:  # pylint: disable=broad-except
            viol('reparse', f'{type(e).__name__}: {e}', new_text, exc=e)
        tre = target_re(mode, opts)
        c0, p0 = refs(case.units, tre)
        c1, p1 = refs(new_text, tre)
        if mode not in ('constants', 'composed') or (mode == 'composed' and not opts.get('inline_constants')):
            p0 = p1 = 0
        res['counters']['calls_before'] = c0
        res['counters']['calls_inlined'] = max(c0 - c1, 0)
        res['counters']['param_refs_inlined'] = max(p0 - p1, 0)
        markers = len(re.findall(r'\[Loki\] inlined child', kern_text(new_text)))
        res['counters']['inline_markers'] = markers
        changed = (c1 < c0) or (p1 < p0) or markers > 0
        orig_files = case.files if mode == 'composed' else [('k.F90', case.units)]
        d = diffexec.differential(wd / 'x', orig_files, new_files, ('drv.F90', case.driver), stdins=case.stdins)
        res['counters']['program_runs'] = d['runs'] * 2
        res['counters']['sanitizer_builds'] = 2
        if d['status'] == 'orig_bad':
            res['inconclusive'] = 'generator defect: ' + d['detail'][:400]
        elif d['status'] == 'new_build_fail':
            if 'TIMEOUT' in d['detail'] and 'Error' not in d['detail']:
                res['inconclusive'] = 'compiler timed out on the transformed program'
            else:
                viol('compile', d['detail'], new_text)
        elif d['status'] == 'differ':
            if 'vs -999' in d['detail']:
                res['inconclusive'] = 'transformed program timed out'
            else:
                viol('differ', d['detail'], new_text, extra={'stdin': d.get('stdin'), 'orig_out': d.get('orig_out', '')[-600:],
                                                             'new_out': d.get('new_out', '')[-600:],
                                                             'new_err': d.get('new_err', '')[-400:]})
        else:
            res['nontrivial'] = changed
            res['sample'] = {'mode': mode, 'options': opts, 'features': feats, 'calls_before': c0, 'calls_after': c1,
                             'param_refs_before': p0, 'param_refs_after': p1}
        if hazard and not res['violations'] and res['inconclusive'] is None:
            res['counters']['hazard_cases_without_violation'] = 1
        return res
    finally:
        shutil.rmtree(wd, ignore_errors=True)
