"""
scclab -- shared engine of C37 / C38: apply SCC pipelines / temporaries transformations to a generated
driver/kernel project through the real Scheduler + FileWriteTransformation, then run original and
transformed call tree with an untouched main program and compare (vlib/diffexec).
"""
# pylint: disable=import-outside-toplevel,broad-except,too-many-locals,too-many-branches,too-many-statements
import re
import shutil
import traceback
from pathlib import Path

from vlib import diffexec
from vlib.core import sighash
from vlib.sccgen import SccGen

BUILD_TIMEOUT = 400
RUN_TIMEOUT = 90
EXTRA_FLAGS = ['-fcray-pointer']


def dimensions(names, aliases=None):
    from loki import Dimension
    aliases = aliases or {}
    ha = (aliases['hsize'],) if aliases.get('hsize') else None
    va = (aliases['vsize'],) if aliases.get('vsize') else None
    horizontal = Dimension(name='horizontal', size=names['hsize'], index=names['hidx'],
                           bounds=(names['hlo'], names['hup']), aliases=ha)
    vertical = Dimension(name='vertical', size=names['vsize'], index=names['vidx'], aliases=va)
    block_dim = Dimension(name='block_dim', size=names['bsize'], index=names['bidx'])
    return horizontal, vertical, block_dim


def write_project(case, root):
    root = Path(root)
    root.mkdir(parents=True, exist_ok=True)
    for name, text in case.files.items():
        (root / name).write_text(text)


def make_scheduler(case, root, out):
    from loki.batch import Scheduler, SchedulerConfig
    config = SchedulerConfig.from_dict({
        'default': {'role': 'kernel', 'expand': True, 'strict': True, 'mode': 'scc', 'replicate': False,
                    'disable': ['parkind1']},
        'routines': {case.driver_name: {'role': 'driver'}},
    })
    return Scheduler(paths=[str(root)], config=config, seed_routines=[case.driver_name], output_dir=str(out))


def _lookup(name):
    import loki.transformations.single_column.scc as scc
    import loki.transformations.single_column as sc
    import loki.transformations.temporaries as tmp
    for mod in (scc, sc, tmp):
        if hasattr(mod, name):
            return getattr(mod, name)
    raise KeyError(name)


def _kwargs(kw, dims):
    horizontal, vertical, block_dim = dims
    out = {}
    for k, v in kw.items():
        if v == '@horizontal':
            v = horizontal
        elif v == '@vertical':
            v = vertical
        elif v == '@block_dim':
            v = block_dim
        out[k] = v
    return out


def root_cause(exc):
    seen = set()
    while (exc.__cause__ or exc.__context__) is not None and id(exc) not in seen:
        seen.add(id(exc))
        exc = exc.__cause__ or exc.__context__
    return exc


def innermost_loki_frame(exc):
    name = '?'
    for fr in traceback.extract_tb(exc.__traceback__):
        if '/loki/' in fr.filename:
            name = Path(fr.filename).stem + '.' + fr.name
    return name


def exc_key(exc):
    """(mechanism key, message) of an exception raised by Loki: type and innermost loki frame of the root cause"""
    root = root_cause(exc)
    msg = re.sub(r'\s+', ' ', f'{type(root).__name__}: {root}')[:400]
    return f'{type(root).__name__}@{innermost_loki_frame(root)}', msg


def ir_snapshot(scheduler):
    snap = {}
    for item in scheduler.items:
        try:
            snap[item.name] = item.ir.to_fortran()
        except Exception:
            snap[item.name] = None
    return snap


def transform(case, root, out, spec):
    """
    Apply ``spec`` = {'steps': [(class name, kwargs), ...]} through a fresh Scheduler over ``root``; write with
    FileWriteTransformation into ``out``.  Returns dict(files={name: text}, changed=[item names], exc=None|(key,msg))
    """
    from loki.transformations.build_system import FileWriteTransformation
    out = Path(out)
    shutil.rmtree(out, ignore_errors=True)
    out.mkdir(parents=True)
    dims = dimensions(case.names, getattr(case, 'aliases', None))
    res = {'files': None, 'changed': [], 'exc': None, 'applied': 0}
    try:
        sched = make_scheduler(case, root, out)
    except Exception as e:
        res['exc'] = (f'scheduler-setup:{type(e).__name__}@{innermost_loki_frame(e)}', f'{type(e).__name__}: {e}')
        res['setup'] = True
        return res
    before = ir_snapshot(sched)
    for cname, kw in spec['steps']:
        try:
            trafo = _lookup(cname)(**_kwargs(kw, dims))
            sched.process(trafo)
            res['applied'] += 1
        except Exception as e:
            res['exc'] = exc_key(e)
            res['failed_step'] = cname
            return res
    after = ir_snapshot(sched)
    res['changed'] = sorted(k for k in after if after[k] != before.get(k))
    try:
        sched.process(FileWriteTransformation())
    except Exception as e:
        res['exc'] = (f'filewrite:{type(e).__name__}@{innermost_loki_frame(e)}', f'{type(e).__name__}: {e}')
        return res
    files = {}
    for name, text in case.files.items():
        stem = name[:-4]
        cand = out / f'{stem}.scc.F90'
        files[name] = cand.read_text() if cand.exists() else text
    res['files'] = files
    return res


class Reference:
    """the original call tree, built once and run on every input set"""

    def __init__(self, case, workdir):
        self.case = case
        self.dir = Path(workdir)
        self.runs = []
        self.bad = None
        self.timeout = False
        try:
            self.exe = diffexec.build(self.dir / 'orig', list(case.files.items()) + [('main.F90', case.main)],
                                      extra=EXTRA_FLAGS, timeout=BUILD_TIMEOUT)
        except diffexec.BuildError as e:
            self.bad = f'original does not build: {e}'
            self.timeout = 'TIMEOUT' in str(e)
            return
        for sin in case.stdins:
            r = diffexec.run(self.exe, stdin=sin, timeout=RUN_TIMEOUT)
            if r['rc'] == -999:
                self.bad, self.timeout = 'original timed out', True
                return
            if r['rc'] != 0 or r['san']:
                self.bad = f"original rc={r['rc']} {r['san'][:2]} {r['err'][-300:]}"
                return
            self.runs.append(r)


def compare(ref, files, workdir, tag):
    """build transformed project + untouched main; run; compare to the reference runs"""
    case = ref.case
    wd = Path(workdir) / tag
    shutil.rmtree(wd, ignore_errors=True)
    try:
        exe = diffexec.build(wd, [(n, files[n]) for n in case.files] + [('main.F90', case.main)],
                             extra=EXTRA_FLAGS, timeout=BUILD_TIMEOUT)
    except diffexec.BuildError as e:
        if 'TIMEOUT' in str(e):
            return {'status': 'timeout', 'detail': str(e)[:200], 'runs': 0}
        return {'status': 'new_build_fail', 'detail': str(e), 'runs': 0}
    n = 0
    for sin, ro in zip(case.stdins, ref.runs):
        rn = diffexec.run(exe, stdin=sin, timeout=RUN_TIMEOUT)
        n += 1
        if rn['rc'] == -999:
            return {'status': 'timeout', 'detail': 'transformed program timed out', 'runs': n}
        eq, why = diffexec.outputs_equal(ro, rn)
        if not eq:
            return {'status': 'differ', 'detail': why, 'stdin': sin, 'new_rc': rn['rc'], 'san': rn['san'][:3],
                    'orig_out': ro['out'][-800:], 'new_out': rn['out'][-800:], 'new_err': rn['err'][-1200:],
                    'truncated': ro['out'].startswith(rn['out']) and len(rn['out']) < len(ro['out']), 'runs': n}
    shutil.rmtree(wd, ignore_errors=True)
    return {'status': 'equal', 'detail': '', 'runs': n}


# ---------------------------------------------------------------------------------------- classification
def _norm_err(msg):
    m = re.search(r'Error: (.*)', msg)
    t = m.group(1) if m else msg[-120:]
    t = re.sub(r'[‘’\'`"][^‘’\'`"]*[‘’\'`"]', 'X', t)
    t = re.sub(r'\(\d+\)', '', t)
    t = re.sub(r'[^A-Za-z ]+', ' ', t)
    return '-'.join(t.split()[:9])


def classify_build(detail):
    return 'build:' + _norm_err(detail)


def classify_run(d):
    err = d.get('new_err', '') + ' '.join(d.get('san', []))
    if 'AddressSanitizer' in err:
        m = re.search(r'AddressSanitizer: ([a-z-]+)', err)
        return 'run:asan-' + (m.group(1) if m else 'report')
    m = re.search(r'Fortran runtime error: (.*)', err)
    if m:
        t = re.sub(r"'[^']*'", 'X', m.group(1))
        t = re.sub(r'\([^)]*\)', '', t)
        t = re.sub(r'[^A-Za-z ]+', ' ', t)
        return 'run:rtcheck-' + '-'.join(t.split()[:7])
    if 'SIGFPE' in err or 'Floating-point exception' in err:
        return 'run:fpe'
    if 'SIGSEGV' in err:
        return 'run:segv'
    if 'runtime error:' in err:
        return 'run:ubsan'
    if d.get('truncated'):
        return 'run:stopped-early'
    if d.get('new_rc', 0) != 0:
        return 'run:nonzero-exit'
    return 'run:output-differs'


def gen_case(rng, flags):
    case = SccGen(rng, flags).generate()
    sig = sighash('\n'.join(case.files[k] for k in sorted(case.files)))
    return case, sig


# ---------------------------------------------------------------------------------------- one spec on one tree
_CONTIG = re.compile(r',\s*CONTIGUOUS(?=[^\n]*::\s*\w+_STACK\s*\(\s*\w+_STACK_SIZE\s*\))', re.I)


def strip_contiguous_on_explicit_shape(files):
    """harness shim (see C38 LEVEL_NOTE): drop CONTIGUOUS from explicit-shape stack dummies so that gfortran
    accepts the index-stack variants; the unshimmed text is syntax-checked first and reported"""
    return {n: _CONTIG.sub('', t) for n, t in files.items()}


def run_spec(case, ref, wd, spec, counters):
    """transform + build + run + compare one spec; returns dict(violations, inconclusive, nontrivial, ...)"""
    out = {'violations': [], 'inconclusive': None, 'nontrivial': False, 'files': None, 'changed': [], 'raw': None}
    tag = re.sub(r'\W+', '_', spec['name'])
    tr = transform(case, wd / 'src', wd / ('out_' + tag), spec)
    out['changed'] = tr['changed']
    counters['routines_changed'] = counters.get('routines_changed', 0) + len(tr['changed'])
    witness = {'project': case.files, 'main': case.main, 'spec': spec['steps'], 'names': case.names}
    if tr['exc']:
        if tr.get('setup'):
            out['inconclusive'] = 'scheduler setup failed: ' + tr['exc'][1][:300]
            return out
        out['raw'] = 'exc:' + tr['exc'][0]
        out['violations'].append({'key': out['raw'], 'msg': tr['exc'][1], 'witness': witness})
        return out
    counters['pipelines_applied'] = counters.get('pipelines_applied', 0) + 1
    files = tr['files']
    out['files'] = files
    if spec.get('shim_contiguous'):
        ok, why = diffexec.syntax_check(wd / ('syn_' + tag), [(n, files[n]) for n in case.files],
                                        extra=EXTRA_FLAGS, timeout=BUILD_TIMEOUT)
        counters['syntax_checks'] = counters.get('syntax_checks', 0) + 1
        shutil.rmtree(wd / ('syn_' + tag), ignore_errors=True)
        if not ok and 'TIMEOUT' not in why:
            raw = classify_build(why)
            out['violations'].append({'key': raw, 'msg': why[-600:], 'phase': 'unshimmed-syntax',
                                      'witness': dict(witness, transformed={k: v for k, v in files.items()
                                                                            if v != case.files[k]})})
        files = strip_contiguous_on_explicit_shape(files)
        out['files'] = files
    d = compare(ref, files, wd, 'new_' + tag)
    counters['sanitizer_builds'] = counters.get('sanitizer_builds', 0) + 1
    counters['program_runs'] = counters.get('program_runs', 0) + d['runs']
    out['status'] = d['status']
    if d['status'] == 'timeout':
        out['inconclusive'] = 'timeout: ' + d['detail']
        return out
    if d['status'] in ('new_build_fail', 'differ'):
        raw = classify_build(d['detail']) if d['status'] == 'new_build_fail' else classify_run(d)
        out['raw'] = raw
        out['diff'] = d
        out['violations'].append({'key': raw, 'msg': (d['detail'] + ' | ' + d.get('new_err', '')[-300:])[:900],
                                  'witness': dict(witness, diff={k: v for k, v in d.items() if k != 'runs'},
                                                  transformed={k: v for k, v in files.items()
                                                               if v != case.files[k]})})
    out['nontrivial'] = bool(tr['changed']) and d['status'] in ('equal', 'differ')
    return out
