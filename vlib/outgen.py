"""
C33 workload generator: routines with ``!$loki outline`` regions and internal procedures.

    case = OutGen(rng, flags, hazard=None).generate()
    case.files    -> [('tmod.F90', text), ('omod.F90', text)]   (everything Loki processes, dependency order)
    case.driver   -> ('drv.F90', text)                          (PROGRAM unit; Loki never sees it)
    case.stdins, case.features, case.meta

``kern`` (module omod) has a prefix that initialises every local, one or two marked regions (top level, or inside a
loop / conditional) and / or calls of internal procedures, and a suffix that writes every variable to the outputs, so
everything a region or an internal procedure writes is read afterwards.  Regions read / write scalars, arrays with
symbolic sizes (rank 1, rank 2, non-unit lower bound), fixed-size arrays, derived-type variables (dummy and local),
module and routine parameters, call helper subroutines / functions and run their own loops.  Internal procedures use
host-associated scalars, arrays, derived types and module parameters.

Mechanisms with a known finding are not generated at random; each has one ``hazard`` snippet.
"""
import random
import re
from dataclasses import dataclass, field

from vlib.fgenlab import ExprGen

NOI = 16
NOR = 14
IB = 40

DEFAULT_FLAGS = dict(max_stmts=8, max_depth=2, regions=1, region_nested=False, overrides=True, internals=0,
                     derived=True, calls=True, named=True, layout='module')

HAZARDS = [
    # outlining
    'loopvar_read_after', 'derived_default_init_partial_write', 'pragma_list_with_spaces', 'call_internal_in_region',
    'return_in_region', 'cycle_enclosing_loop', 'saved_var_initialiser', 'dim_by_local_parameter',
    'dim_by_unused_dummy', 'print_only_use', 'allocate_in_region', 'region_inside_associate', 'mixed_case_in_region',
    'optional_present_in_region', 'module_variable_in_region', 'override_case', 'region_char_var',
    'implicit_loop_var_in_region', 'write_only_array_section', 'pointer_in_region', 'stmt_function_in_region',
    # extraction of internal procedures
    'host_parameter', 'type_from_host_module', 'sibling_call', 'host_var_only_in_inner_spec', 'dim_by_member',
    'mixed_case_in_inner', 'inner_optional_host', 'inner_uses_module_variable', 'inner_host_loopvar_in_loop',
    'inner_fun_in_condition', 'inner_shadow_and_host', 'inner_kind_from_module_import', 'routine_without_contains',
    'override_array', 'inner_array_two_subscripts', 'file_layout_extract',
]


@dataclass
class Case:
    files: list
    driver: tuple
    stdins: list
    features: set
    meta: dict = field(default_factory=dict)

    @property
    def units(self):
        return '\n'.join(t for _, t in self.files)


@dataclass
class Var:
    name: str
    typ: str                  # int | real | logical
    rank: int = 0
    dims: tuple = ()          # per dim: (lower:int, size:'n'|'m'|int)
    writable: bool = True
    bound: int = IB


class Env:
    """leaf provider for fgenlab.ExprGen"""

    def __init__(self, gen):
        self.gen = gen
        self.vars = []
        self.loopvars = []       # stack of (name, size)

    def add(self, v):
        self.vars.append(v)
        return v

    def scalars(self, typ, writable=False):
        return [v for v in self.vars if v.typ == typ and v.rank == 0 and (v.writable or not writable)]

    def arrays(self, typ=None, writable=False):
        return [v for v in self.vars if v.rank > 0 and (typ is None or v.typ == typ) and (v.writable or not writable)]

    def elem(self, v):
        rng = self.gen.rng
        subs = []
        for lo, size in v.dims:
            cands = [lv for lv, sz in self.loopvars if sz == size]
            if cands and rng.random() < 0.85:
                lv = rng.choice(cands)
                s = rng.choice([lv, lv, lv, f'{size} + 1 - {lv}', f'1 + mod({lv}, {size})'])
            elif isinstance(size, int):
                s = str(rng.randint(1, size))
            else:
                s = rng.choice(['1', size, f'1 + mod({rng.choice([1, 2, 3, 5])}, {size})', f'({size} + 1) / 2'])
            off = lo - 1
            if off > 0:
                s = f'{s} + {off}'
            elif off < 0:
                s = f'{s} - {-off}'
            subs.append(s)
        return f"{v.name}({', '.join(subs)})"

    def int_leaves(self):
        out = [(v.name, v.bound) for v in self.scalars('int')]
        out += [(lv, 8) for lv, _ in self.loopvars]
        out += [(self.elem(v), v.bound) for v in self.arrays('int')]
        out += [('np', 4)]
        return out

    def real_leaves(self):
        out = [v.name for v in self.scalars('real')]
        for v in self.arrays('real'):
            out.append(self.elem(v))
        out.append('rp')
        return out

    def log_leaves(self):
        return [v.name for v in self.scalars('logical')]


class OutGen:

    def __init__(self, rng, flags=None, hazard=None):
        self.rng = rng
        self.hrng = random.Random(rng.getrandbits(48))
        self.flags = dict(DEFAULT_FLAGS)
        if flags:
            self.flags.update(flags)
        self.hz = hazard
        self.ex = ExprGen(rng, {'intrinsics': True}, 'jprb')
        self.features = self.ex.features
        self.env = Env(self)
        self.nstmt = 0
        self.extra_decl = []
        self.extra_internal = []
        self.extra_omod_spec = []
        self.extra_omod_procs = []
        self.extra_tmod = []
        self.extra_kern_use = []
        self.kern_args_extra = ('', '', '')      # (dummy list suffix, declarations, actuals in driver)
        self._setup()

    # ------------------------------------------------------------------ variables
    def _setup(self):
        env, f = self.env, self.flags
        A = env.add
        A(Var('n', 'int', writable=False, bound=8))
        A(Var('m', 'int', writable=False, bound=8))
        A(Var('k1', 'int', writable=False, bound=20))
        A(Var('x1', 'real', writable=False))
        A(Var('a', 'real', 1, ((1, 'n'),)))
        A(Var('b', 'real', 1, ((1, 'n'),)))
        A(Var('c2', 'real', 2, ((1, 'n'), (1, 'm'))))
        A(Var('ia', 'int', 1, ((1, 'n'),)))
        A(Var('d0', 'real', 1, ((0, 'n'),)))            # dummy d0(0:n-1)
        for s in ('s1', 's2', 's3'):
            A(Var(s, 'real'))
        for s in ('j1', 'j2'):
            A(Var(s, 'int'))
        A(Var('lg', 'logical'))
        A(Var('w', 'real', 1, ((1, 'n'),)))
        A(Var('w2', 'real', 2, ((1, 'n'), (1, 'm'))))
        A(Var('lf', 'real', 1, ((1, 4),)))
        A(Var('kw', 'int', 1, ((1, 'n'),)))
        if f['derived']:
            self.features.add('derived_type')
            A(Var('t%tp', 'real'))
            A(Var('t%tk', 'int'))
            A(Var('t%tq', 'real', 1, ((1, 3),)))
            A(Var('tl%tp', 'real'))
            A(Var('tl%tq', 'real', 1, ((1, 3),)))

    # ------------------------------------------------------------------ statements
    def _target(self, typ):
        env, rng = self.env, self.rng
        sc = env.scalars(typ, writable=True)
        ar = env.arrays(typ, writable=True)
        if ar and (not sc or rng.random() < 0.5):
            v = rng.choice(ar)
            return env.elem(v), v
        if sc:
            v = rng.choice(sc)
            return v.name, v
        return None, None

    def s_assign(self, ind):
        rng = self.rng
        typ = rng.choice(['real', 'real', 'real', 'int', 'int', 'logical'])
        tgt, v = self._target(typ)
        if tgt is None:
            typ = 'real'
            tgt, v = self._target('real')
        if typ == 'real':
            e = self.ex.damp(self.ex.real_expr(self.env, 2))
        elif typ == 'int':
            e, b = self.ex.int_expr(self.env, 2)
            if b > v.bound:
                e = rng.choice([f'mod({e}, {rng.choice([17, 23, 37])})', f'min(max({e}, -{IB}), {IB})'])
        else:
            e = self.ex.log_expr(self.env, 2)
        return [f'{ind}{tgt} = {e}']

    def s_loop(self, ind, depth):
        rng, env = self.rng, self.env
        used = [lv for lv, _ in env.loopvars]
        free = [v for v in self.loop_names if v not in used]
        if not free:
            return self.s_assign(ind)
        lv = free[0]
        size = rng.choice(['n', 'n', 'm'])
        self.features.add('loop')
        hdr = rng.choice([f'do {lv} = 1, {size}', f'do {lv} = 1, {size}', f'do {lv} = {size}, 1, -1', f'do {lv} = 1, {size}, 2'])
        env.loopvars.append((lv, size))
        out = [f'{ind}{hdr}'] + self.block(ind + '  ', depth - 1, rng.randint(1, 3)) + [f'{ind}end do']
        env.loopvars.pop()
        return out

    def s_if(self, ind, depth):
        rng = self.rng
        self.features.add('if')
        out = [f'{ind}if ({self.ex.log_expr(self.env, 2)}) then'] + self.block(ind + '  ', depth - 1, rng.randint(1, 2))
        if rng.random() < 0.5:
            out += [f'{ind}else'] + self.block(ind + '  ', depth - 1, rng.randint(1, 2))
        return out + [f'{ind}end if']

    def s_call(self, ind):
        rng, env = self.rng, self.env
        c = rng.choice(['hsub', 'harr', 'hsub'])
        self.features.add('call_' + c)
        if c == 'hsub':
            tgt, _ = self._target('real')
            i, b = self.ex.int_expr(env, 1)
            return [f'{ind}call hsub({self.ex.damp(self.ex.real_expr(env, 1))}, {i}, {tgt})']
        p = rng.choice(['a', 'b', 'w'])
        q = rng.choice([x for x in ('a', 'b', 'w') if x != p])
        return [f'{ind}call harr(n, {p}, {q})']

    def s_array(self, ind):
        """whole-array / section statements"""
        rng = self.rng
        self.features.add('array_syntax')
        c = rng.random()
        if c < 0.3:
            return [f'{ind}w = 0.5_jprb*w + sin(a)']
        if c < 0.5:
            return [f'{ind}w2(:, 1) = w2(:, 1) + a']
        if c < 0.7:
            return [f'{ind}b(1:n) = cos(w(1:n)) + {self.ex.rlit()}']
        if c < 0.85:
            return [f'{ind}where (a > 0.0_jprb)', f'{ind}  w = w + 0.25_jprb', f'{ind}end where']
        return [f'{ind}kw = mod(kw + ia, 17)']

    def block(self, ind, depth, n):
        rng = self.rng
        out = []
        for _ in range(n):
            self.nstmt += 1
            c = rng.random()
            if depth > 0 and c < 0.2:
                out += self.s_loop(ind, depth)
            elif depth > 0 and c < 0.32:
                out += self.s_if(ind, depth)
            elif c < 0.44 and self.flags['calls']:
                out += self.s_call(ind)
            elif c < 0.54:
                out += self.s_array(ind)
            elif c < 0.6:
                self.features.add('function_call')
                tgt, v = self._target('int')
                i, _ = self.ex.int_expr(self.env, 1)
                out += [f'{ind}{tgt} = hfun({i}, {rng.choice([2, 3, 5])})']
            else:
                out += self.s_assign(ind)
        return out

    # ------------------------------------------------------------------ regions
    LOOPVARS = ('i', 'j')

    def region(self, ind, k, nested_lv=None):
        """one marked region; returns lines"""
        rng, f = self.rng, self.flags
        self.loop_names = [v for v in self.LOOPVARS if v != nested_lv]
        first = []
        outv = None
        if f['overrides'] and rng.random() < 0.4:
            outv = rng.choice(['s3', 'j2'])
            if outv == 's3':
                first = [f'{ind}s3 = {self.ex.damp(self.ex.real_expr(_Without(self.env, "s3"), 2))}']
            else:
                first = [f"{ind}j2 = mod({self.ex.int_expr(_Without(self.env, 'j2'), 1)[0]}, 23)"]
        body = first + self.block(ind, f['max_depth'], rng.randint(2, f['max_stmts']))
        text = '\n'.join(body)
        names = set(re.findall(r'[a-z][a-z0-9_]*', text))
        # known finding outline:array-dimensioned-by-variable-not-used-in-region: outside its hazard slice every
        # region mentions the extents of the arrays it touches
        need = set()
        for arr, dims in (('a', 'n'), ('b', 'n'), ('ia', 'n'), ('d0', 'n'), ('w', 'n'), ('kw', 'n'), ('c2', 'nm'), ('w2', 'nm')):
            if arr in names:
                need |= set(dims)
        need -= names
        if need:
            body.append(f"{ind}if ({' + '.join(sorted(need))} < 0) j1 = 0")
            names |= need | {'j1'}
        params = ''
        if f['named'] and rng.random() < 0.5:
            self.features.add('region_named')
            params += f' name(reg{k})'
        if f['overrides'] and rng.random() < 0.6:
            ro = [v for v in ('n', 'm', 'k1', 'x1') if v in names]
            # (scalars only: an override naming an array duplicates the argument, known finding / hazard override_array)
            rw = [v for v in ('s1', 's2', 'j1', 'lg', 't', 'tl') if v in names and v != outv]
            ins = rng.sample(ro, rng.randint(0, len(ro))) if ro else []
            ios = rng.sample(rw, rng.randint(0, min(3, len(rw)))) if rw else []
            if ins:
                self.features.add('override_in')
                params += f" in({','.join(ins)})"
            if ios:
                self.features.add('override_inout')
                params += f" inout({','.join(ios)})"
            if outv and rng.random() < 0.7:
                self.features.add('override_out')
                params += f' out({outv})'
        self.loop_names = list(self.LOOPVARS)
        return [f'{ind}!$loki outline{params}'] + body + [f'{ind}!$loki end outline']

    # ------------------------------------------------------------------ internal procedures
    def internals(self, count):
        """text of internal procedures and the statements calling them"""
        rng = self.rng
        procs, calls = [], []
        kinds = rng.sample(['isub', 'ifun', 'iarr', 'idrv'], count)
        for kd in kinds:
            self.features.add('internal_' + kd)
            if kd == 'isub':
                procs += ['subroutine isub(p, q)', '  real(jprb), intent(in) :: p', '  real(jprb), intent(out) :: q',
                          '  integer :: i', '  real(jprb) :: loc',
                          f"  loc = p*{rng.choice(['s1', 's2', 'x1', 'rp'])} + real(np + {rng.choice(['j1', 'k1', 'n'])}, jprb)",
                          '  do i = 1, n', f"    {rng.choice(['w', 'a', 'b'])}(i) = sin(loc + {rng.choice(['a', 'w'])}(i))", '  end do',
                          f"  q = tanh(loc){' + s2' if rng.random() < 0.5 else ''}",
                          f"  {rng.choice(['s1', 'j2'])} = {rng.choice(['1', '2', '3'])}", 'end subroutine isub']
                calls.append(f"call isub({rng.choice(['s2', 'x1', '0.5_jprb'])}, s3)")
            elif kd == 'ifun':
                procs += ['function ifun(v) result(r)', '  integer, intent(in) :: v', '  integer :: r',
                          f"  r = mod(v*{rng.choice(['k1', 'j1', 'np'])} + int(c2(1, {rng.choice(['m', '1'])})) + ia({rng.choice(['n', '1'])}), 29)", 'end function ifun']
                calls.append(f"j1 = ifun({rng.choice(['3', 'k1', 'j2'])}) + ifun(2)")
            elif kd == 'iarr':
                procs += ['subroutine iarr(bb)', '  real(jprb), intent(inout) :: bb(:)', '  integer :: jj',
                          '  do jj = 1, size(bb)', f"    bb(jj) = bb(jj)*0.5_jprb + w2(jj, m) + {rng.choice(['s1', 'x1', 'rp'])}",
                          '  end do', '  lf(1) = lf(1) + 1.0_jprb', '  kw(n) = kw(n) + 1', 'end subroutine iarr']
                calls.append(f"call iarr({rng.choice(['a', 'b', 'w'])})")
            else:
                if self.flags['derived']:
                    procs += ['subroutine idrv()', '  t%tp = t%tp*0.5_jprb + tl%tq(2)', '  tl%tp = tl%tp + real(t%tk, jprb)',
                              '  t%tq(3) = sin(t%tq(1) + s1)', '  lf(2) = lf(2) + d0(0)', 'end subroutine idrv']
                else:
                    procs += ['subroutine idrv()', '  lf(2) = lf(2) + d0(0)', '  lg = .not. lg', 'end subroutine idrv']
                calls.append('call idrv()')
        return procs, calls

    # ------------------------------------------------------------------ hazards
    def hazard(self, ind):
        """returns (lines inserted at top level of kern, lines are a region or a call of an internal procedure)"""
        hz = self.hz
        T1, T2 = NOI - 1, NOI
        R1, R2 = NOR - 1, NOR
        reg = lambda body, params='': ([f'{ind}!$loki outline{params}'] + [ind + x for x in body] + [f'{ind}!$loki end outline'])
        s = None
        if hz == 'loopvar_read_after':
            s = reg(['do i = 1, n', '  w(i) = w(i) + 1.0_jprb', 'end do']) + [f'{ind}oi({T1}) = i']
        elif hz == 'derived_default_init_partial_write':
            self.extra_tmod += ['  type td', '    real(jprb) :: dp = 2.0_jprb', '    integer :: dk = 5', '  end type td']
            self.extra_kern_use.append('td')
            self.extra_decl.append('type(td) :: tdv')
            s = [f'{ind}tdv%dk = 7 + k1'] + reg(['tdv%dp = x1']) + [f'{ind}oi({T1}) = tdv%dk', f'{ind}orr({R1}) = tdv%dp']
        elif hz == 'pragma_list_with_spaces':
            s = reg(['s1 = s1 + x1', 's2 = s2*0.5_jprb'], ' in(x1) inout(s1, s2)')
        elif hz == 'override_array':
            s = reg(['w(1) = w(1) + x1', 'lf(2) = 2.0_jprb', 'if (n < 0) j1 = 0'], ' inout(w) out(lf)')
        elif hz == 'inner_array_two_subscripts':
            self.extra_internal += ['subroutine ihz(q)', '  real(jprb), intent(inout) :: q', '  q = q + lf(1) + lf(2)', 'end subroutine ihz']
            s = [f'{ind}call ihz(s1)']
        elif hz == 'file_layout_extract':
            self.extra_internal += ['subroutine ihz(q)', '  integer, intent(inout) :: q', '  q = q + k1', 'end subroutine ihz']
            s = [f'{ind}call ihz(j1)']
        elif hz == 'override_case':
            s = reg(['s1 = s1 + x1'], ' in(X1) inout(S1)')
        elif hz == 'call_internal_in_region':
            self.extra_internal += ['subroutine ihz(q)', '  real(jprb), intent(inout) :: q', '  q = q + 1.0_jprb', 'end subroutine ihz']
            s = reg(['call ihz(s1)', 's2 = s2 + s1'])
        elif hz == 'return_in_region':
            s = reg(['s1 = s1 + 1.0_jprb', 'if (k1 > 0) return', 's1 = s1 + 10.0_jprb']) + [f'{ind}s2 = s2 + 100.0_jprb']
        elif hz == 'cycle_enclosing_loop':
            s = [f'{ind}do j = 1, m'] + ['  ' + x for x in reg(['if (j == 2) cycle', 's1 = s1 + real(j, jprb)'])] + [f'{ind}end do']
        elif hz == 'saved_var_initialiser':
            self.extra_decl.append('integer :: hcnt = 0')
            s = reg(['hcnt = hcnt + 1', 'j1 = j1 + hcnt'])
        elif hz == 'dim_by_local_parameter':
            self.extra_decl += ['integer, parameter :: hlp = 3', 'real(jprb) :: hla(hlp)']
            s = [f'{ind}hla = 1.0_jprb'] + reg(['hla(2) = hla(2) + x1']) + [f'{ind}orr({R1}) = sum(hla)']
        elif hz == 'dim_by_unused_dummy':
            s = reg(['w2(1, 1) = w2(1, 1) + 2.0_jprb', 'kw(1) = kw(1) + 1'])
        elif hz == 'print_only_use':
            s = reg(["print '(a,i0)', 'hz ', j1", 's1 = s1 + 1.0_jprb'])
        elif hz == 'allocate_in_region':
            self.extra_decl.append('real(jprb), allocatable :: hal(:)')
            s = reg(['allocate(hal(n))', 'hal = a', 's1 = s1 + sum(hal)', 'deallocate(hal)'])
        elif hz == 'pointer_in_region':
            self.extra_decl += ['real(jprb), pointer :: hpt(:)', 'real(jprb), target :: htg(3)']
            s = [f'{ind}htg = 1.0_jprb', f'{ind}hpt => htg'] + reg(['hpt(2) = hpt(2) + x1']) + [f'{ind}orr({R1}) = sum(htg)']
        elif hz == 'region_inside_associate':
            s = [f'{ind}associate (zz => s1)'] + ['  ' + x for x in reg(['zz = zz + x1', 's2 = s2 + zz'])] + [f'{ind}end associate']
        elif hz == 'mixed_case_in_region':
            s = reg(['S1 = s1 + x1', 's2 = S1*0.5_jprb'])
        elif hz == 'optional_present_in_region':
            self.kern_args_extra = (', hopt', 'integer, intent(in), optional :: hopt', '')
            s = reg(['if (present(hopt)) then', '  j1 = j1 + hopt', 'else', '  j1 = j1 + 1', 'end if'])
        elif hz == 'module_variable_in_region':
            self.extra_omod_spec.append('  integer :: gmod = 3')
            s = reg(['gmod = gmod + 1', 'j1 = j1 + gmod'])
        elif hz == 'region_char_var':
            self.extra_decl.append('character(len=6) :: hch')
            s = [f"{ind}hch = 'abc'"] + reg(["hch = trim(hch) // 'de'"]) + [f'{ind}oi({T1}) = len_trim(hch)']
        elif hz == 'implicit_loop_var_in_region':
            s = reg(['lf = (/ (real(i, jprb)*x1, i = 1, 4) /)'])
        elif hz == 'write_only_array_section':
            s = reg(['w(1:1) = x1', 'lf(2:3) = 2.0_jprb', 'if (n < 0) j1 = 0'], '')
        elif hz == 'stmt_function_in_region':
            self.extra_decl += ['real(jprb) :: hsf, hsx', 'hsf(hsx) = hsx*2.0_jprb + 1.0_jprb']
            s = reg(['s1 = hsf(s1) + x1'])
        # ---- extraction
        elif hz == 'host_parameter':
            self.extra_decl.append('integer, parameter :: hlp = 3')
            self.extra_internal += ['subroutine ihz(q)', '  integer, intent(inout) :: q', '  q = q + hlp', 'end subroutine ihz']
            s = [f'{ind}call ihz(j1)']
        elif hz == 'type_from_host_module':
            self.extra_omod_spec += ['  type th', '    integer :: hk', '  end type th']
            self.extra_decl.append('type(th) :: thv')
            self.extra_internal += ['subroutine ihz()', '  thv%hk = thv%hk + 1', 'end subroutine ihz']
            s = [f'{ind}thv%hk = k1', f'{ind}call ihz()', f'{ind}oi({T1}) = thv%hk']
        elif hz == 'sibling_call':
            self.extra_internal += ['subroutine ihz(q)', '  integer, intent(inout) :: q', '  call ihz2(q)', '  q = q + j2', 'end subroutine ihz',
                                    'subroutine ihz2(q)', '  integer, intent(inout) :: q', '  q = q + k1', 'end subroutine ihz2']
            s = [f'{ind}call ihz(j1)']
        elif hz == 'host_var_only_in_inner_spec':
            self.extra_internal += ['subroutine ihz(q)', '  real(jprb), intent(inout) :: q', '  real(jprb) :: tmp(m)', '  tmp = 1.5_jprb',
                                    '  q = q + sum(tmp)', 'end subroutine ihz']
            s = [f'{ind}call ihz(s1)']
        elif hz == 'dim_by_member':
            self.extra_decl.append('real(jprb) :: hda(t%tk)')
            self.extra_internal += ['subroutine ihz(q)', '  real(jprb), intent(inout) :: q', '  q = q + sum(hda)', 'end subroutine ihz']
            s = [f'{ind}hda = 0.5_jprb', f'{ind}call ihz(s1)']
        elif hz == 'mixed_case_in_inner':
            self.extra_internal += ['subroutine ihz(q)', '  real(jprb), intent(inout) :: q', '  S2 = s2 + 1.0_jprb', '  q = q + S2', 'end subroutine ihz']
            s = [f'{ind}call ihz(s1)']
        elif hz == 'inner_optional_host':
            self.kern_args_extra = (', hopt', 'integer, intent(in), optional :: hopt', '')
            self.extra_internal += ['subroutine ihz(q)', '  integer, intent(inout) :: q', '  if (present(hopt)) then', '    q = q + hopt', '  else',
                                    '    q = q + 1', '  end if', 'end subroutine ihz']
            s = [f'{ind}call ihz(j1)']
        elif hz == 'inner_uses_module_variable':
            self.extra_omod_spec.append('  integer :: gmod = 3')
            self.extra_internal += ['subroutine ihz(q)', '  integer, intent(inout) :: q', '  gmod = gmod + 1', '  q = q + gmod', 'end subroutine ihz']
            s = [f'{ind}call ihz(j1)']
        elif hz == 'inner_host_loopvar_in_loop':
            self.extra_internal += ['subroutine ihz(q)', '  real(jprb), intent(inout) :: q', '  q = q + a(i)', 'end subroutine ihz']
            s = [f'{ind}do i = 1, n', f'{ind}  call ihz(s1)', f'{ind}end do']
        elif hz == 'inner_fun_in_condition':
            self.extra_internal += ['function ihf(v) result(r)', '  integer, intent(in) :: v', '  integer :: r', '  r = v + j2', 'end function ihf']
            s = [f'{ind}if (ihf(k1) > 2) then', f'{ind}  j1 = j1 + 1', f'{ind}else if (ihf(2) > 40) then', f'{ind}  j1 = j1 + 2', f'{ind}end if',
                 f'{ind}do while (ihf(j1) < 30)', f'{ind}  j1 = j1 + 7', f'{ind}end do']
        elif hz == 'inner_shadow_and_host':
            self.extra_internal += ['subroutine ihz(q)', '  real(jprb), intent(inout) :: q', '  real(jprb) :: s2', '  s2 = 2.0_jprb', '  q = q + s2 + s3',
                                    'end subroutine ihz']
            s = [f'{ind}call ihz(s1)']
        elif hz == 'inner_kind_from_module_import':
            s = []
        elif hz == 'routine_without_contains':
            self.extra_omod_procs += ['  subroutine hplain(q)', '    integer, intent(inout) :: q', '    q = q + 1', '  end subroutine hplain']
            s = [f'{ind}call hplain(j1)']
        else:
            raise ValueError(hz)
        self.features.add('hazard_' + hz)
        return s

    # ------------------------------------------------------------------ assembly
    def generate(self):
        rng, f = self.rng, self.flags
        ind = '    '
        self.loop_names = list(self.LOOPVARS)
        # prefix: initialise locals
        pre = [f'{ind}s1 = x1*0.5_jprb', f'{ind}s2 = 1.5_jprb', f'{ind}s3 = sin(x1)', f'{ind}j1 = k1 + 2', f'{ind}j2 = 3',
               f'{ind}lg = k1 > 1', f'{ind}w = 0.25_jprb', f'{ind}w2 = 0.5_jprb', f'{ind}lf = 2.0_jprb', f'{ind}kw = 1',
               f'{ind}b = 0.0_jprb']
        if f['derived']:
            pre += [f'{ind}tl%tp = 1.0_jprb', f'{ind}tl%tk = 2', f'{ind}tl%tq = 0.5_jprb']
        rng.shuffle(pre)
        pre += self.block(ind, 1, rng.randint(1, 3))
        # middle: regions and internal-procedure calls, interleaved with ordinary statements
        mid = []
        procs, calls = self.internals(f['internals']) if f['internals'] else ([], [])
        items = [('region', k) for k in range(f['regions'])] + [('call', c) for c in calls]
        rng.shuffle(items)
        for kind, x in items:
            if kind == 'region':
                self.features.add('region')
                if f['region_nested'] and rng.random() < 0.5:
                    self.features.add('region_in_loop')
                    self.env.loopvars.append(('j', 'm'))
                    mid += [f'{ind}do j = 1, m'] + self.region(ind + '  ', x, nested_lv='j') + [f'{ind}end do']
                    self.env.loopvars.pop()
                elif f['region_nested']:
                    self.features.add('region_in_if')
                    mid += [f'{ind}if (k1 > -100) then'] + self.region(ind + '  ', x) + [f'{ind}end if']
                else:
                    mid += self.region(ind, x)
            else:
                if rng.random() < 0.3:
                    mid += [f'{ind}if (k1 < 100) then', f'{ind}  {x}', f'{ind}end if']
                else:
                    mid.append(f'{ind}{x}')
            if rng.random() < 0.6:
                mid += self.block(ind, 1, rng.randint(1, 2))
        tops = [k for k, ln in enumerate(mid) if ln.startswith(ind) and not ln.startswith(ind + ' ')
                and not ln.strip().startswith(('else', 'end ', '!$loki end'))]
        # never insert inside a top-level region
        ok, inreg = [], False
        for k, ln in enumerate(mid):
            if ln.startswith(ind + '!$loki outline'):
                inreg = True
            if k in tops and not inreg:
                ok.append(k)
            if ln.startswith(ind + '!$loki end outline'):
                inreg = False
        hz_lines = self.hazard(ind) if self.hz else []
        pos = self.hrng.choice(ok + [len(mid)]) if ok else len(mid)
        mid = mid[:pos] + hz_lines + mid[pos:]
        # suffix: everything is read
        suf = [f'{ind}oi(1) = oi(1) + j1', f'{ind}oi(2) = oi(2) + j2', f'{ind}oi(3) = merge(1, 0, lg)', f'{ind}oi(4) = sum(kw)',
               f'{ind}orr(1) = orr(1) + s1', f'{ind}orr(2) = s2', f'{ind}orr(3) = s3', f'{ind}orr(4) = sum(w)',
               f'{ind}orr(5) = sum(w2)', f'{ind}orr(6) = sum(lf)', f'{ind}orr(7) = w(n) + w2(n, m)']
        if f['derived']:
            suf += [f'{ind}orr(8) = tl%tp + sum(tl%tq)', f'{ind}oi(5) = tl%tk']

        tmod = ['module tmod', '  implicit none', '  integer, parameter :: jprb = selected_real_kind(13, 300)',
                '  type tt', '    real(jprb) :: tp', '    integer :: tk', '    real(jprb) :: tq(3)', '  end type tt']
        if f['layout'] == 'file':
            tmod += ['  integer, parameter :: np = 4', '  real(8), parameter :: rp = 1.5_8']
        tmod += self.extra_tmod
        tmod += ['contains',
              '  subroutine hsub(x, k, y)', '    real(jprb), intent(in) :: x', '    integer, intent(in) :: k',
              '    real(jprb), intent(out) :: y', f"    y = sin(x*{rng.choice(['2.0', '0.5', '1.5'])}_jprb) + real(mod(k, 7), jprb)", '  end subroutine hsub',
              '  pure function hfun(k, j) result(r)', '    integer, intent(in) :: k, j', '    integer :: r',
              f"    r = mod(k*j + {rng.choice([1, 2, 5])}, 31)", '  end function hfun',
              '  subroutine harr(n, p, q)', '    integer, intent(in) :: n', '    real(jprb), intent(in) :: p(n)',
              '    real(jprb), intent(inout) :: q(n)', '    integer :: i', '    do i = 1, n', '      q(i) = 0.5_jprb*q(i) + cos(p(i))', '    end do',
              '  end subroutine harr']
        tmod += ['end module tmod']

        kuse = ['jprb', 'hsub', 'hfun', 'harr'] + (['tt'] if f['derived'] else []) + self.extra_kern_use
        filelayout = f['layout'] == 'file'
        if filelayout:
            self.features.add('layout_free_subroutine')
            kuse += ['np', 'rp']
        L = ['module omod']
        if self.hz == 'inner_kind_from_module_import':
            L.append('  use tmod, only: jprb')
        L += ['  implicit none', '  integer, parameter :: np = 4', '  real(8), parameter :: rp = 1.5_8']
        L += self.extra_omod_spec
        L += ['contains']
        L += self.extra_omod_procs
        darg = ', t' if f['derived'] else ''
        L += [f'  subroutine kern(n, m, k1, x1, a, b, c2, ia, d0{darg}, oi, orr{self.kern_args_extra[0]})']
        if self.hz != 'inner_kind_from_module_import':
            L.append(f"    use tmod, only: {', '.join(kuse)}")
        elif len(kuse) > 1:
            L.append(f"    use tmod, only: {', '.join(kuse[1:])}")
        L += ['    integer, intent(in) :: n, m, k1', '    real(jprb), intent(in) :: x1', '    real(jprb), intent(inout) :: a(n)',
              '    real(jprb), intent(out) :: b(n)', '    real(jprb), intent(inout) :: c2(n, m)', '    integer, intent(inout) :: ia(n)',
              '    real(jprb), intent(inout) :: d0(0:n - 1)']
        if f['derived']:
            L.append('    type(tt), intent(inout) :: t')
        L += [f'    integer, intent(inout) :: oi({NOI})', f'    real(jprb), intent(inout) :: orr({NOR})']
        if self.kern_args_extra[1]:
            L.append('    ' + self.kern_args_extra[1])
        L += ['    integer :: i, j, j1, j2', '    real(jprb) :: s1, s2, s3', '    logical :: lg',
              '    real(jprb) :: w(n), w2(n, m), lf(4)', '    integer :: kw(n)']
        if f['derived']:
            L.append('    type(tt) :: tl')
        L += ['    ' + d for d in self.extra_decl]
        L += pre + mid + suf
        if procs or self.extra_internal:
            L.append('  contains')
            L += ['    ' + x for x in procs + self.extra_internal]
        L += ['  end subroutine kern', 'end module omod']
        if filelayout:
            # kern as a free-standing subroutine in its own file (ExtractTransformation.transform_file)
            k0 = next(k for k, ln in enumerate(L) if ln.startswith('  subroutine kern('))
            K = [ln[2:] for ln in L[k0:-1]]
            K.insert(2, '  implicit none')
            L = K

        stdins = []
        for k in range(4):
            n = rng.randint(2, 6)
            m = rng.randint(2, 5)
            stdins.append(f'{n} {m} {rng.randint(-4, 9)} {rng.uniform(-2.0, 2.0):.4f}\n')
        return Case(files=[('tmod.F90', '\n'.join(tmod) + '\n'), ('kern.F90' if filelayout else 'omod.F90', '\n'.join(L) + '\n')],
                    driver=('drv.F90', self._driver()), stdins=stdins, features=self.features, meta={'hazard': self.hz})

    def _driver(self):
        f = self.flags
        darg = ', t' if f['derived'] else ''
        tdecl = '  type(tt) :: t\n' if f['derived'] else ''
        tinit = '    t%tp = 0.75_8*real(rep, 8)\n    t%tk = 2 + rep\n    t%tq = (/ 0.5_8, 1.5_8, 2.5_8 /)\n' if f['derived'] else ''
        tprint = "    print '(a,*(1x,es23.15))', 't', t%tp, t%tq\n    print '(a,*(1x,i0))', 'tk', t%tk\n" if f['derived'] else ''
        usek = '' if f['layout'] == 'file' else '  use omod, only: kern\n'
        return f'''program main
  use tmod, only: tt
{usek}  implicit none
  integer :: n, m, k1, rep, i, j
  real(8) :: x1
  real(8), allocatable :: a(:), b(:), c2(:, :), d0(:)
  integer, allocatable :: ia(:)
{tdecl}  integer :: oi({NOI})
  real(8) :: orr({NOR})
  read(*, *) n, m, k1, x1
  allocate(a(n), b(n), c2(n, m), ia(n), d0(0:n - 1))
  do rep = 1, 2
    do i = 1, n
      a(i) = 3.0_8*sin(1.3_8*real(i, 8) + x1 + real(rep, 8))
      ia(i) = mod(i*i*7 + k1 + rep, 11) - 3
      d0(i - 1) = cos(0.7_8*real(i*i, 8) + x1)
      do j = 1, m
        c2(i, j) = sin(real(i*i + 3*j, 8)*0.37_8 + x1)
      end do
    end do
    b = -1.0_8
    oi = rep
    orr = 0.5_8*real(rep, 8)
{tinit}    call kern(n, m, k1 + rep - 1, x1, a, b, c2, ia, d0{darg}, oi, orr)
    print '(a,i0)', 'rep ', rep
    print '(a,*(1x,es23.15))', 'a', a
    print '(a,*(1x,es23.15))', 'b', b
    print '(a,*(1x,es23.15))', 'c2', c2
    print '(a,*(1x,es23.15))', 'd0', d0
    print '(a,*(1x,i0))', 'ia', ia
{tprint}    print '(a,*(1x,i0))', 'oi', oi
    print '(a,*(1x,es23.15))', 'orr', orr
  end do
end program main
'''


class _Without:
    """view of an Env that hides one scalar (for 'defined before read' statements)"""

    def __init__(self, env, name):
        self._env, self._name = env, name

    def int_leaves(self):
        return [x for x in self._env.int_leaves() if x[0] != self._name]

    def real_leaves(self):
        return [x for x in self._env.real_leaves() if x != self._name]

    def log_leaves(self):
        return self._env.log_leaves()
