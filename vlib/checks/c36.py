"""C36 -- Fortran-to-Python transpilation preserves behaviour (translation validation by execution)."""
import shutil

from vlib import diffexec, tplab
from vlib.core import sighash
from vlib.tpgen import TPGen

PID = 'C36'
LEVEL = 'translation_validation'
TECHNIQUE = 'per-program translation validation by differential execution (gfortran original vs generated Python function on numpy inputs)'
LEVEL_TEXT = ('every generated routine of the Python-transpilable subset is translated by the real '
              'FortranPythonTransformation; the generated module is imported in a subprocess and called with numpy inputs '
              '(Fortran order, dtype per declared kind) for 4 input sets; returned scalars and in-place modified arrays are '
              'compared with the outputs printed by the gfortran-compiled original (integers/logicals exactly, reals to the '
              'precision of the declared kind)')
LEVEL_NOTE = ('validates the sampled programs and inputs only; gfortran -O0 with run-time checks is the reference semantics; '
              'real tolerance: real64 rtol 1e-11/atol 1e-10, real32 (or mixed-precision data flow) rtol 1e-4/atol 1e-3; '
              'a numerically equal value of a wider Python type (2.0 for 2) is accepted')
RULE = ('T1 generated kernels of the Python-transpilable subset (integer/real32/real64/logical scalars and rank 1-3 arrays, '
        'arithmetic incl. **, min/max/abs/sqrt/exp, real() casts, nested loops incl. negative steps, while loops, conditionals, '
        'vector notation, local arrays, named constants); features with a known open finding (integer division, sign, '
        'non-unit lower bounds, non-unit loop steps, ...) are confined to 1/16 slices each. Non-trivial = the original built and '
        'ran clean on all inputs and the generated Python was executed and compared; distinct = hash of kernel text.')
CASES = {'quick': 96, 'thorough': 1600}
MIN_NONTRIVIAL = {'quick': 48, 'thorough': 900}
ANCHORS = ['loki/transformations/transpile/fortran_python.py', 'loki/backend/pygen.py']
REQUIRED_REACH = ['transform_subroutine', 'visit_Loop', 'map_array_subscript', 'visit_Conditional']
REQUIRED_COUNTERS = {'output_comparisons': 40, 'python_calls': 40}
ASSUMPTIONS = ['gfortran 12 -O0 -fcheck=all with FPE traps is the reference semantics of the original routine',
               'generated kernels are well-defined by construction; a case whose original does not run clean is discarded as inconclusive',
               'the caller passes scalars as numpy scalars of the annotated dtype and arrays as Fortran-ordered numpy arrays, '
               'as the Loki pygen tests do',
               'reals compared to the precision of the declared kind (see LEVEL_NOTE)']
BUDGET_S = {'quick': 1800, 'thorough': 5400}
CASE_TIMEOUT_S = 900
WATCHDOG_S = {'quick': 3600, 'thorough': 14400}    # generous: a loaded machine must not turn into INCONCLUSIVE

SLICES = {
    1: ('int_div', dict(int_div=True)),
    3: ('sign', dict(sign=True, sign_boost=True)),
    5: ('lbounds', dict(lbounds=True)),
    7: ('stride', dict(stride=True)),
    9: ('default_real_lit', dict(default_real_lit=True)),
    11: ('int_cast', dict(int_cast=True)),
    13: ('sections', dict(sections=True)),
    15: ('kind_local_param', dict(kind_decl='jprb_local', kinds=('jprb',))),
    2: ("vector_minmax", dict(vector_minmax=True)),
}


def case_flags(rng, idx):
    f = {'target': 'py', 'int_div': False, 'sign': False, 'lbounds': False, 'stride': False, 'int_dbl_ctx': True,
         'vector_minmax': False}
    kk = rng.choice(['r64', 'r64', 'r32', 'two', 'mix'])
    if kk == 'r64':
        f['kinds'] = ('real64',)
    elif kk == 'r32':
        f['kinds'] = ('real32',)
    elif kk == 'two':
        f['kinds'] = ('real32', 'real64') if rng.random() < 0.5 else ('real64', 'real32')
    else:
        f.update(kinds=('real64', 'real32'), mix_kinds=True)
    f['params'] = rng.random() < 0.6
    f['local_arrays'] = rng.random() < 0.7
    f['nstmts'] = rng.choice([4, 6, 8, 10])
    f['expr_depth'] = rng.choice([2, 3, 3, 4])
    name = 'core'
    if idx % 16 in SLICES:
        name, over = SLICES[idx % 16]
        f.update(over)
    return name, f


def py_values(case, run):
    """python results in the order (and with the names) of the Fortran driver's output records"""
    rets = [a for a in case.args if not a[4] and a[3] in ('inout', 'out')]
    ret = run['ret']
    if len(ret) != len(rets):
        return None, f'function returned {len(ret)} values for {len(rets)} scalar inout/out arguments'
    byname = {a[0]: r for a, r in zip(rets, ret)}
    vals = []
    for nm, typ, kind, rank in case.outputs:
        tag = {'int': 'i', 'log': 'l'}.get(typ) or ('f' if case.kindbytes[kind] == 4 else 'd')
        items = run['arrays'][nm] if rank else [byname[nm][1]]
        for x in items:
            if tag == 'l':
                x = bool(x)
            elif not isinstance(x, (int, float)):
                return None, f'{nm}: non-numeric result {x!r}'
            vals.append((nm, tag, x))
    return vals, ''


def run_case(idx, rng, tier, ctx):
    slice_name, flags = case_flags(rng, idx)
    case = TPGen(rng, flags).generate()
    res = {'sig': sighash(case.kernel), 'nontrivial': False, 'violations': [], 'inconclusive': None,
           'features': sorted(case.features | {f'slice_{slice_name}'}), 'counters': {}}
    wd = ctx['scratch'] / f'c{idx}'
    shutil.rmtree(wd, ignore_errors=True)
    try:
        _run(case, slice_name, wd, res, res['counters'])
    finally:
        shutil.rmtree(wd, ignore_errors=True)
    return res


def _run(case, slice_name, wd, res, cnt):
    def viol(key, msg, pysrc=None, detail=None):
        if slice_name != 'core':
            key = ':'.join(key.split(':')[:2])      # one key per (stage, gated mechanism)
        res['violations'].append({'key': f'{key}:{slice_name}', 'msg': msg[:600],
                                  'witness': {'kernel': case.kernel, 'python': pysrc, 'detail': detail}})

    try:
        oexe = tplab.build_orig(case, tplab.CaseBuild(wd / 'build'))
    except diffexec.BuildError as e:
        res['inconclusive'] = 'generator defect (original does not build): ' + str(e)[-400:]
        return
    ro = diffexec.run(oexe, stdin=case.stdins[0], timeout=tplab.RUN_TIMEOUT)
    cnt['program_runs'] = cnt.get('program_runs', 0) + 1
    if ro['rc'] != 0 or ro['san']:
        res['inconclusive'] = f"generator defect (original does not run clean): rc={ro['rc']} {ro['san'][:2]} {ro['err'][-300:]}"
        return
    refs = []
    try:
        for n, t, v in tplab.parse_output(ro['out']):
            if n == '===':
                refs.append([])
            else:
                refs[-1].append((n, t, tplab._num(t, v)))       # pylint: disable=protected-access
    except (ValueError, IndexError) as e:
        res['inconclusive'] = f'unparsable original output: {e}'
        return
    if len(refs) != len(case.inputs):
        res['inconclusive'] = f'original printed {len(refs)} result sets for {len(case.inputs)} input sets'
        return
    try:
        pysrc = tplab.transpile_py(case, wd / 'gen')
        cnt['translations'] = cnt.get('translations', 0) + 1
    except Exception as e:  # pylint: disable=broad-except
        res['nontrivial'] = True
        viol(f'f2py:exception:{tplab.exc_key(e)}', f'{type(e).__name__}: {e}')
        return
    out, err = tplab.run_python(case, pysrc, wd / 'py')
    if out is None:
        res['inconclusive'] = 'python subprocess: ' + err[-300:]
        return
    res['nontrivial'] = True
    res['sample'] = {'slice': slice_name, 'features': sorted(case.features)[:40],
                     'kernel_lines': len(case.kernel.splitlines()), 'python_head': pysrc.splitlines()[1][:200]}
    if out['import_error']:
        viol('f2py:import-error:' + tplab.norm_msg('error: ' + out['import_error']), out['import_error'], pysrc)
        return
    for q, run in enumerate(out['runs']):
        cnt['python_calls'] = cnt.get('python_calls', 0) + 1
        if run['error']:
            e = run['error']
            viol(f"f2py:runtime-exception:{e['type']}:{tplab.norm_msg('error: ' + e['msg'])[:40]}",
                 f"input {q}: {e['type']}: {e['msg']} at `{e['line']}`", pysrc, {'input': case.inputs[q], 'error': e})
            return
        vals, why = py_values(case, run)
        if vals is None:
            viol('f2py:result-shape', f'input {q}: {why}', pysrc, {'input': case.inputs[q], 'ret': run['ret']})
            return
        cnt['output_comparisons'] = cnt.get('output_comparisons', 0) + 1
        cnt['values_compared'] = cnt.get('values_compared', 0) + len(vals)
        mism = tplab.compare_values(refs[q], vals, case.tainted)
        if mism:
            m = mism[0]
            tag = {'i': 'integer', 'l': 'logical', 'f': 'real32', 'd': 'real64'}.get(m['tag'], m['tag'])
            where = 'array' if any(o[0] == m['name'] and o[3] for o in case.outputs) else 'scalar'
            kind = f':{tag}-{where}' if slice_name == 'core' else ''
            viol(f'f2py:output-differs{kind}', f'input {q}: {mism[:2]}', pysrc,
                 {'input': case.inputs[q], 'mismatches': mism[:6], 'n_mismatch': len(mism)})
            return


def finalize(agg, tier):
    c = agg['counters']
    agg['extra_coverage'] = {
        'programs': len(agg['sigs']),
        'python_calls': c.get('python_calls', 0),
        'disagreements_checked': c.get('output_comparisons', 0),
        'values_compared': c.get('values_compared', 0),
    }
