"""C30 -- array-notation resolution and index normalisation preserve behaviour (differential execution)."""
import re
import shutil
import subprocess
import traceback
from pathlib import Path

from vlib import diffexec
from vlib.arrgen import ArrGen, DMOD, RK
from vlib.core import sighash, PYTHON

PID = 'C30'
LEVEL = 'exploration'
TECHNIQUE = 'differential execution (gfortran/gcc run-time checks + sanitizers) over generated array-section kernels'
LEVEL_TEXT = ('Every transformation of loki.transformations.array_indexing named in the property is applied to generated '
              'kernels full of array-section assignments whose hazards the generator knows; original and transformed '
              'kernel run under the same untouched driver on several non-linear input sets and all array contents '
              'are compared. shift_to_zero_indexing / invert_array_indices / flatten_arrays(order=C) are exercised '
              'where they are meant to be used: inside FortranCTransformation (C code compiled with ASan/UBSan behind '
              'the generated ISO-C wrapper) and FortranPythonTransformation (generated numpy kernel).')
LEVEL_NOTE = ('gfortran -O0 -fcheck=all is the reference semantics. Kernels are external subroutines with explicit-shape '
              'dummies (re-declaring shapes is then invisible to the caller). The Python setting uses arrays with lower '
              'bound 1 only (FortranPythonTransformation has no shape normalisation step, numpy arrays start at 0) and a '
              'statement subset pygen can print (no WHERE, calls, reductions); numpy does not bounds-check negative '
              'indices, so an index error there shows only through differing contents. Constructs with a known defect '
              'are confined to one hostile statement per case in a quarter of the cases; a violation is attributed to '
              'the hostile construct only if the same variant passes once that single statement is removed.')
RULE = ('vlib/arrgen.py: kernel with 4-8 statements drawn from section assignments (rank 1-3, strides incl. negative, '
        'lower bounds != 1, ":"/bare forms, scalar and element broadcast, safe overlaps in both directions), WHERE '
        'with a matching loop, element loop nests, sections inside loops, sections as call arguments, reductions, '
        'ks:ke sections (horizontal dimension first, or second behind a range that stays: arrays laid out (m, n) / (c, n)), '
        'derived-type shaped locals; profile fortran (3-4 of 9 transformation variants per case), c '
        '(FortranCTransformation) or py (FortranPythonTransformation, invert on/off). idx%4==3: one hostile statement. '
        'Non-trivial = the variant changed the kernel text and original and transformed program ran clean with equal '
        'output on all input sets; distinct = hash of kernel text + variant list.')
CASES = {'quick': 160, 'thorough': 2400}
MIN_NONTRIVIAL = {'quick': 60, 'thorough': 900}
ANCHORS = ['loki/transformations/array_indexing/vector_notation.py',
           'loki/transformations/array_indexing/array_indices.py']
REQUIRED_REACH = ['resolve_vector_notation', 'resolve_vector_dimension', 'add_explicit_array_dimensions',
                  'remove_explicit_array_dimensions', 'normalize_range_indexing', 'normalize_array_shape_and_access',
                  'flatten_arrays', 'shift_to_zero_indexing', 'invert_array_indices']
REQUIRED_COUNTERS = {'variants_equal': 20}
ASSUMPTIONS = ['gfortran 12 -O0 with run-time checks is the reference semantics',
               'generated kernels are well-defined by construction (original must run clean, else the case is discarded)',
               'reals compared to relative 1e-11, integers exactly']
BUDGET_S = {'quick': 900, 'thorough': 3000}
CASE_TIMEOUT_S = 900

HOSTILES = ['overlap_fwd', 'overlap_elem', 'stride_mismatch', 'halfopen', 'where_no_loop', 'where_shifted',
            'where_multi', 'section_in_same_range_loop', 'transformational_intrinsic', 'strided_shifted',
            'colon_shifted', 'section_call_arg', 'neg_stride_py']

# mechanism names of the hostile constructs (first part of the key of a violation attributed to them)
MECH = {
    'overlap_fwd': 'resolve:overlapping-sides-ascending-loop',
    'overlap_elem': 'resolve:broadcast-element-overwritten-before-last-read',
    'stride_mismatch': 'resolve:operand-strides-differ',
    'halfopen': 'resolve:half-open-range',
    'where_no_loop': 'resolve:where-body-index-unbound',
    'where_shifted': 'resolve:where-mask-and-body-ranges-differ',
    'where_multi': 'resolve:where-masked-elsewhere',
    'section_in_same_range_loop': 'resolve:reuses-enclosing-loop-variable',
    'transformational_intrinsic': 'resolve:array-valued-intrinsic-argument-scalarised',
    'strided_shifted': 'normalize:section-stride-dropped',
    'colon_shifted': 'normalize:colon-on-shifted-dimension',
    'section_call_arg': 'flatten:rank2-section-call-argument',
    'neg_stride_py': 'shift_to_zero:negative-stride-stop',
}

FVARIANTS = ['rvn', 'rvn-opts', 'rvd', 'rvd-rvn', 'explicit', 'remove', 'nri', 'nasa', 'pipe']


def case_flags(rng, idx):
    """profile, generator flags and the variants to run"""
    f = {'hostile': None}
    slot = idx % 8
    profile = 'fortran'
    if slot == 5:
        profile = 'c'
    elif slot == 6:
        profile = 'py'
    if idx % 4 == 3:
        h = HOSTILES[(idx // 4) % len(HOSTILES)]
        f['hostile'] = h
        if h == 'neg_stride_py':
            profile = 'py'
        elif (idx // 4) // len(HOSTILES) % 3 == 2 and h not in ('section_call_arg', 'transformational_intrinsic'):
            profile = 'c'
    f['profile'] = profile
    f['derived_dims'] = profile == 'fortran' and rng.random() < 0.2
    f['rank3'] = rng.random() < 0.7
    f['lbounds'] = rng.random() < 0.75
    f['allow_section_args'] = f['hostile'] == 'section_call_arg'
    if profile == 'c':
        f.update(calls=False, reductions=False, derived_dims=False, logical_mask=False)
    if profile == 'py':
        f.update(calls=False, reductions=False, derived_dims=False, where=False, lbounds=False, explicit_one=False,
                 no_bare_lhs=True, neg_strides=False)
    if f['hostile'] == 'section_call_arg':
        f['calls'] = True
    # strided / ':' sections on arrays with lower bound != 1 break normalize_array_shape_and_access (known): they
    # are allowed in a quarter of the fortran cases, which then do not run the normalising variants, so that the
    # other transformations see them and the normalising ones are not masked everywhere
    f['shifted_forms'] = profile == 'fortran' and idx % 4 == 1 and not f['hostile']
    f['allow_strided_shifted'] = f['shifted_forms']
    f['allow_colon_shifted'] = f['shifted_forms']
    return f


def innermost_loki_frame(exc):
    name = '?'
    for fr in traceback.extract_tb(exc.__traceback__):
        if '/loki/' in fr.filename:
            name = fr.name
    return name


# ---- transformations ----------------------------------------------------------------------------------------

def apply_fortran_variant(variant, src, vopts):
    """returns (new kernel text, description)"""
    from loki import Subroutine, Dimension
    from loki.transformations import array_indexing as ai
    routine = Subroutine.from_source(src)
    if variant == 'rvn':
        ai.resolve_vector_notation(routine)
    elif variant == 'rvn-opts':
        ai.resolve_vector_notation(routine, **vopts)
    elif variant == 'rvd':
        dim = Dimension(name='horizontal', index='jl', lower='ks', upper='ke', size='n')
        ai.resolve_vector_dimension(routine, dim, **vopts)
    elif variant == 'rvd-rvn':
        # only the horizontal ranges first (other ranges stay), then everything that is left
        dim = Dimension(name='horizontal', index='jl', lower='ks', upper='ke', size='n')
        ai.resolve_vector_dimension(routine, dim, **vopts)
        ai.resolve_vector_notation(routine)
    elif variant == 'explicit':
        ai.add_explicit_array_dimensions(routine)
        if vopts.get('then_remove'):
            ai.remove_explicit_array_dimensions(routine, calls_only=vopts.get('calls_only', False))
    elif variant == 'remove':
        ai.remove_explicit_array_dimensions(routine, calls_only=vopts.get('calls_only', False))
    elif variant == 'nri':
        ai.normalize_range_indexing(routine)
    elif variant == 'nasa':
        ai.normalize_array_shape_and_access(routine)
    elif variant == 'pipe':
        ai.resolve_vector_notation(routine)
        ai.normalize_array_shape_and_access(routine)
        ai.flatten_arrays(routine, order='F', start_index=1)
    else:
        raise ValueError(variant)
    return routine.to_fortran() + '\n'


def variant_opts(variant, rng):
    if variant == 'rvn-opts':
        o = {'resolve_implicit_rhs_ranges': rng.random() < 0.5, 'insert_comments': rng.random() < 0.5,
             'substitute_derived_type_bounds': rng.random() < 0.6}
        return o
    if variant in ('rvd', 'rvd-rvn'):
        return {'derive_qualified_ranges': rng.random() < 0.5, 'resolve_implicit_rhs_ranges': rng.random() < 0.7}
    if variant in ('explicit', 'remove'):
        return {'then_remove': rng.random() < 0.5, 'calls_only': rng.random() < 0.5}
    return {}


GLUE_C = """subroutine kern({args})
  use iso_fortran_env, only: {rk}
  use kern_fc_mod, only: kern_fc
  implicit none
{decls}
  call kern_fc({args})
end subroutine kern
"""


def apply_c_pipeline(src, wd):
    """FortranCTransformation + ISO-C wrapper; returns (fortran sources, c sources)"""
    from loki import Subroutine
    from loki.transformations.transpile import FortranCTransformation, FortranISOCWrapperTransformation
    routine = Subroutine.from_source(src)
    wd.mkdir(parents=True, exist_ok=True)
    FortranISOCWrapperTransformation().apply(routine, path=wd)
    FortranCTransformation().apply(routine, path=wd, role='kernel')
    wrapper = (wd / 'kern_fc.F90').read_text()
    ctext = (wd / 'kern_c.c').read_text()
    htext = (wd / 'kern_c.h').read_text()
    return wrapper, ctext, htext


def glue_for(case):
    decls = []
    for ln in case.kernel().splitlines():
        s = ln.strip()
        if 'intent(' in s:
            decls.append('  ' + s)
    return GLUE_C.format(args=', '.join(case.args), rk=RK, decls='\n'.join(decls))


PYDRV = """import sys
import numpy as np
sys.path.insert(0, {wd!r})
from kern import kern

def fill_int(k, sd):
    q = np.arange(1, k + 1, dtype=np.int64)
    return ((q * q * 3 + 7 * q + sd * 5) % 23 - 11).astype(np.int32)

def fill_real(k, sd):
    q = np.arange(1, k + 1, dtype=np.int64)
    return ((q * q * 5 + 11 * q + sd * 3) % 31 - 15).astype(np.float64) * 0.25

def fill_log(k, sd):
    q = np.arange(1, k + 1, dtype=np.int64)
    return (q * q + q + sd) % 3 != 0

n, m, ks, ke, seed = [int(x) for x in sys.stdin.read().split()]
si = np.int32(seed)
sr = np.float64(seed) * 0.5
{allocs}
ret = kern({args})
if isinstance(ret, tuple):
    for nm, v in zip({inout_scalars!r}, ret):
        if nm == 'si':
            si = v
        elif nm == 'sr':
            sr = v
elif ret is not None:
    {single}
print('scal', int(si), '%.15e' % float(sr))
{prints}
"""


def py_driver(case, wd, invert, scalar_order):
    allocs, prints, args = [], [], []
    q = 0
    for a in case.arrays:
        if not a.intent:
            continue
        shape = ', '.join(d.ext_text() for d in a.dims)
        allocs.append(f"{a.name}_f = fill_{a.typ}(int(np.prod([{shape}])), seed + {3 * q + 1}).reshape(({shape},), order='F')")
        if invert:
            # row-major view with reversed index order onto the same memory
            allocs.append(f"{a.name} = {a.name}_f.T")
        else:
            allocs.append(f"{a.name} = {a.name}_f")
        if a.typ == 'int':
            prints.append(f"print('{a.name}', *[int(v) for v in {a.name}_f.flatten(order='F')])")
        elif a.typ == 'real':
            prints.append(f"print('{a.name}', *['%.15e' % float(v) for v in {a.name}_f.flatten(order='F')])")
        q += 1
    single = f'{scalar_order[0]} = ret' if len(scalar_order) == 1 else 'pass'
    return PYDRV.format(wd=str(wd), allocs='\n'.join(allocs), args=', '.join(case.args),
                        prints='\n'.join(prints), inout_scalars=list(scalar_order), single=single)


def apply_py_pipeline(src, wd, invert):
    from loki import Subroutine
    from loki.transformations.transpile import FortranPythonTransformation
    routine = Subroutine.from_source(src)
    wd.mkdir(parents=True, exist_ok=True)
    t = FortranPythonTransformation(invert_indices=invert)
    t.apply(routine, path=wd)
    text = Path(t.py_path).read_text()
    m = re.search(r'^\s*return (.*)$', text, re.M)
    order = [x.strip() for x in m.group(1).split(',')] if m else []
    return text, order


# ---- running ------------------------------------------------------------------------------------------------

def classify_detail(status, detail):
    d = detail or ''
    if status == 'new_build_fail':
        m = re.search(r'Error: (.{0,80})', d)
        if m:
            msg = re.sub(r"'[^']*'", 'X', m.group(1))
            msg = re.sub(r'\(\d+\)', '', msg)
            return 'compile-fail:' + re.sub(r'[^A-Za-z ]+', '', msg).strip().replace(' ', '-')[:48]
        m = re.search(r'error: (.{0,60})', d)
        if m:
            return 'compile-fail-c:' + re.sub(r'[^A-Za-z ]+', '', m.group(1)).strip().replace(' ', '-')[:40]
        return 'compile-fail'
    if 'out of bounds' in d or 'bounds' in d and 'runtime error' in d:
        return 'runtime-check:bounds'
    if 'AddressSanitizer' in d:
        return 'runtime-check:asan'
    if 'runtime error' in d or 'SIGFPE' in d or 'SIGSEGV' in d or 'exit status' in d:
        return 'runtime-error'
    return 'output-differs'


class Runner:
    """original built once per case (and once more without the hostile statement if needed)"""

    def __init__(self, case, wd):
        self.case, self.wd = case, wd
        self.pre = []
        if case.flags.get('derived_dims'):
            self.pre.append(('dmod.F90', DMOD))
        if case.helper:
            self.pre.append(('hmod.F90', case.helper))
        self.driver = ('drv.F90', case.driver())
        self.orig = {}
        self.builds = 0
        self.runs = 0

    def original(self, dropped):
        """run results of the original kernel: list of run dicts, or raises BuildError / returns reason"""
        if dropped in self.orig:
            return self.orig[dropped]
        src = self.case.kernel(drop_hostile=dropped)
        d = self.wd / ('orig_d' if dropped else 'orig')
        try:
            exe = diffexec.build(d, self.pre + [('k.F90', src), self.driver])
            self.builds += 1
        except diffexec.BuildError as e:
            self.orig[dropped] = ('bad', 'original does not build: ' + str(e)[:400])
            return self.orig[dropped]
        outs = []
        for sin in self.case.stdins:
            ro = diffexec.run(exe, stdin=sin)
            self.runs += 1
            if ro['rc'] != 0 or ro['san']:
                self.orig[dropped] = ('bad', f"original rc={ro['rc']} {ro['san'][:2]} {ro['err'][-300:]}")
                return self.orig[dropped]
            outs.append(ro)
        self.orig[dropped] = ('ok', outs)
        return self.orig[dropped]

    def compare(self, outs, runfn):
        for sin, ro in zip(self.case.stdins, outs):
            rn = runfn(sin)
            self.runs += 1
            eq, why = diffexec.outputs_equal(ro, rn)
            if not eq:
                return 'differ', {'detail': why, 'stdin': sin, 'orig_out': ro['out'][-1200:],
                                  'new_out': rn['out'][-1200:], 'new_err': rn['err'][-800:]}
        return 'equal', {}

    def run_variant(self, variant, vopts, dropped, tag):
        """returns (status, info): status in equal|same-text|differ|new_build_fail|exception|orig_bad"""
        src = self.case.kernel(drop_hostile=dropped)
        st, outs = self.original(dropped)
        if st == 'bad':
            return 'orig_bad', {'detail': outs}
        d = self.wd / f'v_{tag}'
        shutil.rmtree(d, ignore_errors=True)
        try:
            if variant == 'cpipe':
                wrapper, ctext, htext = apply_c_pipeline(src, d / 'gen')
                new_text = ctext
            elif variant in ('py', 'py-inv'):
                new_text, order = apply_py_pipeline(src, d, variant == 'py-inv')
            else:
                new_text = apply_fortran_variant(variant, src, vopts)
        except Exception as e:  # pylint: disable=broad-except
            return 'exception', {'detail': f'{type(e).__name__}: {e}'[:500],
                                 'class': f'exception:{type(e).__name__}@{innermost_loki_frame(e)}'}
        info = {'new_text': new_text}
        if variant == 'cpipe':
            try:
                (d / 'build').mkdir(parents=True, exist_ok=True)
                (d / 'build' / 'kern_c.h').write_text(htext)
                exe = diffexec.build(d / 'build', self.pre + [('kern_fc.F90', wrapper), ('glue.F90', glue_for(self.case)),
                                                               self.driver], csources=[('kern_c.c', ctext)],
                                     cflags=diffexec.CFLAGS + ['-std=gnu99'])
                self.builds += 1
            except diffexec.BuildError as e:
                info.update(detail=str(e)[:1200])
                return 'new_build_fail', info
            s, more = self.compare(outs, lambda sin: diffexec.run(exe, stdin=sin))
        elif variant in ('py', 'py-inv'):
            drv = d / 'pydrv.py'
            drv.write_text(py_driver(self.case, d, variant == 'py-inv', order))

            def runpy(sin):
                try:
                    p = subprocess.run([PYTHON, str(drv)], input=sin, capture_output=True, text=True, timeout=60)
                    err = p.stderr
                    err = '\n'.join(l for l in err.splitlines() if 'WARNING conda' not in l)
                    return {'rc': p.returncode, 'out': p.stdout, 'err': err,
                            'san': ['python: ' + err.strip().splitlines()[-1][:200]] if p.returncode != 0 and err.strip() else []}
                except subprocess.TimeoutExpired:
                    return {'rc': -999, 'out': '', 'err': 'TIMEOUT', 'san': []}
            s, more = self.compare(outs, runpy)
            if s == 'differ' and 'TIMEOUT' in more.get('new_err', ''):
                return 'timeout', more
        else:
            if new_text.strip() == apply_identity(src).strip():
                return 'same-text', info
            try:
                exe = diffexec.build(d, self.pre + [('k.F90', new_text), self.driver])
                self.builds += 1
            except diffexec.BuildError as e:
                info.update(detail=str(e)[:1200])
                return 'new_build_fail', info
            s, more = self.compare(outs, lambda sin: diffexec.run(exe, stdin=sin))
        info.update(more)
        shutil.rmtree(d, ignore_errors=True)
        return s, info


_ID_CACHE = {}


def apply_identity(src):
    """parse + regenerate without transformation (to decide whether a variant changed the IR)"""
    if src not in _ID_CACHE:
        from loki import Subroutine
        _ID_CACHE.clear()
        _ID_CACHE[src] = Subroutine.from_source(src).to_fortran() + '\n'
    return _ID_CACHE[src]


def coarse(cls):
    if cls.startswith('exception:'):
        return cls.split('@')[0]
    if cls.startswith('compile-fail'):
        return 'compile-fail'
    if cls.startswith('runtime'):
        return 'runtime-error'
    return cls


def status_class(status, info):
    if status == 'exception':
        return info['class']
    return classify_detail(status, (info.get('detail') or '') + ' ' + (info.get('new_err') or ''))


def plan_case(idx, rng, tier):
    """generate the case and choose the variants (no compilation)"""
    flags = case_flags(rng, idx)
    gen = ArrGen(rng, flags)
    case = gen.generate()
    profile = flags['profile']
    hostile_stmt = next((s for s in case.stmts if s.hostile), None)
    hostile = hostile_stmt.hostile if hostile_stmt else None
    if profile == 'fortran':
        k = 3 if tier == 'quick' else 4
        pool = [v for v in FVARIANTS if not (flags['shifted_forms'] and v in ('nasa', 'pipe'))]
        first = rng.choice([v for v in ('rvn', 'pipe', 'rvn-opts') if v in pool])
        rest = [v for v in pool if v != first]
        variants = [first] + rng.sample(rest, k - 1)
        need = {'strided_shifted': 'nasa', 'colon_shifted': 'nasa', 'section_call_arg': 'pipe'}.get(hostile)
        if need and need not in variants:
            variants[-1] = need
        elif 'vecdim-late' in gen.features and not {'rvd', 'rvd-rvn'} & set(variants) and rng.random() < 0.6:
            # statements with an unresolved range ahead of the horizontal one are what the rvd variants are about
            variants[-1] = rng.choice(['rvd', 'rvd-rvn'])
    elif profile == 'c':
        variants = ['cpipe']
    else:
        variants = ['py', 'py-inv'] if rng.random() < 0.5 else [rng.choice(['py', 'py-inv'])]
    vopts = {v: variant_opts(v, rng) for v in variants}
    return flags, gen, case, hostile_stmt, variants, vopts


def run_case(idx, rng, tier, ctx):
    flags, gen, case, hostile_stmt, variants, vopts = plan_case(idx, rng, tier)
    profile = flags['profile']
    hostile = hostile_stmt.hostile if hostile_stmt else None
    src = case.kernel()
    res = {'sig': sighash([src, variants, vopts]), 'nontrivial': False, 'violations': [], 'inconclusive': None,
           'features': sorted(gen.features | {'profile-' + profile} | ({'hostile-' + hostile} if hostile else set())),
           'counters': {}}
    wd = ctx['scratch'] / f'c{idx}'
    run = Runner(case, wd)
    cnt = {'variants_run': 0, 'variants_equal': 0, 'variants_unchanged': 0, 'hostile_confirmations': 0}
    nontrivial = False
    try:
        for v in variants:
            cnt['variants_run'] += 1
            cnt['variant_' + v] = cnt.get('variant_' + v, 0) + 1
            status, info = run.run_variant(v, vopts[v], False, v)
            if status == 'orig_bad':
                res['inconclusive'] = 'generator defect: ' + info['detail'][:400]
                break
            if status == 'timeout' or 'TIMEOUT' in (info.get('detail') or '') or 'TIMEOUT' in (info.get('new_err') or ''):
                res['inconclusive'] = 'timeout while building/running the transformed program'
                break
            if status == 'same-text':
                cnt['variants_unchanged'] += 1
                continue
            if status == 'equal':
                cnt['variants_equal'] += 1
                nontrivial = True
                continue
            cls = status_class(status, info)
            key = f'{v}:{cls}'
            attributed = None
            if hostile:
                # is the hostile statement the explanation?  same variant without that single statement
                cnt['hostile_confirmations'] += 1
                s2, i2 = run.run_variant(v, vopts[v], True, v + '_d')
                if s2 in ('equal', 'same-text'):
                    attributed = hostile
                    key = MECH[hostile]
                elif s2 == 'orig_bad':
                    res['inconclusive'] = 'generator defect (hostile-free kernel): ' + i2['detail'][:300]
                    break
                elif s2 == 'timeout' or 'TIMEOUT' in (i2.get('detail') or '') or 'TIMEOUT' in (i2.get('new_err') or ''):
                    res['inconclusive'] = 'timeout while building/running (hostile-free kernel)'
                    break
            res['violations'].append({
                'key': key, 'msg': (info.get('detail') or '')[:500],
                'witness': {'variant': v, 'options': vopts[v], 'hostile_statement': hostile_stmt.lines if attributed else None,
                            'kernel': src, 'transformed': (info.get('new_text') or '')[:6000], 'driver': case.driver(),
                            'stdin': info.get('stdin'), 'orig_out': info.get('orig_out'), 'new_out': info.get('new_out'),
                            'new_err': info.get('new_err')}})
    finally:
        shutil.rmtree(wd, ignore_errors=True)
    cnt['program_builds'] = run.builds
    cnt['program_runs'] = run.runs
    res['counters'] = cnt
    res['nontrivial'] = nontrivial and not res['inconclusive']
    res['sample'] = {'profile': profile, 'variants': variants, 'options': vopts, 'hostile': hostile,
                     'statements': [ln for s in case.stmts for ln in s.lines][:14]}
    return res
