"""
Directed witnesses for the known findings of C26 / C27: one small hand-written routine per mechanism key,
executed by the tracing interpreter and replayed through the monitor (no gfortran).  Development aid:

    ./check is not involved; run   PYTHONPATH=/verif:/repo /venv/bin/python -m vlib.dfwitness

prints OK/MISSING per key listed in known_findings/C26.json and C27.json (MISSING = the mechanism no longer fires,
e.g. after a fix).
"""
import json
from pathlib import Path
from loki import Sourcefile, FindNodes, ir
from vlib.irinterp import Interp
from vlib import dfcheck

def run(src, args, checks=('defines', 'uses', 'live', 'lcd'), raw=False, irloop=False):
    sf = Sourcefile.from_source('module m\ncontains\n' + src + '\nend module\n')
    routines = {r.name.lower(): r for r in sf.all_subroutines}
    kern = routines['kern']
    callees = [r for n, r in routines.items() if n != 'kern']
    it = Interp(routines)
    it.run('kern', args)
    with dfcheck.attach_all(kern, callees):
        tasks = []
        if raw:
            prs = FindNodes(ir.Pragma).visit(kern.body)
            root = kern.body
            tasks = [{'ir': root, 'node': prs[0], 'label': 'body'}]
        mon = dfcheck.Monitor(kern, callees, checks, raw_tasks=tasks)
        mon.replay(it.log, 'w')
    return sorted(mon.viol)

HN = '''subroutine h(x)
  real :: x
  x = x + 1.
end subroutine
subroutine hw(x)
  real :: x
  x = 1.
end subroutine
subroutine ho(x)
  real, intent(out) :: x
  x = 1.
end subroutine
subroutine hk(k, x)
  integer, intent(out) :: k
  real, intent(inout) :: x
  k = 1
  x = x + 1.
end subroutine
subroutine hki(k)
  integer :: k
  k = 2
end subroutine
subroutine hxy(x, y)
  real :: x, y
  y = x
end subroutine
'''
W = {}
def w(key, args_decl, decls, body, args, **kw):
    src = HN + f'subroutine kern({args_decl})\n{decls}\n{body}\nend subroutine'
    W[key] = (src, args, kw)

D1 = 'integer, intent(in) :: n\nreal, intent(inout) :: a(3), b(3), c(3), t, x\nlogical, intent(in) :: m(3)\ninteger, intent(inout) :: k\ninteger :: i, j, w'
A1 = {'n': 3, 'a': [1., 2., 3.], 'b': [1.5, 5., 6.], 'c': [1., 1., 1.], 't': 0., 'x': 0.5, 'm': [True, False, True], 'k': 2}
AL = 'n, a, b, c, t, x, m, k'
L = 'lcd:use-missing:use-after-may-definition:'
w(L + 'Assignment-element', AL, D1, 'do i = 2, n\n a(i) = b(i) + 1.\n b(i) = a(i-1)\nend do', A1)
w(L + 'Assignment-section', AL, D1, 'do i = 1, n\n a(1:2) = x\n x = a(3)\n a(3) = real(i)\nend do', A1)
w(L + 'Conditional', AL, D1, 'do i = 1, n\n if (i == 1) t = 7.\n b(i) = t\nend do', A1)
w(L + 'MultiConditional', AL, D1, 'do i = 1, n\n select case (i)\n case (1)\n  t = 7.\n end select\n b(i) = t\nend do', A1)
w(L + 'Loop', AL, D1, 'do i = 1, n\n do j = 1, 2 - i\n  t = 1.\n end do\n b(i) = t\n t = 2.\nend do', A1)
w(L + 'WhileLoop', AL, D1, 'do i = 1, n\n w = 0\n do while (w < 2 - i)\n  t = 1.\n  w = w + 1\n end do\n b(i) = t\n t = 3.\nend do', A1)
w(L + 'MaskedStatement', AL, D1, 'do i = 1, n\n where (m) a = real(i)\n b(i) = a(2)\n a(2) = real(i)\nend do', A1)
w(L + 'CallStatement', AL, D1, 'do i = 1, n\n call ho(a(1))\n b(i) = a(2)\n a(2) = real(i)\nend do', A1)
w(L + 'previous-WHERE-body', AL, D1, 'do i = 1, n\n where (b > real(i))\n  a = real(i)\n elsewhere (c > 0.)\n  c = a\n end where\nend do', A1)
w('lcd:use-missing:CallStatement:enriched:intent-none', AL, D1, 'do i = 1, n\n call h(t)\nend do', A1)
w('lcd:use-missing:CallStatement:enriched:intent-none:subscript-or-operand-of-actual', AL, D1, 'do i = 1, n\n call h(a(k))\n k = 1 + mod(i, n)\nend do', A1)
w('lcd:definition-missing:CallStatement:enriched:intent-none', AL, D1, 'do i = 1, n\n b(i) = t\n call hw(t)\nend do', A1)
w('lcd:definition-missing:CallStatement:argument-is-also-subscript-of-another-actual', AL, D1, 'do i = 1, n\n x = a(k)\n call hk(k, a(k))\nend do', A1)
w('lcd:use-missing:Associate:header-read-not-recorded', AL, D1, 'do i = 1, n\n associate (z => a(k))\n  b(i) = z\n end associate\n k = 1 + mod(i, n)\nend do', A1)
R = dict(raw=True, checks=())
w('raw:candidate-cleared-by-partial-definition:Assignment-element', AL, D1, 'a(1) = 0.\n!$loki x\na(2) = 5.\nx = a(1)', A1, **R)
w('raw:candidate-cleared-by-partial-definition:Assignment-section', AL, D1, 'a = 0.\n!$loki x\na(1:2) = 5.\nx = a(3)', A1, **R)
w('raw:candidate-cleared-by-partial-definition:CallStatement', AL, D1, 'a(1) = 3.\n!$loki x\ncall ho(a(2))\nx = a(1)', A1, **R)
w('raw:candidate-cleared-by-conditional-definition-in:MultiConditional', AL, D1, 'x = 1.\n!$loki x\nselect case (k)\ncase (1)\n x = 2.\nend select\nt = x', A1, **R)
w('raw:candidate-cleared-by-conditional-definition-in:MaskedStatement', AL, D1, 'a = 1.\n!$loki x\nwhere (m) a = 2.\nt = a(2)', A1, **R)
w('raw:candidate-cleared-by-conditional-definition-in:Loop', AL, D1, 'x = 1.\n!$loki x\ndo i = 1, n - 3\n x = 2.\nend do\nt = x', A1, **R)
w('raw:candidate-cleared-by-conditional-definition-in:WhileLoop', AL, D1, 'x = 1.\nw = 0\n!$loki x\ndo while (w < n - 3)\n x = 2.\n w = w + 1\nend do\nt = x', A1, **R)
w('raw:associate-name-differs-between-write-and-read', AL, D1, 'a(1) = 1.\n!$loki x\nassociate (z => a)\n t = z(1)\nend associate', A1, **R)
w('raw:read-not-found:CallStatement:enriched:intent-none', AL, D1, 't = 3.\n!$loki x\ncall hxy(t, x)', A1, **R)
w('raw:read-not-found:CallStatement:enriched:intent-none:subscript-or-operand-of-actual', AL, D1, 'k = 2\n!$loki x\ncall h(a(k))', A1, **R)
w('raw:write-not-found:CallStatement:enriched:intent-none', AL, D1, 'call hxy(x, t)\n!$loki x\nb(1) = t', A1, **R)
w('raw:write-not-found:CallStatement:argument-is-also-subscript-of-another-actual', AL, D1, 'call hk(k, a(k))\n!$loki x\nj = k', A1, **R)
w('lcd:associate-selector-with-subscripts-not-matched', AL, D1, 'do i = 2, n\n associate (z => a(:))\n  z(i) = real(i)\n end associate\n b(i) = a(i-1)\nend do', A1)
w('raw:read-not-found:Associate-header', AL, D1, 'k = 2\n!$loki x\nassociate (z => a(k))\n t = z\nend associate', A1, **R)
w('raw:read-not-found:use-after-may-definition-inside:MultiConditional', AL, D1, 'x = 1.\n!$loki x\nselect case (k)\ncase (2)\n if (n > 5) x = 2.\n t = x\nend select', A1, **R)
w('raw:read-not-found:use-after-may-definition-inside:MaskedStatement', AL, D1, 'a = 0.5\n!$loki x\nwhere (m)\n a = 1.\nelsewhere (c > 0.)\n c = a\nend where', A1, **R)
# C26
U = 'uses:use-after-may-definition:'
w(U + 'Assignment-element', AL, D1, 'a(1) = 0.\nt = a(2)', A1)
w(U + 'Assignment-section', AL, D1, 'a(1:2) = 0.\nt = a(3)', A1)
w(U + 'Conditional', AL, D1, 'if (n > 5) x = 1.\nt = x', A1)
w(U + 'MultiConditional', AL, D1, 'select case (k)\ncase (1)\n x = 1.\nend select\nt = x', A1)
w(U + 'Loop', AL, D1, 'do i = 1, n - 3\n x = 2.\nend do\nt = x', A1)
w(U + 'WhileLoop', AL, D1, 'w = 0\ndo while (w < n - 3)\n x = 2.\n w = w + 1\nend do\nt = x', A1)
w(U + 'MaskedStatement', AL, D1, 'where (m) a = 1.\nt = a(2)', A1)
w(U + 'CallStatement', AL, D1, 'call ho(a(1))\nt = a(2)', A1)
w(U + 'previous-WHERE-body', AL, D1, 'where (m)\n a = 1.\nelsewhere (c > 0.)\n c = a\nend where', A1)
w('defines:CallStatement:enriched:intent-none', AL, D1, 'call hxy(x, t)', A1)
w('uses:CallStatement:enriched:intent-none', AL, D1, 'call hxy(x, t)', A1)
w('uses:CallStatement:enriched:intent-none:subscript-or-operand-of-actual', AL, D1, 'call h(a(k))', A1)
w('live:after-call:enriched:intent-none', 'n, b', 'integer, intent(in) :: n\nreal, intent(out) :: b\nreal :: t', 'call hw(t)\nb = t', {'n': 3, 'b': None})
w('live:entry:dummy-intent-none', 'a, b', 'real :: a\nreal, intent(out) :: b', 'b = a', {'a': 5., 'b': None})
w('live:loop-back-edge', 'n, b', 'integer, intent(in) :: n\nreal, intent(out) :: b\nreal :: t\ninteger :: i', 'b = 0.\ndo i = 1, n\n if (i > 1) b = b + t\n t = real(i)\nend do', {'n': 3, 'b': None})
w('live:lost-definition:MaskedStatement:Assignment-array', 'm, a, c', 'logical, intent(in) :: m(2)\nreal, intent(in) :: a(2)\nreal, intent(out) :: c(2)\nreal :: t(2)', 'where (m)\n t = a\nelsewhere\n t = -a\nend where\nc = t', {'m': [True, False], 'a': [5., 6.], 'c': None})
w('uses:Assignment:rhs-operand-is-also-memory-query-argument', AL, D1, 'b = a + real(size(a))', A1)
w('uses:Associate:header-read-not-recorded', AL, D1, 'associate (z => a(k))\n t = z\nend associate', A1)
w('defines:CallStatement:argument-is-also-subscript-of-another-actual', AL, D1, 'call hk(k, a(k))', A1)
w('live:after-call:argument-is-also-subscript-of-another-actual', 'a, j', 'real, intent(inout) :: a(3)\ninteger, intent(out) :: j\ninteger :: kk', 'call hki(kk)\ncall hk(kk, a(kk))\nj = kk', {'a': [1., 2., 3.], 'j': None})
w('dfa:attach-exception:AttributeError:visit_Associate', AL, D1, 'associate (z3 => x - t)\n associate (z6 => z3 - x)\n  b(1) = z6\n end associate\nend associate', A1)
ok = True
listed = set()
for pid in ('C26', 'C27'):
    for e in json.load(open(Path(__file__).resolve().parent.parent / 'known_findings' / f'{pid}.json'))['findings']:
        listed.add(e['key'])
for key, (src, args, kw) in W.items():
    try:
        got = run(src, dict(args), **kw)
    except Exception as e:
        got = [f'EXC {type(e).__name__}: {e}']
        if key.startswith('dfa:attach-exception:AttributeError') and "'Sum' object has no attribute 'name'" in got[0]:
            got = [key]
    flag = 'OK ' if key in got else 'MISSING'
    if key not in got: ok = False
    print(flag, key, '' if key in got else got)
print('listed without witness:', sorted(listed - set(W)))
print('witness not listed:', sorted(set(W) - listed))
