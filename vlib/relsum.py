"""
Relational summary of a parsed source file (used by C19): program-unit tree, imports, derived types with
procedure bindings / generics / finals, interfaces and call targets -- extracted the same way from FP-parsed and
REGEX-parsed ``Sourcefile`` objects and from the ground-truth model of ``vlib.hostilegen``; everything case-folded.

    summary = {unit path 'a/b': {'kind': 'module'|'subroutine'|'function',
                                 'imports':    Counter{(module, ((name, use_name), ...), ((local, use_name), ...))},
                                 'typedefs':   {name: {'bindings': Counter{(name, target)}, 'generics': Counter{(name, targets)},
                                                       'finals': Counter{name}}},
                                 'interfaces': Counter{(spec, abstract, procedures, bodies)},
                                 'calls':      Counter{name}}}
"""
from collections import Counter
import re

# pylint: disable=import-outside-toplevel


def _strip_parens(s):
    """Remove balanced parenthesised groups (argument lists, subscripts) and white space."""
    out = []
    depth = 0
    for ch in s:
        if ch == '(':
            depth += 1
        elif ch == ')':
            depth = max(0, depth - 1)
        elif depth == 0:
            out.append(ch)
    return ''.join(out).replace(' ', '').replace('\t', '').lower()


def norm_name(x):
    return re.sub(r'\s+', '', str(x)).lower()


def iter_nodes(unit):
    """IR nodes of a program unit, not descending into contained program units or interface bodies."""
    from loki.program_unit import ProgramUnit
    from loki.ir import nodes as ir

    def walk(node):
        if isinstance(node, (tuple, list)):
            for c in node:
                yield from walk(c)
            return
        if isinstance(node, ProgramUnit):
            return
        if isinstance(node, ir.Node):
            yield node
            if isinstance(node, ir.Interface):
                return
            yield from walk(node.children)

    for part in ('docstring', 'spec', 'body'):
        sec = getattr(unit, part, None)
        if sec is not None:
            yield from walk(sec)


def child_units(unit):
    from loki.program_unit import ProgramUnit
    c = getattr(unit, 'contains', None)
    if c is None:
        return []
    return [n for n in c.body if isinstance(n, ProgramUnit)]


def unit_kind(unit):
    from loki import Module
    if isinstance(unit, Module):
        return 'module'
    return 'function' if getattr(unit, 'is_function', False) else 'subroutine'


def empty_entry(kind):
    return {'kind': kind, 'imports': Counter(), 'typedefs': {}, 'interfaces': Counter(), 'calls': Counter()}


def typedef_entry():
    return {'bindings': Counter(), 'generics': Counter(), 'finals': Counter()}


def summarize_unit(unit):
    from loki.ir import nodes as ir
    from loki.program_unit import ProgramUnit
    e = empty_entry(unit_kind(unit))
    for node in iter_nodes(unit):
        if isinstance(node, ir.Import):
            if node.f_import or node.c_import or node.f_include:
                continue
            syms = tuple(sorted((norm_name(s), norm_name(s.type.use_name) if s.type and s.type.use_name else '')
                                for s in (node.symbols or ())))
            rens = tuple(sorted((norm_name(loc), norm_name(use)) for use, loc in (node.rename_list or ())))
            e['imports'][(norm_name(node.module), syms, rens)] += 1
        elif isinstance(node, ir.TypeDef):
            td = typedef_entry()
            for d in node.body:
                if not isinstance(d, ir.ProcedureDeclaration):
                    continue
                for s in d.symbols:
                    bn = s.type.bind_names if s.type is not None else None
                    if d.generic:
                        td['generics'][(norm_name(s), tuple(sorted(norm_name(b) for b in (bn or ()))))] += 1
                    elif d.final:
                        td['finals'][norm_name(s)] += 1
                    elif d.interface is not None:
                        td['bindings'][(norm_name(s), '*')] += 1
                    else:
                        td['bindings'][(norm_name(s), norm_name(bn[0]) if bn else '')] += 1
            name = norm_name(node.name)
            key = name
            n = 1
            while key in e['typedefs']:
                n += 1
                key = f'{name}~{n}'
            e['typedefs'][key] = td
        elif isinstance(node, ir.Interface):
            procs, bodies = [], []
            for b in node.body:
                if isinstance(b, ir.ProcedureDeclaration):
                    procs += [norm_name(s) for s in b.symbols]
                elif isinstance(b, ProgramUnit):
                    bodies.append(norm_name(b.name))
            spec = norm_name(node.spec) if node.spec is not None else ''
            e['interfaces'][(spec, bool(node.abstract), tuple(sorted(procs)), tuple(sorted(bodies)))] += 1
        elif isinstance(node, ir.CallStatement):
            e['calls'][_strip_parens(str(node.name))] += 1
    return e


def summarize_sourcefile(sf):
    from loki.program_unit import ProgramUnit
    out = {}

    def rec(unit, prefix):
        path = prefix + norm_name(unit.name)
        key = path
        n = 1
        while key in out:
            n += 1
            key = f'{path}~{n}'
        out[key] = summarize_unit(unit)
        for c in child_units(unit):
            rec(c, key + '/')

    for node in (sf.ir.body if sf.ir is not None else ()):
        if isinstance(node, ProgramUnit):
            rec(node, '')
    return out


def summarize_model(model):
    """Summary + tag index {(path, category, item key): tags} from a hostilegen model."""
    out = {}
    tags = {}

    def rec(u, prefix):
        path = prefix + u['name']
        e = empty_entry(u['kind'])
        tags[(path, 'unit')] = set(u['tags'])
        for imp in u['imports']:
            k = (imp['module'], tuple(sorted(imp['symbols'])), tuple(sorted(imp['renames'])))
            e['imports'][k] += 1
            tags[(path, 'import', k)] = set(imp['tags'])
        for td in u['typedefs']:
            t = typedef_entry()
            for b in td['bindings']:
                k = (b['name'], b['target'])
                t['bindings'][k] += 1
                tags[(path, 'binding', td['name'], k)] = set(b['tags'])
            for g in td['generics']:
                k = (g['name'], tuple(sorted(g['targets'])))
                t['generics'][k] += 1
                tags[(path, 'generic', td['name'], k)] = set(g['tags'])
            for f in td['finals']:
                t['finals'][f['name']] += 1
                tags[(path, 'final', td['name'], f['name'])] = set(f['tags'])
            e['typedefs'][td['name']] = t
            tags[(path, 'typedef', td['name'])] = set(td['tags'])
        for i in u['interfaces']:
            k = (i['spec'], bool(i['abstract']), tuple(sorted(i['procedures'])), tuple(sorted(i['bodies'])))
            e['interfaces'][k] += 1
            tags[(path, 'interface', k)] = set(i['tags'])
        for c in u['calls']:
            e['calls'][c] += 1
        out[path] = e
        for c in u['children']:
            rec(c, path + '/')

    for u in model:
        rec(u, '')
    return out, tags


def compare(ref, got, parts=('units', 'imports', 'typedefs', 'interfaces', 'calls')):
    """
    Differences of summary ``got`` against reference ``ref``:
    list of (category, path, item) with category '<thing>-missing' (in ref only) / '<thing>-spurious' (in got only).
    """
    diffs = []
    if 'units' in parts:
        for p in sorted(set(ref) - set(got)):
            diffs.append(('unit-missing', p, ref[p]['kind']))
        for p in sorted(set(got) - set(ref)):
            diffs.append(('unit-spurious', p, got[p]['kind']))
    for p in sorted(set(ref) & set(got)):
        a, b = ref[p], got[p]
        if 'units' in parts and a['kind'] != b['kind']:
            diffs.append(('unit-kind', p, (a['kind'], b['kind'])))
        for part, cat in (('imports', 'import'), ('interfaces', 'interface'), ('calls', 'call')):
            if part not in parts:
                continue
            for k in sorted((a[part] - b[part]).elements(), key=str):
                diffs.append((cat + '-missing', p, k))
            for k in sorted((b[part] - a[part]).elements(), key=str):
                diffs.append((cat + '-spurious', p, k))
        if 'typedefs' in parts:
            for t in sorted(set(a['typedefs']) - set(b['typedefs'])):
                diffs.append(('typedef-missing', p, t))
            for t in sorted(set(b['typedefs']) - set(a['typedefs'])):
                diffs.append(('typedef-spurious', p, t))
            for t in sorted(set(a['typedefs']) & set(b['typedefs'])):
                for part, cat in (('bindings', 'binding'), ('generics', 'generic'), ('finals', 'final')):
                    x, y = a['typedefs'][t][part], b['typedefs'][t][part]
                    for k in sorted((x - y).elements(), key=str):
                        diffs.append((cat + '-missing', p, (t, k)))
                    for k in sorted((y - x).elements(), key=str):
                        diffs.append((cat + '-spurious', p, (t, k)))
    return diffs


def jsonable(summary):
    out = {}
    for p, e in summary.items():
        out[p] = {'kind': e['kind'],
                  'imports': sorted(map(str, e['imports'].elements())),
                  'typedefs': {t: {k: sorted(map(str, v.elements())) for k, v in td.items()}
                               for t, td in e['typedefs'].items()},
                  'interfaces': sorted(map(str, e['interfaces'].elements())),
                  'calls': sorted(e['calls'].elements())}
    return out
