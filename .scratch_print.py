from loki import Subroutine, Sourcefile
from loki.frontend import FP
from vlib import wellformed as wf
src = """
module kmod
  implicit none
contains
  subroutine kern(n, s2, a1)
    integer, intent(in) :: n
    real(kind=8), intent(in) :: s2, a1(n)
    print *, 'x', s2, a1(n)
  contains
    subroutine isub(k)
      integer, intent(in) :: k
      print *, k, n
    end subroutine isub
  end subroutine kern
end module kmod
"""
sf = Sourcefile.from_source(src, frontend=FP)
print('fresh', wf.check_ir(sf)[0])
mod = sf['kmod']
kern = mod['kern']
new = kern.clone(name='kerndupl')
mod.contains.append(new)
new.parent = mod  # not necessarily
print('own', [i['msg'] for i in wf.check_ir(sf)[0]])
from loki.ir import FindNodes, PrintStmt
p = FindNodes(PrintStmt).visit(new.body)[0]
print([ (str(v), getattr(getattr(v,'scope',None),'name',None)) for v in p.values])
new.rescope_symbols()
print([ (str(v), getattr(getattr(v,'scope',None),'name',None)) for v in p.values])
# module clone
sf2 = Sourcefile.from_source(src, frontend=FP)
m2 = sf2['kmod'].clone(name='kmod2')
print('modclone', [i['msg'] for i in wf.check_ir(m2)[0]])
from loki.expression import FindVariables
print(FindVariables().visit(new.body))
