"""usage: .scratch_one.py PID seed idx[,idx...]  -- runs single cases through the real worker, prints results"""
import sys, json, subprocess, os, tempfile
sys.path.insert(0, '/verif')
from vlib import core
pid, seed, idxs = sys.argv[1], sys.argv[2], sys.argv[3]
out = tempfile.mktemp(dir=str(core.scratch_dir('one_')), suffix='.jsonl')
env = core.child_env()
p = subprocess.run([core.PYTHON, '-m', 'vlib.worker', pid, 'quick', seed, '0', '1', out, idxs], env=env, cwd='/verif',
                   capture_output=True, text=True)
print(p.stdout[-2000:], p.stderr[-2000:])
for ln in open(out):
    r = json.loads(ln)
    if 'idx' not in r: print(str(r)[:300]); continue
    print(r.get('idx'), 'nontrivial', r.get('nontrivial'), 'inc', r.get('inconclusive'),
          [(v['key'], v['msg'][:150]) for v in r.get('violations', [])], r.get('features'))
