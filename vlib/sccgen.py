"""
sccgen -- generator of IFS-style single-column driver/kernel call trees (C37/C38).

A generated *project* consists of
  parkind1.F90    kind parameters (IFS style; part of the input project, disabled in the scheduler config)
  kern_mod.F90    module(s) with the kernels (kernel calling kernel, depth <= 3)
  driver_mod.F90  module with the driver (block loop calling the top kernel(s))
and an untouched main program (never shown to Loki) that reads the sizes from stdin, fills all
arrays with non-linear data, calls the driver and prints every array in full.

Well-definedness by construction
  * every temporary (and every value read) is written over its complete non-horizontal extent and
    over start:end horizontally before it is read ("init" loop nests placed in the phase where the
    temporary becomes live);
  * columns are independent: the horizontal index appears only as ``jl``; no horizontal reductions,
    no scalars carried across ``jl``; statements without horizontal index are single-assignment and
    depend only on intent(in) data (they may legally be re-executed per column);
  * vertical subscripts jk-1/jk+1 are only generated in loops whose bounds keep them in range;
  * reals stay small (linear recurrences with |coefficient| <= 1, products only with bounded factors),
    integers are bounded by construction, no division.
Only input shapes the SCC pipelines document as supported are generated (explicit horizontal loops or
horizontal range notation start:end / ':' on local temporaries, Dimension-named sizes and bounds,
array arguments with the horizontal dimension first, block loop in the driver).
"""
# pylint: disable=too-many-instance-attributes,too-many-branches,too-many-statements,too-many-locals

DEFAULT_FLAGS = {
    'names': 'A',               # 'A' nlon/start/end/nz/nb, 'B' klon/kidia/kfdia/klev/ngpblks
    'depth': 2,                 # depth of the kernel call tree (1..3)
    'branch_calls': True,       # calls to different kernels on the two branches of a uniform IF
    'n_phases': 3,              # phases (separated by calls) in kernels that call other kernels
    'n_temps': 5,               # temporaries per kernel
    'shapes': ['H', 'HV', 'HV1', 'H0V', 'HC', 'HVC', 'HCV', 'V', 'F', 'HM', 'C'],
    'bases': ['r8', 'r4', 'i', 'l'],
    'vector_notation': False,   # horizontal range notation (start:end, ':') in some statements
    'horizontal_outer': True,   # some loop nests with the horizontal loop outside the vertical loop
    'driver_sections': True,    # horizontal loops in the driver's block loop
    'ifs_block_loop': False,    # DO jkglo=1,ngptot,nlon; ibl=...; iend=min(..) block loop
    'module_level_imports': False,   # kinds imported in the module spec instead of in each routine
    'literal_kinds': False,     # REAL(KIND=8) temporaries
    'two_modules': False,       # callee kernels in a second module / file
    'keyword_calls': False,     # some kernel-to-kernel calls with keyword arguments
    'max_stmts': 4,
    'fuse_pragmas': False,      # !$loki loop-fusion pragmas on fusable vertical loops
    'driver_all_kinds': False,  # driver imports every kind parameter, not only those of its own declarations
    'alias_names': False,       # nested kernels name the horizontal / vertical size dummies differently
}

ALIASES = {'A': {'hsize': 'nproma', 'vsize': 'klev'}, 'B': {'hsize': 'nproma', 'vsize': 'nlev'}}

NAMES = {
    'A': {'hsize': 'nlon', 'hlo': 'start', 'hup': 'end', 'hidx': 'jl', 'vsize': 'nz', 'vidx': 'jk',
          'bsize': 'nb', 'bidx': 'ibl'},
    'B': {'hsize': 'klon', 'hlo': 'kidia', 'hup': 'kfdia', 'hidx': 'jl', 'vsize': 'klev', 'vidx': 'jk',
          'bsize': 'ngpblks', 'bidx': 'ibl'},
}

PARKIND = """module parkind1
  implicit none
  integer, parameter :: jpim = selected_int_kind(9)
  integer, parameter :: jpib = selected_int_kind(12)
  integer, parameter :: jprb = selected_real_kind(13,300)
  integer, parameter :: jprm = selected_real_kind(6,37)
  integer, parameter :: jprd = selected_real_kind(13,300)
  integer, parameter :: jwim = jpim
  integer, parameter :: jwrb = jprb
  integer, parameter :: jplm = jpim
end module parkind1
"""


class Var:
    def __init__(self, name, base, shape, role, kind=None):
        self.name, self.base, self.shape, self.role = name, base, shape, role
        self.kind = kind if kind is not None else {'r8': 'jprb', 'r4': 'jprm', 'i': 'jpim', 'l': None}[base]
        self.live_from = 0      # phase in which a temporary is initialised
        self.live_to = 99

    @property
    def sig(self):
        return (self.base, self.shape, self.kind)


class Kernel:
    def __init__(self, name):
        self.name = name
        self.args = []          # array dummies (Var)
        self.temps = []
        self.calls = []         # callee Kernel objects
        self.lines = []
        self.uses_flag = True
        self.module = 'kern_mod'


class Case:
    def __init__(self):
        self.files = {}         # project files, dependency order
        self.main = ''
        self.stdins = []
        self.features = set()
        self.names = {}
        self.kernels = []
        self.driver_name = 'driver'
        self.literal_kind_temps = 0
        self.n_temps = 0


class SccGen:
    def __init__(self, rng, flags=None):
        self.rng = rng
        self.f = dict(DEFAULT_FLAGS)
        self.f.update(flags or {})
        self.n = dict(NAMES[self.f['names']])
        self.base_n = dict(self.n)
        self.case = Case()
        self.case.names = dict(self.n)
        self.case.aliases = dict(ALIASES[self.f['names']]) if self.f['alias_names'] else {}
        self.feat = self.case.features
        self.cnt = 0

    # ------------------------------------------------------------------ declarations
    def tdecl(self, v):
        t = {'r8': 'real', 'r4': 'real', 'i': 'integer', 'l': 'logical'}[v.base]
        if v.kind:
            return f'{t}(kind={v.kind})'
        return t

    def dims(self, shape):
        n = self.n
        H, V = n['hsize'], n['vsize']
        return {'H': f'({H})', 'HV': f'({H}, {V})', 'HV1': f'({H}, {V}+1)', 'H0V': f'({H}, 0:{V})',
                'HC': f'({H}, 3)', 'HVC': f'({H}, {V}, 2)', 'HCV': f'({H}, 2, {V})', 'V': f'({V})',
                'F': f'({H}*{V})', 'HM': f'({H}, max({V}, 3))', 'C': '(4)'}[shape]

    def fresh(self, prefix):
        self.cnt += 1
        return f'{prefix}{self.cnt}'

    # ------------------------------------------------------------------ subscripts
    def kchoices(self, shape, ctx):
        """admissible vertical subscripts of an array of ``shape`` in loop context ``ctx``"""
        V, jk = self.n['vsize'], self.n['vidx']
        lo, hi = ctx.get('klo'), ctx.get('khi')     # symbolic: lo in {1,2}, hi in {'n','n-1'}
        if shape in ('HV', 'HVC', 'HCV', 'V', 'F', 'HM'):
            if lo is None:
                return ['1', V]
            c = [jk, jk]
            if lo == 2:
                c.append(f'{jk}-1')
            if hi == 'n-1':
                c.append(f'{jk}+1')
            return c
        if shape == 'HV1':
            if lo is None:
                return ['1', f'{V}+1', V]
            c = [jk, f'{jk}+1']
            if lo == 2:
                c.append(f'{jk}-1')
            return c
        if shape == 'H0V':
            if lo is None:
                return ['0', V]
            c = [jk, f'{jk}-1']
            if hi == 'n-1':
                c.append(f'{jk}+1')
            return c
        return [None]

    def ref(self, v, ctx, k=None, write=False):
        """element reference of v in ctx (ctx has 'jl' True when inside a horizontal loop)"""
        rng, n = self.rng, self.n
        jl = n['hidx']
        sh = v.shape
        if k is None:
            ch = self.kchoices(sh, ctx)
            k = ch[0] if write else rng.choice(ch)
        if sh == 'H':
            return f'{v.name}({jl})'
        if sh in ('HV', 'HV1', 'H0V', 'HM'):
            return f'{v.name}({jl}, {k})'
        if sh == 'HC':
            return f'{v.name}({jl}, {rng.randint(1, 3)})'
        if sh == 'HVC':
            return f'{v.name}({jl}, {k}, {rng.randint(1, 2)})'
        if sh == 'HCV':
            return f'{v.name}({jl}, {rng.randint(1, 2)}, {k})'
        if sh == 'V':
            return f'{v.name}({k})'
        if sh == 'F':
            return f'{v.name}(({k}-1)*{n["hsize"]} + {jl})'
        if sh == 'C':
            return f'{v.name}({rng.randint(1, 4)})'
        raise ValueError(sh)

    # ------------------------------------------------------------------ expressions
    def lit(self):
        return self.rng.choice(['0.5', '0.25', '0.125', '1.5', '0.75', '0.1', '2.0', '0.3'])

    def readable(self, ker, ctx, base=None, horizontal_only=False):
        """variables that may be read in ctx: defined and (if not in a horizontal loop) without H dimension"""
        out = []
        for v in ctx['defined']:
            if base and v.base != base:
                continue
            has_h = v.shape not in ('V', 'C')
            if has_h and not ctx.get('jl'):
                continue
            if v.shape == 'C':
                continue
            if ctx.get('pure') and (v.role not in ('in', 'vtmp')):
                continue
            if horizontal_only and v.shape not in ('H', 'HC'):
                continue
            if v.shape not in ('H', 'HC', 'C') and ctx.get('no_vertical'):
                continue
            out.append(v)
        return out

    def real_atom(self, ker, ctx):
        rng = self.rng
        r = rng.random()
        cands = self.readable(ker, ctx, 'r8') + self.readable(ker, ctx, 'r4')
        if cands and r < 0.7:
            v = rng.choice(cands)
            e = self.ref(v, ctx)
            return e if v.base == 'r8' else f'real({e}, jprb)'
        ic = self.readable(ker, ctx, 'i')
        if ic and r < 0.8:
            return f'real({self.ref(rng.choice(ic), ctx)}, jprb)*0.125_jprb'
        if r < 0.88 and ctx.get('scalars'):
            return rng.choice(ctx['scalars'])
        if r < 0.94 and ctx.get('klo') is not None:
            return f'real({self.n["vidx"]}, jprb)*0.1_jprb'
        if ctx.get('jl') and r < 0.97 and not ctx.get('pure'):
            return f'real(mod({self.n["hidx"]}, 3), jprb)*0.2_jprb'
        return f'{self.lit()}_jprb'

    def real_expr(self, ker, ctx, depth=2):
        rng = self.rng
        if depth <= 0 or rng.random() < 0.25:
            return self.real_atom(ker, ctx)
        r = rng.random()
        a = self.real_expr(ker, ctx, depth - 1)
        if r < 0.3:
            b = self.real_expr(ker, ctx, depth - 1)
            return f'({self.lit()}_jprb*{a} {rng.choice("+-")} {self.lit()}_jprb*{b})'
        if r < 0.45:
            b = self.real_atom(ker, ctx)
            return f'{a}*{rng.choice(["sin", "cos", "tanh"])}({b})'
        if r < 0.6:
            b = self.real_expr(ker, ctx, depth - 1)
            return f'{rng.choice(["max", "min"])}({a}, {b})'
        if r < 0.7:
            return f'abs({a})'
        if r < 0.8:
            lc = self.logical_expr(ker, ctx, 0)
            b = self.real_atom(ker, ctx)
            return f'merge({a}, {b}, {lc})'
        if r < 0.9:
            return f'sqrt(abs({a}) + 1.0_jprb)'
        return f'({a} - {self.lit()}_jprb)'

    def int_expr(self, ker, ctx):
        rng, n = self.rng, self.n
        r = rng.random()
        terms = []
        if ctx.get('jl') and not ctx.get('pure'):
            terms.append(n['hidx'])
        if ctx.get('klo') is not None:
            terms.append(f'2*{n["vidx"]}')
        ic = self.readable(ker, ctx, 'i')
        if ic and r < 0.5:
            terms.append(self.ref(rng.choice(ic), ctx))
        rc = self.readable(ker, ctx, 'r8')
        if rc and r > 0.6:
            return f'int(4.0_jprb*sin({self.ref(rng.choice(rc), ctx)}))'
        terms.append(str(rng.randint(1, 9)))
        return f'mod({" + ".join(terms)}, {rng.choice([3, 5, 7])})'

    def logical_expr(self, ker, ctx, depth=1):
        rng = self.rng
        r = rng.random()
        lc = self.readable(ker, ctx, 'l')
        if lc and r < 0.4:
            e = self.ref(rng.choice(lc), ctx)
            return e if rng.random() < 0.7 else f'.not. {e}'
        ic = self.readable(ker, ctx, 'i')
        if ic and r < 0.55:
            return f'{self.ref(rng.choice(ic), ctx)} {rng.choice([">", "<=", "=="])} {rng.randint(0, 3)}'
        if depth > 0 and r < 0.7:
            return (f'({self.logical_expr(ker, ctx, 0)} {rng.choice([".and.", ".or."])} '
                    f'{self.logical_expr(ker, ctx, 0)})')
        return f'{self.real_atom(ker, ctx)} {rng.choice([">", "<"])} {self.lit()}_jprb'

    def expr_for(self, v, ker, ctx):
        if v.base == 'r8':
            e = self.real_expr(ker, ctx)
            return e
        if v.base == 'r4':
            return f'real({self.real_expr(ker, ctx, 1)}, jprm)' if v.kind == 'jprm' else \
                f'real({self.real_expr(ker, ctx, 1)}, {v.kind})'
        if v.base == 'i':
            return self.int_expr(ker, ctx)
        return self.logical_expr(ker, ctx)

    # ------------------------------------------------------------------ loop nests
    def hloop(self, body, ind):
        n = self.n
        return [f'{ind}do {n["hidx"]} = {n["hlo"]}, {n["hup"]}'] + body + [f'{ind}end do']

    def kbounds(self, klo, khi, down=False):
        V = self.n['vsize']
        lo = str(klo)
        hi = V if khi == 'n' else f'{V}-1'
        return f'{hi}, {lo}, -1' if down else f'{lo}, {hi}'

    def init_nest(self, v, ker, defined, ind='    '):
        """loop nest(s) that define every element of v (start:end horizontally)"""
        rng, n = self.rng, self.n
        jl, jk, V, H = n['hidx'], n['vidx'], n['vsize'], n['hsize']
        sh = v.shape
        base = {'defined': [d for d in defined if d is not v], 'scalars': ker.scalars}
        out = []
        i2, i3 = ind + '  ', ind + '    '
        use_vec = self.f['vector_notation'] and v.role == 'tmp' and rng.random() < 0.5
        zero = {'r8': '0.0_jprb', 'r4': f'0.5_{v.kind}' if v.kind in ('jprm',) else '0.5', 'i': '1',
                'l': '.false.'}[v.base]
        if sh == 'H':
            if use_vec:
                self.feat.add('vecnot:init-range')
                rngs = rng.choice([f'{n["hlo"]}:{n["hup"]}', ':'])
                out += [f'{ind}{v.name}({rngs}) = {zero}']
                return out
            ctx = dict(base, jl=True)
            return self.hloop([f'{i2}{v.name}({jl}) = {self.expr_for(v, ker, ctx)}'], ind)
        if sh in ('HV', 'HVC', 'HCV', 'F'):
            if use_vec and sh == 'HV':
                self.feat.add('vecnot:init-2d')
                r = rng.choice([f'{n["hlo"]}:{n["hup"]}, :', ':, :', f'{n["hlo"]}:{n["hup"]}, 1:{V}'])
                return [f'{ind}{v.name}({r}) = {zero}']
            ctx = dict(base, jl=True, klo=1, khi='n')
            if sh in ('HV', 'F'):
                stm = [f'{i3}{self.ref(v, ctx, jk, True)} = {self.expr_for(v, ker, ctx)}']
            elif sh == 'HVC':
                stm = [f'{i3}{v.name}({jl}, {jk}, {c}) = {self.expr_for(v, ker, ctx)}' for c in (1, 2)]
            else:
                stm = [f'{i3}{v.name}({jl}, {c}, {jk}) = {self.expr_for(v, ker, ctx)}' for c in (1, 2)]
            if use_vec and sh in ('HVC', 'HCV'):
                self.feat.add('vecnot:init-3d')
                r = f'{n["hlo"]}:{n["hup"]}, :, :'
                return [f'{ind}{v.name}({r}) = {zero}']
            if self.f['horizontal_outer'] and rng.random() < 0.3:
                self.feat.add('nest:h-outer')
                return ([f'{ind}do {jl} = {n["hlo"]}, {n["hup"]}', f'{i2}do {jk} = 1, {V}'] + stm +
                        [f'{i2}end do', f'{ind}end do'])
            return [f'{ind}do {jk} = 1, {V}'] + self.hloop(stm, i2) + [f'{ind}end do']
        if sh in ('HV1', 'H0V'):
            first = '1' if sh == 'HV1' else '0'
            nxt = f'{jk}+1' if sh == 'HV1' else jk
            ctx0 = dict(base, jl=True)
            out += self.hloop([f'{i2}{v.name}({jl}, {first}) = {self.expr_for(v, ker, ctx0)}'], ind)
            ctx = dict(base, jl=True, klo=1, khi='n')
            ctx['defined'] = [d for d in ctx['defined']]
            stm = [f'{i3}{v.name}({jl}, {nxt}) = {self.expr_for(v, ker, ctx)}']
            out += [f'{ind}do {jk} = 1, {V}'] + self.hloop(stm, i2) + [f'{ind}end do']
            self.feat.add('shape:half-level-init')
            return out
        if sh == 'HC':
            ctx = dict(base, jl=True)
            return self.hloop([f'{i2}{v.name}({jl}, {c}) = {self.expr_for(v, ker, ctx)}' for c in (1, 2, 3)], ind)
        if sh == 'HM':
            ctx = dict(base, jl=True, no_vertical=True)
            stm = [f'{i3}{v.name}({jl}, jm) = {self.expr_for(v, ker, ctx)}']
            ker.need_jm = True
            return [f'{ind}do jm = 1, max({V}, 3)'] + self.hloop(stm, i2) + [f'{ind}end do']
        if sh == 'V':
            ctx = dict(base, klo=1, khi='n', pure=True)
            return [f'{ind}do {jk} = 1, {V}', f'{i2}{v.name}({jk}) = {self.expr_for(v, ker, ctx)}', f'{ind}end do']
        raise ValueError(sh)

    def assign_stmt(self, ker, ctx, ind, targets):
        """one assignment (or small group) in a loop body where ctx['jl'] is set"""
        rng = self.rng
        tcands = [t for t in targets if t.shape not in ('V', 'C')]
        if ctx.get('no_vertical'):
            tcands = [t for t in tcands if t.shape in ('H', 'HC')]
        if not tcands:
            return []
        t = rng.choice(tcands)
        lhs = self.ref(t, ctx, write=True)
        rhs = self.expr_for(t, ker, ctx)
        # recurrences: reference the same array one level up/down where the loop bounds allow it
        if t.base == 'r8' and t.shape in ('HV', 'HV1', 'H0V') and ctx.get('klo') is not None and rng.random() < 0.6:
            ks = [k for k in self.kchoices(t.shape, ctx) if k != self.kchoices(t.shape, ctx)[0]]
            if ks:
                k = rng.choice(ks)
                rhs = f'0.5_jprb*{t.name}({self.n["hidx"]}, {k}) + 0.25_jprb*{rhs}'
                self.feat.add('recurrence:' + ('up' if '-1' in k else 'down'))
        return [f'{ind}{lhs} = {rhs}']

    def body_stmts(self, ker, ctx, ind, targets, nmax):
        rng = self.rng
        out = []
        for _ in range(rng.randint(1, nmax)):
            r = rng.random()
            if r < 0.2 and ker.cscratch:
                # fixed-size scratch array written and read in the same iteration
                c = ker.cscratch
                for i in (1, 2, 3, 4):
                    out.append(f'{ind}{c.name}({i}) = {self.real_expr(ker, ctx, 1)}')
                cc = dict(ctx, scalars=ctx.get('scalars', []) + [f'{c.name}({i})' for i in (1, 2, 3, 4)])
                out += self.assign_stmt(ker, cc, ind, targets)
                self.feat.add('temp:const-scratch-in-loop')
            elif r < 0.4:
                cond = self.logical_expr(ker, ctx)
                a = self.assign_stmt(ker, ctx, ind + '  ', targets)
                b = self.assign_stmt(ker, ctx, ind + '  ', targets) if rng.random() < 0.6 else []
                if a:
                    out += [f'{ind}if ({cond}) then'] + a + ([f'{ind}else'] + b if b else []) + [f'{ind}end if']
                    self.feat.add('stmt:elementwise-if')
            elif r < 0.5:
                # scalar temporary private to the iteration
                out.append(f'{ind}zs = {self.real_expr(ker, ctx, 1)}')
                cc = dict(ctx, scalars=ctx.get('scalars', []) + ['zs'])
                out += self.assign_stmt(ker, cc, ind, targets)
                ker.need_zs = True
                self.feat.add('stmt:iteration-scalar')
            else:
                out += self.assign_stmt(ker, ctx, ind, targets)
        return out

    def compute_nest(self, ker, defined, targets, ind='    '):
        rng, n = self.rng, self.n
        jl, jk, V = n['hidx'], n['vidx'], n['vsize']
        i2, i3 = ind + '  ', ind + '    '
        base = {'defined': list(defined), 'scalars': list(ker.scalars)}
        r = rng.random()
        nmax = self.f['max_stmts']
        htargets = [t for t in targets if t.shape in ('H', 'HC')]
        if r < 0.25 and htargets:
            ctx = dict(base, jl=True)
            if self.f['vector_notation'] and rng.random() < 0.4:
                # range-notation statement over start:end with conforming operands
                t = rng.choice([t for t in htargets if t.shape == 'H'] or htargets)
                if t.shape == 'H' and t.base in ('r8',):
                    ops = [v for v in defined if v.shape == 'H' and v.base == 'r8']
                    if ops:
                        r_ = f'{n["hlo"]}:{n["hup"]}'
                        o1, o2 = rng.choice(ops), rng.choice(ops)
                        self.feat.add('vecnot:compute-range')
                        return [f'{ind}{t.name}({r_}) = 0.5_jprb*{o1.name}({r_}) + 0.25_jprb*sin({o2.name}({r_}))']
            return self.hloop(self.body_stmts(ker, ctx, i2, htargets, nmax), ind)
        klo = rng.choice([1, 1, 2])
        khi = rng.choice(['n', 'n', 'n-1'])
        down = rng.random() < 0.2
        ctx = dict(base, jl=True, klo=klo, khi=khi)
        self.feat.add(f'vloop:{klo}..{khi}' + (':down' if down else ''))
        if self.f['vector_notation'] and rng.random() < 0.25:
            ts = [t for t in targets if t.shape == 'HV' and t.base == 'r8']
            ops = [v for v in defined if v.shape == 'HV' and v.base == 'r8']
            if ts and ops:
                t, o1 = rng.choice(ts), rng.choice(ops)
                r_ = f'{n["hlo"]}:{n["hup"]}'
                k2 = rng.choice(self.kchoices('HV', ctx))
                self.feat.add('vecnot:compute-in-vloop')
                return [f'{ind}do {jk} = {self.kbounds(klo, khi, down)}',
                        f'{i2}{t.name}({r_}, {jk}) = 0.5_jprb*{o1.name}({r_}, {k2}) + 0.1_jprb',
                        f'{ind}end do']
        if self.f['horizontal_outer'] and rng.random() < 0.25:
            self.feat.add('nest:h-outer')
            body = self.body_stmts(ker, ctx, i3, targets, nmax)
            return ([f'{ind}do {jl} = {n["hlo"]}, {n["hup"]}', f'{i2}do {jk} = {self.kbounds(klo, khi, down)}'] +
                    body + [f'{i2}end do', f'{ind}end do'])
        out = [f'{ind}do {jk} = {self.kbounds(klo, khi, down)}']
        nsub = rng.choice([1, 1, 2])
        for _ in range(nsub):
            out += self.hloop(self.body_stmts(ker, ctx, i3, targets, nmax), i2)
        if nsub == 2:
            self.feat.add('nest:two-h-loops-in-vloop')
        out.append(f'{ind}end do')
        return out

    # ------------------------------------------------------------------ kernels
    def gen_kernel(self, level, callees):
        rng, f = self.rng, self.f
        self.n = dict(self.base_n)
        if f['alias_names'] and level >= 1:
            self.n.update(ALIASES[f['names']])
            self.feat.add('names:aliased-sizes-in-nested-kernels')
        n = self.n
        ker = Kernel(f'kern{level}' if level else 'kern0')
        ker.n = dict(n)
        ker.name = self.fresh('kern_l%d_' % level)
        ker.calls = callees
        ker.scalars = ['zfac']          # intent(in) real scalar argument
        ker.need_zs = ker.need_jm = False
        ker.cscratch = None
        # array dummies
        nargs = rng.randint(3, 5)
        abase = ['r8', 'r8', 'r8', 'r4', 'i', 'l']
        ashape = ['H', 'HV', 'HV', 'HV', 'HV1', 'HC']
        roles = ['in', 'inout', 'inout'] + [rng.choice(['in', 'inout', 'out']) for _ in range(nargs - 3)]
        for i in range(nargs):
            b = 'r8' if i < 2 else rng.choice(abase)
            s = 'HV' if i == 0 else rng.choice(ashape)
            ker.args.append(Var(f'p{"abcdefg"[i]}{level}', b, s, roles[i]))
        # temporaries
        shapes = [s for s in f['shapes']]
        for i in range(f['n_temps']):
            b = rng.choice(f['bases'])
            s = rng.choice(shapes)
            if s == 'C':
                if ker.cscratch is None:
                    ker.cscratch = Var(self.fresh('zc'), 'r8', 'C', 'tmp')
                continue
            kind = None
            if f['literal_kinds'] and b in ('r8', 'i'):
                kind = {'r8': '8', 'i': '4'}[b]
                self.case.literal_kind_temps += 1
                self.feat.add('kind:literal')
            role = 'vtmp' if s == 'V' else 'tmp'
            if s == 'V' and b == 'l':
                b = 'r8'
            ker.temps.append(Var(self.fresh({'r8': 'zt', 'r4': 'zm', 'i': 'it', 'l': 'll'}[b]), b, s, role, kind))
        # temporaries needed as actual arguments of callees are added on demand in gen_call
        nph = f['n_phases'] if callees else rng.randint(1, 2)
        for t in ker.temps:
            t.live_from = rng.randrange(nph)
            t.live_to = rng.randrange(t.live_from, nph) if rng.random() < 0.6 else t.live_from
        body = []
        defined = [a for a in ker.args if a.role != 'out']
        for a in ker.args:
            if a.role == 'out':     # intent(out) dummies are defined by the kernel before any read
                body += self.init_nest(a, ker, defined)
                defined.append(a)
        call_plan = self.plan_calls(ker, nph)
        for ph in range(nph):
            for t in ker.temps:
                if t.live_from == ph:
                    body += self.init_nest(t, ker, defined)
                    defined.append(t)
                    self.feat.add(f'temp:{t.base}:{t.shape}')
            live = [t for t in ker.temps if t.live_from <= ph <= t.live_to and t in defined]
            targets = live + [a for a in ker.args if a.role in ('inout', 'out')]
            targets = [t for t in targets if t.role != 'vtmp']
            rd = [a for a in ker.args] + live
            for _ in range(rng.randint(1, 2)):
                body += self.compute_nest(ker, rd, targets)
            if ph in call_plan:
                body += self.gen_calls(ker, call_plan[ph], defined, ph)
        # final section: make sure outputs depend on long-lived temporaries
        live = [t for t in ker.temps if t.live_to >= nph - 1 and t in defined]
        body += self.compute_nest(ker, [a for a in ker.args] + live,
                                  [a for a in ker.args if a.role in ('inout', 'out')])
        # every temporary that lived across a call is folded into an output, so that its values are observable
        sink = ker.args[1]
        fold = []
        ctx = {'defined': [], 'jl': True}
        for t in ker.temps:
            if t.live_to > t.live_from and t in defined and t.shape not in ('V', 'C'):
                r = self.ref(t, ctx)
                val = {'r8': r, 'r4': f'real({r}, jprb)', 'i': f'0.01_jprb*real({r}, jprb)',
                       'l': f'merge(0.1_jprb, -0.1_jprb, {r})'}[t.base]
                lhs = self.ref(sink, ctx, write=True)
                fold.append(f'      {lhs} = 0.5_jprb*{lhs} + 0.125_jprb*{val}')
        if fold:
            body += self.hloop(fold, '    ')
            self.feat.add('temp:long-lived-folded-into-output')
        ker.body = body
        return ker

    def plan_calls(self, ker, nph):
        """phase -> list of call groups; a group is ('plain', callee) or ('branch', callee_a, callee_b)"""
        rng = self.rng
        plan = {}
        cs = list(ker.calls)
        if not cs:
            return plan
        if self.f['branch_calls'] and len(cs) >= 2:
            ph = rng.randrange(max(1, nph - 1))
            plan.setdefault(ph, []).append(('branch', cs[0], cs[1]))
            cs = cs[2:]
            self.feat.add('call:branches')
        for c in cs:
            ph = rng.randrange(max(1, nph - 1))
            plan.setdefault(ph, []).append(('plain', c))
        return plan

    def new_temp(self, ker, like, defined, ph):
        t = Var(self.fresh({'r8': 'zt', 'r4': 'zm', 'i': 'it', 'l': 'll'}[like.base]), like.base, like.shape,
                'tmp', like.kind)
        t.live_from, t.live_to = ph, ph + 1
        ker.temps.append(t)
        pre = self.init_nest(t, ker, defined)
        defined.append(t)
        self.feat.add('call:temporary-as-argument')
        return t, pre

    def actual_for(self, ker, dummy, defined, ph, used):
        """a defined variable of the caller with the dummy's type and shape (create a temporary if needed)"""
        rng = self.rng
        c = [v for v in defined if v.sig == dummy.sig and v.shape != 'C' and v.role != 'vtmp' and
             v.name not in used and (dummy.role == 'in' or v.role in ('inout', 'out', 'tmp'))]
        if c and rng.random() < 0.7:
            v = rng.choice(c)
            if v.role == 'tmp':
                v.live_to = max(v.live_to, ph + 1)
            return v, []
        return self.new_temp(ker, dummy, defined, ph)

    def call_stmt(self, ker, callee, defined, ph, ind):
        n, rng = self.n, self.rng
        pre, acts = [], []
        used = set()
        for d in callee.args:
            v, p = self.actual_for(ker, d, defined, ph, used)
            used.add(v.name)
            pre += p
            acts.append(v.name)
        head = [n['hlo'], n['hup'], n['hsize'], n['vsize']]
        tail = ['zfac', 'lflag']
        if self.f['keyword_calls'] and rng.random() < 0.5:
            self.feat.add('call:keyword-args')
            args = head + acts[:1] + [f'{d.name}={a}' for d, a in zip(callee.args[1:], acts[1:])] + \
                [f'zfac={tail[0]}', f'lflag={tail[1]}']
        else:
            args = head + acts + tail
        return pre, [f'{ind}call {callee.name}({", ".join(args)})']

    def gen_calls(self, ker, groups, defined, ph):
        out = []
        for g in groups:
            if g[0] == 'plain':
                pre, c = self.call_stmt(ker, g[1], defined, ph, '    ')
                out += pre + c
            else:
                pa, ca = self.call_stmt(ker, g[1], defined, ph, '      ')
                pb, cb = self.call_stmt(ker, g[2], defined, ph, '      ')
                out += pa + pb + ['    if (lflag) then'] + ca + ['    else'] + cb + ['    end if']
        return out

    def kernel_text(self, ker):
        n, f = ker.n, self.f
        self.n = ker.n
        names = [n['hlo'], n['hup'], n['hsize'], n['vsize']] + [a.name for a in ker.args] + ['zfac', 'lflag']
        L = [f'  subroutine {ker.name}({", ".join(names)})']
        kinds = 'jpim, jprb, jprm'
        if not f['module_level_imports']:
            L.append(f'    use parkind1, only: {kinds}')
        for c in ker.calls:
            if c.module != ker.module:
                L.append(f'    use {c.module}, only: {c.name}')
        L.append(f'    integer(kind=jpim), intent(in) :: {n["hlo"]}, {n["hup"]}, {n["hsize"]}, {n["vsize"]}')
        for a in ker.args:
            L.append(f'    {self.tdecl(a)}, intent({a.role}) :: {a.name}{self.dims(a.shape)}')
        L.append('    real(kind=jprb), intent(in) :: zfac')
        L.append('    logical, intent(in) :: lflag')
        for t in ker.temps:
            L.append(f'    {self.tdecl(t)} :: {t.name}{self.dims(t.shape)}')
        if ker.cscratch:
            L.append(f'    real(kind=jprb) :: {ker.cscratch.name}(4)')
        idx = [n['hidx'], n['vidx']] + (['jm'] if ker.need_jm else [])
        L.append(f'    integer(kind=jpim) :: {", ".join(idx)}')
        if ker.need_zs:
            L.append('    real(kind=jprb) :: zs')
        L += ker.body
        L.append(f'  end subroutine {ker.name}')
        return '\n'.join(L)

    # ------------------------------------------------------------------ driver and main
    def gen_driver(self, tops):
        self.n = dict(self.base_n)
        n, rng, f = self.n, self.rng, self.f
        H, V, B, ibl, jl = n['hsize'], n['vsize'], n['bsize'], n['bidx'], n['hidx']
        fields = []        # driver-level arrays (dummy of driver): name, base, shape, kind
        calls = []
        for ker in tops:
            acts = []
            for a in ker.args:
                c = [v for v in fields if v.sig == a.sig and v.name not in acts]
                if c and rng.random() < 0.4:
                    v = rng.choice(c)
                else:
                    v = Var(self.fresh('f' + {'r8': 'r', 'r4': 'm', 'i': 'i', 'l': 'l'}[a.base]), a.base, a.shape,
                            'inout', a.kind)
                    fields.append(v)
                acts.append(v.name)
            calls.append((ker, acts))
        self.fields = fields
        colon = {'H': ':', 'HV': ':, :', 'HV1': ':, :', 'H0V': ':, :', 'HC': ':, :', 'HVC': ':, :, :',
                 'HCV': ':, :, :'}
        args = [H, V, B, 'istart', 'iendoff', 'ngptot'] + [v.name for v in fields] + ['zfac', 'lflag']
        L = [f'  subroutine {self.case.driver_name}({", ".join(args)})']
        self.driver_kinds = 'jpim, jprb' + (', jprm' if f['driver_all_kinds'] or any(v.kind == 'jprm' for v in fields) else '')
        if not f['module_level_imports']:
            L.append(f'    use parkind1, only: {self.driver_kinds}')
        for ker in tops:
            L.append(f'    use {ker.module}, only: {ker.name}')
        L.append(f'    integer(kind=jpim), intent(in) :: {H}, {V}, {B}, istart, iendoff, ngptot')
        for v in fields:
            L.append(f'    {self.tdecl(v)}, intent(inout) :: {v.name}{self.dims(v.shape)[:-1]}, {B})')
        L.append('    real(kind=jprb), intent(in) :: zfac')
        L.append('    logical, intent(in) :: lflag')
        loc = f'{ibl}, {n["hlo"]}, {n["hup"]}' + (', jkglo' if f['ifs_block_loop'] else '')
        if f['driver_sections']:
            loc += f', {jl}'
        L.append(f'    integer(kind=jpim) :: {loc}')
        L.append(f'    {n["hlo"]} = istart')
        if f['ifs_block_loop']:
            self.feat.add('driver:ifs-block-loop')
            L.append(f'    do jkglo = 1, ngptot, {H}')
            L.append(f'      {ibl} = (jkglo - 1)/{H} + 1')
            L.append(f'      {n["hup"]} = min({H}, ngptot - jkglo + 1) - iendoff')
        else:
            L.append(f'    {n["hup"]} = {H} - iendoff')
            L.append(f'    do {ibl} = 1, {B}')
        hf = [v for v in fields if v.shape == 'H' and v.base == 'r8']
        if f['driver_sections'] and hf and rng.random() < 0.7:
            self.feat.add('driver:horizontal-loop-in-block-loop')
            v = rng.choice(hf)
            L += [f'      do {jl} = {n["hlo"]}, {n["hup"]}',
                  f'        {v.name}({jl}, {ibl}) = 0.5_jprb*{v.name}({jl}, {ibl}) + 0.1_jprb',
                  '      end do']
        for ker, acts in calls:
            aa = []
            for a, nm in zip(ker.args, acts):
                aa.append(f'{nm}({colon[a.shape]}, {ibl})')
            L.append(f'      call {ker.name}({n["hlo"]}, {n["hup"]}, {H}, {V}, {", ".join(aa)}, zfac, lflag)')
        if f['driver_sections'] and hf and rng.random() < 0.4:
            v = rng.choice(hf)
            L += [f'      do {jl} = {n["hlo"]}, {n["hup"]}',
                  f'        {v.name}({jl}, {ibl}) = {v.name}({jl}, {ibl}) - 0.25_jprb',
                  '      end do']
        L.append('    end do')
        L.append(f'  end subroutine {self.case.driver_name}')
        return '\n'.join(L)

    def gen_main(self):
        self.n = dict(self.base_n)
        n = self.n
        H, V, B = n['hsize'], n['vsize'], n['bsize']
        L = ['program main', '  use parkind1, only: jpim, jprb, jprm',
             f'  use driver_mod, only: {self.case.driver_name}', '  implicit none',
             f'  integer(kind=jpim) :: {H}, {V}, {B}, istart, iendoff, ngptot, i, j, k, m, iflag',
             '  real(kind=jprb) :: zfac', '  logical :: lflag']
        for v in self.fields:
            r = len(self.dims(v.shape).split(',')) + 1
            L.append(f'  {self.tdecl(v)}, allocatable :: {v.name}({", ".join([":"] * r)})')
        L.append(f'  read(*,*) {H}, {V}, {B}, istart, iendoff, ngptot, iflag, zfac')
        L.append('  lflag = iflag /= 0')
        for q, v in enumerate(self.fields):
            L.append(f'  allocate({v.name}{self.dims(v.shape)[:-1]}, {B}))')
            # fill through a flat view via reshape of a generated sequence
            L.append(f'  call fill_{v.base}(size({v.name}), {q + 1})')
        L.append(f'  call {self.case.driver_name}({", ".join([H, V, B, "istart", "iendoff", "ngptot"] + [v.name for v in self.fields] + ["zfac", "lflag"])})')
        for v in self.fields:
            L.append(f"  print '(a)', '{v.name}'")
            L.append(f'  print *, {v.name}')
        L.append('contains')
        for b, (decl, val) in {'r8': ('real(kind=jprb)', 'sin(real(3*i + 7*q, jprb)*0.37_jprb) + 0.1_jprb*real(mod(i, 5), jprb)'),
                               'r4': ('real(kind=jprm)', 'real(cos(real(5*i + 3*q, jprb)*0.23_jprb), jprm)'),
                               'i': ('integer(kind=jpim)', 'mod(7*i + 3*q, 5)'),
                               'l': ('logical', 'mod(i*i + q, 3) == 0')}.items():
            targets = [v for v in self.fields if v.base == b]
            L.append(f'  subroutine fill_{b}(nn, q)')
            L.append('    integer, intent(in) :: nn, q')
            L.append(f'    {decl}, allocatable :: buf(:)')
            L.append('    integer :: i')
            L.append('    allocate(buf(nn))')
            L.append('    do i = 1, nn')
            L.append(f'      buf(i) = {val}')
            L.append('    end do')
            for q, v in enumerate(self.fields):
                if v.base == b:
                    L.append(f'    if (q == {q + 1}) {v.name} = reshape(buf, shape({v.name}))')
            L.append(f'  end subroutine fill_{b}')
        L.append('end program main')
        return '\n'.join(L) + '\n'

    # ------------------------------------------------------------------ project
    def generate(self):
        rng, f = self.rng, self.f
        depth = f['depth']
        # build the call tree bottom-up
        level_kernels = {}
        for lev in range(depth - 1, -1, -1):
            below = level_kernels.get(lev + 1, [])
            nk = 1 if lev == 0 else rng.randint(1, 2)
            if lev == 0 and rng.random() < 0.3:
                nk = 2          # two top kernels called from the driver
            ks = []
            for _ in range(nk):
                callees = []
                if below:
                    m = rng.randint(1, min(2, len(below)))
                    callees = rng.sample(below, m)
                    if f['branch_calls'] and len(callees) == 1 and len(below) == 1 and rng.random() < 0.5:
                        pass
                ks.append((lev, callees))
            level_kernels[lev] = []
            for lev_, callees in ks:
                if f['two_modules'] and lev_ > 0:
                    pass
                k = self.gen_kernel(lev_, callees)
                if f['two_modules'] and lev_ == depth - 1 and depth > 1:
                    k.module = 'kern_low_mod'
                level_kernels[lev].append(k)
        # drop unreachable lower kernels
        tops = level_kernels[0]
        reach, todo = [], list(tops)
        while todo:
            k = todo.pop(0)
            if k not in reach:
                reach.append(k)
                todo += k.calls
        order = sorted(reach, key=lambda k: -int(k.name.split('_')[1][1:]))   # callees first
        self.case.kernels = [k.name for k in order]
        self.case.n_temps = sum(len(k.temps) + (1 if k.cscratch else 0) for k in order)
        mods = {}
        for k in order:
            mods.setdefault(k.module, []).append(k)
        files = {'parkind1.F90': PARKIND}
        for m in (['kern_low_mod'] if 'kern_low_mod' in mods else []) + ['kern_mod']:
            if m not in mods:
                continue
            head = [f'module {m}']
            if f['module_level_imports']:
                head.append('  use parkind1, only: jpim, jprb, jprm')
                self.feat.add('imports:module-level')
            head += ['  implicit none', 'contains']
            files[f'{m}.F90'] = '\n'.join(head) + '\n' + '\n\n'.join(self.kernel_text(k) for k in mods[m]) + \
                f'\nend module {m}\n'
        drv = self.gen_driver(tops)
        head = ['module driver_mod']
        if f['module_level_imports']:
            head.append(f'  use parkind1, only: {self.driver_kinds}')
        head += ['  implicit none', 'contains']
        files['driver_mod.F90'] = '\n'.join(head) + '\n' + drv + '\nend module driver_mod\n'
        self.case.files = files
        self.case.main = self.gen_main()
        self.case.stdins = self.gen_stdins()
        self.feat.add(f'depth:{depth}')
        self.feat.add(f'kernels:{len(order)}')
        self.feat.add('names:' + f['names'])
        if f['two_modules'] and 'kern_low_mod' in mods:
            self.feat.add('project:two-kernel-modules')
        return self.case

    def gen_stdins(self):
        rng = self.rng
        sets = []
        for i in range(4):
            nlon = rng.choice([1, 3, 4, 5, 6]) if i else 5
            nz = rng.choice([1, 2, 3, 4, 5]) if i else 4
            nb = rng.choice([1, 2, 3]) if i else 3
            istart = rng.choice([1, 1, 2]) if nlon > 2 else 1
            iendoff = rng.choice([0, 0, 1]) if nlon > 2 else 0
            ngptot = nlon * nb - (rng.randrange(nlon) if self.f['ifs_block_loop'] and nlon > 2 + iendoff else 0)
            if self.f['ifs_block_loop'] and (ngptot - (nb - 1) * nlon) - iendoff < 1:
                ngptot = nlon * nb
            iflag = i % 2
            zfac = rng.choice(['0.5', '1.25', '-0.75'])
            sets.append(f'{nlon} {nz} {nb} {istart} {iendoff} {ngptot} {iflag} {zfac}\n')
        return sets
