"""C25 -- renaming, duplicating and removing items keeps the scheduler graph consistent.

After a random sequence of DependencyTransformation / ModuleWrapTransformation / DuplicateKernel
(+- subgraph) / RemoveKernel on the real Scheduler, followed by a probe transformation and
FileWriteTransformation, four monitors look at the result:

 (1) FP re-parse of the written sources: every import and call names a unit that exists in the
     written sources or in an untouched original;
 (2) item cache and graph: key == item.name, the IR node behind every item carries the item's name,
     the procedure items of the graph are exactly the ground truth with the same renames applied
     (``planlab.RenameModel``), nothing is external;
 (3) the probe that is processed afterwards visits exactly these items, once;
 (4) gfortran compiles and links outputs + untouched originals with an untouched driver program and
     the run output equals that of the original project with the same calls doubled / deleted.
"""
# pylint: disable=too-many-locals,too-many-branches,too-many-statements
import os
import shutil
from pathlib import Path

from vlib import schedlab as L
from vlib import planlab as PL
from vlib.core import sighash

PID = 'C25'
LEVEL = 'exploration'
TECHNIQUE = ('reference-model monitor (item names under the documented renames) + invariant checks on the item cache / '
             'graph + probe event log + FP re-parse of the outputs + differential execution with gfortran')
LEVEL_TEXT = ('Random projects x random sequences (1-4 steps) of dependency suffixing, module wrapping, kernel duplication '
              '(with and without subgraph) and kernel removal, kernels addressed by their current names; after each '
              'sequence the scheduler items, a probe pass, the written files (re-parsed with the FP frontend) and the '
              'behaviour of the compiled result are compared with a reference model / the original project.')
LEVEL_NOTE = ('Inside the documented domain of the transformations (dedicated free driver routines, one program unit per '
              'file, qualified imports, interface blocks for free routines, module variables in header modules); '
              'constructs with a known finding are generated in gated slices only and reported per gate. The model of '
              'expected item names implements the documented renaming rules only.')
RULE = ('schedlab project (5-12 routines) + dedicated drivers; 2 (quick) / 3 (thorough) sequences per project, each on a '
        'fresh Scheduler; 21 of every 64 projects are gated slices (one known-defect construct each, key gated:<construct>). '
        'Non-trivial = a sequence of >= 1 steps ran, changed the set of item names or the sources, the '
        'outputs were re-parsed and the program was built and run; distinct = hash of sources + config + sequences.')
CASES = {'quick': 100, 'thorough': 1500}
MIN_NONTRIVIAL = {'quick': 45, 'thorough': 700}
ANCHORS = ['loki/transformations/build_system/dependency.py', 'loki/transformations/build_system/module_wrap.py',
           'loki/transformations/dependency.py', 'loki/batch/scheduler.py', 'loki/batch/item_factory.py']
REQUIRED_REACH = ['rekey_item_cache', 'rename_calls', 'rename_imports', 'module_wrap', '_create_duplicate_items',
                  'get_or_create_item_from_item', 'derive_module_name']
REQUIRED_COUNTERS = {'sequences_run': 60, 'item_invariants_checked': 1000, 'model_comparisons': 50,
                     'probe_logs_checked': 50, 'references_resolved': 800, 'programs_run': 40, 'programs_equal': 30}
ASSUMPTIONS = ['gfortran -O0 -fcheck=all is the reference semantics; the generated programs are well-defined integer '
               'accumulations, so duplication doubles and removal deletes a known contribution',
               'the FP frontend re-parse of the written files is trusted for finding calls and imports',
               'renaming rules: kernel procedures get <suffix> once, their modules <base><suffix><module_suffix>; '
               'wrapped free kernels live in <name><module_suffix>; duplicates are <module><dup module suffix>#<name><dup suffix>']
BUDGET_S = {'quick': 400, 'thorough': 3000}
CASE_TIMEOUT_S = 400

GATES = ['types', 'full_features', 'called_from_internal', 'intf_block', 'multi_unit_file', 'lists',
         'unused_imports', 'kernel_module_globals', 'sibling_caller', 'function_in_subgraph', 'module_level_import',
         'mixed_role_module', 'internal_in_subgraph', 'internal_calls', 'bare_external_wrap', 'rem_then_rename',
         'dup_free_then_wrap', 'dup_intf_then_rename', 'replicate', 'dep_twice', 'wrap_without_dep']
INTRINSICS = {'mod', 'int', 'real', 'max', 'min', 'abs'}


def setup_worker(tier, ctx):
    from loki import config as loki_config   # pylint: disable=import-outside-toplevel
    loki_config['log-level'] = 'error'


def pick_gate(idx):
    if os.environ.get('C2425_NOGATES'):
        return None
    if os.environ.get('C2425_GATE'):
        return os.environ['C2425_GATE']
    if os.environ.get('C2425_ONLYGATES'):
        return GATES[idx % len(GATES)]
    # one case in three of a 64-cycle is a gated slice; every gate occupies one position of the cycle
    r = idx % 64
    if r % 3 == 1 and r // 3 < len(GATES):
        return GATES[r // 3]
    return None


def gen_project_case(rng, idx):
    gate = pick_gate(idx)
    traits = set()
    extra = {}
    if gate == 'types':
        extra.update({'types': True, 'nested_types': True})
        traits.add('types')
    if gate == 'full_features':
        extra.update({k: True for k in PL.CORE_FLAGS})
        traits.add('full_features')
    if gate == 'unused_imports':
        extra['unused_imports'] = True
    if gate == 'module_level_import':
        extra['module_level_imports'] = True
    all_intf = gate != 'bare_external_wrap'
    P = PL.gen_project(rng, rng.randint(5, 12), extra, all_intf=all_intf,
                       internal_calls=gate in ('internal_calls', 'full_features', 'called_from_internal'),
                       kernel_module_globals=gate in ('kernel_module_globals', 'full_features'),
                       multi_unit_files=gate in ('multi_unit_file', 'full_features'))
    if any(len(u) > 1 for _, u in P.files):
        traits.add('multi_unit_file')
    if 'unused_subroutine_import' in P.features:
        traits.add('unused_imports')
    if any(m.uses for m in P.modules.values()):
        traits.add('module_level_import')
    if any(calls for p in P.procs for _, calls in p.internals):
        traits.add('internal_calls')
    if gate == 'kernel_module_globals':
        traits.add('kernel_module_globals')
    drivers = None
    if gate not in ('mixed_role_module', 'full_features'):
        drivers = PL.add_drivers(P, rng)
    cfg, meta = PL.gen_config(rng, P, {'lists': gate == 'lists', 'expand_false': gate == 'lists', 'libs': False,
                                       'kernel_seed': rng.random() < 0.15, 'drivers': drivers,
                                       'replicate': gate == 'replicate',
                                       'mixed_role_module': gate in ('mixed_role_module', 'full_features')})
    if cfg is None:
        return None
    cfg['default']['replicate'] = False
    traits |= meta['traits']
    if meta['replicated']:
        traits.add('replicate')
    exp = L.reference_closure(P.truth(), cfg, None)
    return {'P': P, 'cfg': cfg, 'meta': meta, 'exp': exp, 'gate': gate, 'traits': traits, 'all_intf': all_intf}


def item_invariants(sched, root, bad, bump):
    """(2a) cache / graph invariants that need no model"""
    import loki.batch as B   # pylint: disable=import-outside-toplevel
    cache = sched.item_factory.item_cache
    for key, it in list(cache.items()):
        bump('item_invariants_checked')
        if str(key).lower() != it.name.lower():
            bad('cache-key-differs-from-item-name', f'cache[{key!r}] holds item {it.name!r}')
        if isinstance(it, (B.FileItem, B.ExternalItem)):
            continue
        try:
            node = it.ir
            nm = node.name.lower() if node is not None else None
        except Exception as e:  # pylint: disable=broad-except
            bad('cached-item-without-ir-node', f'{type(it).__name__} {it.name}: {type(e).__name__}: {e}')
            continue
        if isinstance(it, B.ProcedureItem):
            if nm != it.local_name.lower():
                bad('procedure-item-name-differs-from-ir', f'item {it.name} wraps routine {nm}')
            parent = getattr(node, 'parent', None)
            pn = parent.name.lower() if parent is not None else ''
            if pn != (it.scope_name or '').lower():
                bad('procedure-item-scope-differs-from-ir', f'item {it.name} wraps a routine in scope {pn!r}')
        elif isinstance(it, B.ModuleItem):
            if nm != it.name.lower():
                bad('module-item-name-differs-from-ir', f'item {it.name} wraps module {nm}')
    graph_items = list(sched.items)
    names = [it.name.lower() for it in graph_items]
    if len(names) != len(set(names)):
        bad('graph-holds-an-item-twice', f'{sorted(n for n in set(names) if names.count(n) > 1)}')
    for it in graph_items:
        bump('item_invariants_checked')
        if isinstance(it, B.ExternalItem):
            bad('graph-holds-external-item', f'{it.name} ({it.origin_cls.__name__ if it.origin_cls else None})')
            continue
        if it.name not in cache or cache[it.name] is not it:
            bad('graph-item-not-in-cache', f'{it.name}')
    for a, b in sched.dependencies:
        if a not in sched.sgraph._graph or b not in sched.sgraph._graph:   # pylint: disable=protected-access
            bad('edge-to-missing-node', f'{a.name} -> {b.name}')


def reparse(written, untouched, bad, bump):
    """(1) every import / call in the written sources names an existing unit"""
    from loki import Sourcefile   # pylint: disable=import-outside-toplevel
    from loki.frontend import FP   # pylint: disable=import-outside-toplevel
    from loki.ir import nodes as ir, FindNodes   # pylint: disable=import-outside-toplevel
    from loki.ir import FindInlineCalls   # pylint: disable=import-outside-toplevel
    mods, free = {}, set()
    parsed = {}
    for f in list(written) + list(untouched):
        try:
            sf = Sourcefile.from_file(f, frontend=FP)
        except Exception as e:  # pylint: disable=broad-except
            if f in written:
                bad('written-file-does-not-parse', f'{Path(f).name}: {type(e).__name__}: {str(e)[:200]}')
            continue
        parsed[f] = sf
        for m in sf.modules:
            names = {r.name.lower() for r in m.subroutines} | {str(v.name).lower() for v in m.variables}
            names |= {str(t).lower() for t in getattr(m, 'typedef_map', {})}
            for i in m.interfaces:
                names |= {str(s).lower() for s in i.symbols}
            mods.setdefault(m.name.lower(), set()).update(names)
        for r in sf.subroutines:
            free.add(r.name.lower())
    for f in written:
        sf = parsed.get(f)
        if sf is None:
            continue
        scopes = [(m, None) for m in sf.modules]
        for r in sf.all_subroutines:
            scopes.append((r, r.parent))
        for unit, parent in scopes:
            imports = FindNodes(ir.Import).visit(unit.spec) if unit.spec is not None else []
            for im in imports:
                if im.c_import or im.f_include:
                    continue
                bump('references_resolved')
                mn = str(im.module).lower()
                if mn not in mods:
                    bad('import-of-missing-module', f'{Path(f).name}: {unit.name} uses {mn}')
                    continue
                for s in im.symbols or ():
                    bump('references_resolved')
                    try:
                        sn = str(s.type.use_name or s.name).lower()
                    except Exception:  # pylint: disable=broad-except
                        sn = str(s).lower()
                    if sn not in mods[mn]:
                        bad('import-of-missing-symbol', f'{Path(f).name}: {unit.name} imports {sn} from {mn}')
            if not hasattr(unit, 'body') or isinstance(unit, type(None)) or not hasattr(unit, 'members'):
                continue
            visible = {m.name.lower() for m in unit.members}
            host = unit
            while host is not None:
                for im in (FindNodes(ir.Import).visit(host.spec) if host.spec is not None else []):
                    visible |= {str(s.name).lower() for s in im.symbols or ()}
                if hasattr(host, 'members'):
                    visible |= {m.name.lower() for m in host.members}
                if hasattr(host, 'subroutines') and not hasattr(host, 'members'):
                    visible |= {r.name.lower() for r in host.subroutines}
                host = getattr(host, 'parent', None)
            called = [str(c.name).lower() for c in FindNodes(ir.CallStatement).visit(unit.body)]
            called += [str(c.name).lower() for c in FindInlineCalls(unique=False).visit(unit.body)
                       if str(c.name).lower() not in INTRINSICS]
            for c in called:
                bump('references_resolved')
                if '%' in c:
                    continue
                if c in visible:
                    continue
                if c in free:
                    continue
                bad('call-of-missing-unit', f'{Path(f).name}: {unit.name} calls {c}')
    return parsed


def run_sequence(case, k, rng, base, res, bump, tier):
    """one sequence on a fresh scheduler; returns True when the sequence was non-trivial"""
    from loki.batch import ProcedureItem, ExternalItem   # pylint: disable=import-outside-toplevel
    from loki.transformations.build_system import FileWriteTransformation   # pylint: disable=import-outside-toplevel
    P, cfg, meta, exp = case['P'], case['cfg'], case['meta'], case['exp']
    gate = case['gate']
    allow = {gate} if gate else set()
    if gate == 'full_features':
        allow |= {'dup_local_name', 'module_level_import', 'function_in_subgraph', 'non_procedure_in_subgraph',
                  'rem_then_rename'}
    for _ in range(4):
        spec, model, info = PL.gen_sequence(rng, P, exp, meta, allow)
        if spec:
            break
    traits = set(case['traits']) | info['traits']
    if not case['all_intf'] and any(n == 'wrap' for n, _ in spec) and PL.has_bare_external_calls(P, exp):
        traits.add('bare_external_wrap')
    if not spec:
        return False, spec
    label = gate if (gate and traits) else None
    root = base / f's{k}' / 'src'
    out = base / f's{k}' / 'build'
    texts = P.write(root)
    out.mkdir()
    witness = {'config': cfg, 'sequence': spec, 'sources': texts, 'traits': sorted(traits)}
    seqkey = '+'.join(n for n, _ in spec)

    def bad(kind, msg, stage=None):
        if traits and not label:
            res['inconclusive'] = f'generator defect: gated constructs {sorted(traits)} outside a gated slice'
            return
        key = f'gated:{label}' if label else f'{kind}:{stage or seqkey}'
        if label:
            msg = f'[{COARSE.get(kind, "graph-inconsistent")}: {kind}:{stage or seqkey}] {msg}'
        if not any(v['key'] == key for v in res['violations']):
            res['violations'].append({'key': key, 'msg': msg[:900], 'witness': witness})
    bump('sequences_run')
    for n, _ in spec:
        bump(f'step_{n}')
    try:
        sched = L.build_scheduler(root, cfg, None, True, output_dir=str(out))
    except Exception as e:  # pylint: disable=broad-except
        if label:
            # hostile constructs of a gated slice (e.g. recursion cycles): graph construction itself is C21's subject
            bump('gated_projects_without_graph')
            return False, spec
        res['inconclusive'] = 'scheduler construction failed on the original project: ' + PL.loki_frame(e) + str(e)[:200]
        return False, spec
    names0 = sorted(it.name for it in sched.items)
    done = []
    for (n, _), t in zip(spec, PL.instantiate(spec)):
        try:
            sched.process(t)
            done.append(n)
        except Exception as e:  # pylint: disable=broad-except
            bad('transformation-fails', f'{n} after {done}: {PL.loki_frame(e)}: {str(e)[:400]}',
                stage=f'{PL.loki_frame(e)}:{"+".join(done + [n])}')
            return False, spec
    # (2) invariants + model
    try:
        item_invariants(sched, root, bad, bump)
    except Exception as e:  # pylint: disable=broad-except
        bad('graph-not-inspectable', f'{PL.loki_frame(e)}: {str(e)[:300]}')
        return False, spec
    got = {it.name.lower() for it in sched.items if isinstance(it, ProcedureItem)}
    want = set(model.procs)
    bump('model_comparisons')
    if got != want:
        bad('graph-procedures-differ-from-model', f'missing: {sorted(want - got)[:6]}; unexpected: {sorted(got - want)[:6]}')
    others_got = {it.name.lower() for it in sched.items if not isinstance(it, (ProcedureItem, ExternalItem))}
    if others_got != set(model.other):
        bad('graph-non-procedure-items-differ-from-model',
            f'missing: {sorted(set(model.other) - others_got)[:6]}; unexpected: {sorted(others_got - set(model.other))[:6]}')
    # (3) later processing visits exactly the surviving items
    log = []
    try:
        sched.process(L.ProbeTransformation(log=log))
    except Exception as e:  # pylint: disable=broad-except
        bad('later-processing-fails', f'probe: {PL.loki_frame(e)}: {str(e)[:300]}', stage=f'probe:{PL.loki_frame(e)}:{seqkey}')
        return False, spec
    bump('probe_logs_checked')
    visited = [r['item'] for r in log if r['method'] == 'transform_subroutine']
    selected = {it.name.lower() for it in sched.items if isinstance(it, ProcedureItem) and not it.is_ignored}
    if sorted(visited) != sorted(selected):
        twice = sorted({v for v in visited if visited.count(v) > 1})
        bad('probe-visits-differ-from-graph', f'not visited: {sorted(selected - set(visited))[:6]}; visited but not in graph: '
            f'{sorted(set(visited) - selected)[:6]}; visited twice: {twice[:6]}')
    for r in log:
        if r['method'] == 'transform_subroutine' and r['ir'] != r['item'].split('#')[-1]:
            bad('probe-gets-routine-with-other-name', f'item {r["item"]} processed with routine {r["ir"]}')
    # write
    before = PL.snapshot(base / f's{k}')
    try:
        sched.process(FileWriteTransformation(include_module_var_imports=bool(cfg['default']['enable_imports'])))
    except Exception as e:  # pylint: disable=broad-except
        bad('later-processing-fails', f'FileWriteTransformation: {PL.loki_frame(e)}: {str(e)[:300]}',
            stage=f'write:{PL.loki_frame(e)}:{seqkey}')
        return False, spec
    after = PL.snapshot(base / f's{k}')
    written = sorted(p for p in after if after[p] != before.get(p))
    mode = cfg['default']['mode'].replace('-', '_')
    replaced = set()
    for w in written:
        stem = Path(w).name.split(f'.{mode}.')[0]
        for rp in texts:
            if Path(rp).name.rsplit('.', 1)[0] == stem:
                replaced.add(str(root / rp))
    rep_files = set()
    where, _ = PL.file_of(P)
    for q in meta['replicated']:
        if where.get(q):
            rep_files.add(str(root / where[q]))
    untouched = sorted(str(root / rp) for rp in texts if str(root / rp) not in replaced or str(root / rp) in rep_files)
    # (1) re-parse
    reparse(written, untouched, bad, bump)
    # (4) build and run
    drivers = set(meta['driver_seeds'])
    renamed = any(n in ('dep', 'wrap') for n, _ in spec)
    if P.compilable and not meta['lists'] and (not renamed or set(meta['seeds']) == drivers):
        drv = P.driver_source(seeds=drivers)
        processed = {n for n, kd in exp.nodes.items() if kd == 'ProcedureItem'}
        rtexts = PL.project_texts(PL.behaviour_edit(P, processed, spec))
        rkey = sighash(rtexts)
        ref = case.setdefault('refs', {}).get(rkey) or PL.build_and_run(base / f's{k}' / 'ref', rtexts, drv)
        case['refs'][rkey] = ref
        if ref['status'] == 'timeout':
            res['inconclusive'] = 'timeout: ' + ref['detail']
            return False, spec
        if ref['status'] != 'ok':
            res['inconclusive'] = 'generator defect: reference project does not build/run: ' + ref['detail'][:300]
            return False, spec
        required = {w: Path(w).read_text() for w in written}
        optional = {o: Path(o).read_text() for o in untouched}
        run = PL.build_and_run(base / f's{k}' / 'new', required, drv, optional)
        bump('programs_run')
        if run['status'] == 'timeout':
            res['inconclusive'] = 'timeout: ' + run['detail']
            return False, spec
        if run['status'] == 'build_fail':
            bad('outputs-do-not-build', run['detail'], stage=f'{build_detail(run["detail"])}:{seqkey}')
        elif run['status'] == 'run_fail':
            bad('outputs-fail-at-run-time', run['detail'])
        elif info.get('rem_keeps_renamed_copy'):
            # a subgraph duplication left a renamed copy of the kernel that RemoveKernel then removed by name: the
            # copy rightly stays, the shared-body reference project cannot express that (built and run only)
            bump('programs_run_without_reference_output')
        elif run['out'] != ref['out']:
            bad('run-output-differs', f'expected {ref["out"].split()} got {run["out"].split()}')
        else:
            bump('programs_equal')
    nontrivial = bool(written) and (names0 != sorted(it.name for it in sched.items) or bool(info['rem']))
    res.setdefault('sample', {'sequence': [n for n, _ in spec], 'items_before': names0[:5],
                              'items_after': sorted(got)[:8], 'written': [Path(w).name for w in written][:6]})
    return nontrivial, spec


COARSE = {'transformation-fails': 'pipeline-fails', 'later-processing-fails': 'pipeline-fails',
          'graph-not-inspectable': 'pipeline-fails',
          'outputs-do-not-build': 'build', 'outputs-fail-at-run-time': 'build', 'run-output-differs': 'build',
          'import-of-missing-module': 'dangling-reference', 'import-of-missing-symbol': 'dangling-reference',
          'call-of-missing-unit': 'dangling-reference', 'written-file-does-not-parse': 'dangling-reference'}


def build_detail(detail):
    import re   # pylint: disable=import-outside-toplevel
    if 'defined in no file' in detail:
        return 'module-missing'
    if 'multiple definition' in detail or 'already being used' in detail or 'is already defined' in detail:
        return 'unit-defined-twice'
    if 'undefined reference' in detail:
        return 'undefined-reference'
    m = re.search(r'Error: (.{0,60})', detail)
    if m:
        return 'compile-error-' + re.sub(r'[^A-Za-z ]+', '', m.group(1)).strip().replace(' ', '-')[:40]
    return 'other'


def run_case(idx, rng, tier, ctx):
    res = {'sig': f'skip{idx}', 'nontrivial': False, 'violations': [], 'inconclusive': None, 'features': [],
           'counters': {}}
    cnt = res['counters']

    def bump(k, n=1):
        cnt[k] = cnt.get(k, 0) + n
    case = gen_project_case(rng, idx)
    if case is None:
        res['features'] = ['skipped:no-root']
        return res
    base = ctx['scratch'] / f'c{idx}'
    shutil.rmtree(base, ignore_errors=True)
    base.mkdir(parents=True)
    specs = []
    feats = set()
    try:
        for k in range(2 if tier == 'quick' else 3):
            nt, spec = run_sequence(case, k, rng, base, res, bump, tier)
            specs.append(spec)
            feats |= {f'step:{n}' for n, _ in spec} | {'seq:' + '+'.join(n for n, _ in spec)}
            feats |= {'dup:subgraph' for n, o in spec if n == 'dup' and o['duplicate_subgraph']}
            res['nontrivial'] = res['nontrivial'] or nt
            if not os.environ.get('C2425_KEEP'):
                shutil.rmtree(base / f's{k}', ignore_errors=True)
            if res['inconclusive']:
                break
    finally:
        if not os.environ.get('C2425_KEEP'):
            shutil.rmtree(base, ignore_errors=True)
    if case['gate'] and case['traits']:
        feats.add(f'gate:{case["gate"]}')
    res['features'] = sorted(feats)
    res['sig'] = sighash([PL.project_texts(case['P']), case['cfg'], specs])
    return res
