"""C33 -- region outlining and extraction of internal procedures preserve behaviour (differential execution)."""
import random
import shutil

from vlib import tfdiff
from vlib.core import sighash
from vlib.outgen import OutGen

PID = 'C33'
LEVEL = 'exploration'
TECHNIQUE = 'differential execution of generated routines, original vs outlined / extracted (gfortran run-time checks, ASan/UBSan, FPE traps)'
LEVEL_TEXT = ('Every generated routine (marked regions at top level or inside a loop / conditional, intent overrides, '
              'internal procedures using host-associated variables) is transformed by the real outline_pragma_regions / '
              'extract_internal_procedures / ExtractTransformation, compiled next to the untouched original with an '
              'untouched driver and run on 4 input sets, two calls each. The routine reads every variable after the '
              'regions / calls and the driver prints every argument, so a variable that is not passed in or back shows.')
LEVEL_NOTE = ('gfortran 12 -O0 with -fcheck=all and -finit-real=snan / -finit-integer is the reference semantics (a variable '
              'that became local to the new routine is uninitialised there); wrong INTENT attributes that gfortran does not '
              'diagnose and that do not change pass-by-reference behaviour are not observable; programs are well-defined by '
              'construction; mechanisms with a known finding are exercised by one dedicated snippet each in a small slice.')
RULE = ('OutGen routines: 1-2 !$loki outline regions (named / default names, in/inout/out overrides consistent with the '
        'data flow, top level or nested in a loop / conditional) reading and writing scalars, arrays with symbolic sizes '
        '(rank 1, rank 2, lower bound 0), fixed-size arrays, derived-type dummies and locals, module parameters, with '
        'loops, conditionals, array syntax and calls inside; 1-3 internal procedures (subroutine, function, assumed-shape '
        'argument, derived types) using host scalars / arrays / derived types / module parameters. Modes: '
        'outline_pragma_regions, extract_internal_procedures, ExtractTransformation(outline), (internals), (both). '
        '1 case in 4 carries one hazard snippet (attributed by re-running the same program without it). Non-trivial = '
        'the transformation created at least one new routine, the text changed and both programs ran on all inputs; '
        'distinct = hash of sources + mode.')
CASES = {'quick': 240, 'thorough': 3600}
MIN_NONTRIVIAL = {'quick': 100, 'thorough': 1500}
ANCHORS = ['loki/transformations/extract/outline.py', 'loki/transformations/extract/internal.py',
           'loki/transformations/extract/__init__.py']
REQUIRED_REACH = ['outline_region', 'outline_pragma_regions', 'extract_internal_procedures', 'extract_internal_procedure',
                  'transform_module', 'transform_file']
REQUIRED_COUNTERS = {'program_runs': 100, 'new_routines': 20}
ASSUMPTIONS = ['gfortran 12 -O0 with run-time checks is the reference semantics',
               'generated programs are well-defined by construction (original must run clean, else discarded)',
               'real outputs compared to rtol 1e-9 / atol 1e-9',
               'a time-out of the transformed program is inconclusive, never a violation']
BUDGET_S = {'quick': 1200, 'thorough': 3000}     # quick: ~130 s idle on 16 workers; 8 workers on a loaded machine need ~1100 s
CASE_TIMEOUT_S = 240

MODES = ['outline_fn', 'outline_tf', 'extract_fn', 'extract_tf', 'both_tf', 'outline_file']

OUT = ['outline_fn', 'outline_tf']
OUTALL = OUT + ['outline_file']
EXT = ['extract_fn', 'extract_tf']
HAZ = {
    'loopvar_read_after': (OUT, 'outline:loop-variable-of-region-read-after-region-not-passed-back'),
    'derived_default_init_partial_write': (OUT, 'outline:partially-written-derived-type-becomes-intent-out'),
    'pragma_list_with_spaces': (OUT, 'outline:pragma-variable-list-with-spaces'),
    'override_array': (OUT, 'outline:intent-override-naming-an-array-duplicates-the-argument'),
    'inner_array_two_subscripts': (EXT, 'extract:host-array-referenced-with-two-subscripts-duplicates-the-argument'),
    'override_case': (OUT, 'outline:pragma-variable-list-other-spelling'),
    'call_internal_in_region': (OUT, 'outline:region-calls-internal-procedure'),
    'return_in_region': (OUT, 'outline:return-inside-region'),
    'cycle_enclosing_loop': (OUT, 'outline:cycle-of-enclosing-loop-inside-region'),
    'saved_var_initialiser': (OUT, 'outline:saved-variable-initialiser-copied-to-dummy'),
    'dim_by_local_parameter': (OUT, 'outline:array-dimensioned-by-routine-parameter'),
    'dim_by_unused_dummy': (OUT, 'outline:array-dimensioned-by-variable-not-used-in-region'),
    'print_only_use': (OUT, 'outline:variable-used-only-in-print'),
    'allocate_in_region': (OUT, 'outline:allocatable-attribute-dropped'),
    'pointer_in_region': (OUT, 'outline:pointer-variable-in-region'),
    'region_inside_associate': (OUT, 'outline:region-inside-associate'),
    'mixed_case_in_region': (OUT, 'outline:variable-spelled-differently-in-region'),
    'optional_present_in_region': (OUT, 'outline:optional-dummy-in-region'),
    'module_variable_in_region': (OUT, 'outline:module-variable-in-region'),
    'region_char_var': (OUT, 'outline:character-variable-in-region'),
    'implicit_loop_var_in_region': (OUT, 'outline:implied-do-variable-in-region'),
    'write_only_array_section': (OUT, 'outline:array-section-written-only'),
    'stmt_function_in_region': (OUT, 'outline:statement-function-in-region'),
    'host_parameter': (EXT, 'extract:host-parameter-becomes-dummy-argument'),
    'type_from_host_module': (EXT, 'extract:derived-type-defined-in-enclosing-module'),
    'sibling_call': (EXT, 'extract:internal-procedure-calls-sibling'),
    'host_var_only_in_inner_spec': (EXT, 'extract:host-variable-used-only-in-specification-part'),
    'dim_by_member': (EXT, 'extract:host-array-dimensioned-by-derived-type-member'),
    'mixed_case_in_inner': (EXT, 'extract:host-variable-spelled-differently'),
    'inner_optional_host': (EXT, 'extract:optional-host-dummy'),
    'inner_uses_module_variable': (EXT, 'extract:module-variable-in-internal-procedure'),
    'inner_host_loopvar_in_loop': (EXT, 'extract:host-loop-variable-passed-inout-inside-its-loop'),
    'inner_fun_in_condition': (EXT, 'extract:internal-function-in-conditions'),
    'inner_shadow_and_host': (EXT, 'extract:local-shadowing-host-variable'),
    'inner_kind_from_module_import': (EXT, 'extract:kind-imported-by-enclosing-module'),
    'file_layout_extract': (['extract_tf'], 'extract:free-subroutine-called-with-keyword-arguments-needs-explicit-interface'),
    'routine_without_contains': (['extract_tf'], 'extract:transformation-on-module-with-routine-without-contains'),
}
HAZ_ORDER = sorted(HAZ)


def plan(idx, rng):
    flags = {'max_stmts': rng.choice([3, 5, 8]), 'max_depth': rng.choice([1, 2, 2]), 'derived': rng.random() < 0.7,
             'calls': rng.random() < 0.8, 'named': True, 'overrides': rng.random() < 0.7,
             'region_nested': rng.random() < 0.3}
    hazard = None
    if idx % 4 == 3:
        hazard = HAZ_ORDER[(idx // 4) % len(HAZ_ORDER)]
        modes = HAZ[hazard][0]
        mode = modes[(idx // (4 * len(HAZ_ORDER))) % len(modes)]
        if hazard == 'dim_by_member':
            flags['derived'] = True
    else:
        mode = MODES[(idx - idx // 4) % len(MODES)]
    if mode == 'outline_file' or hazard == 'file_layout_extract':
        flags['layout'] = 'file'
    if mode in OUTALL:
        flags['regions'] = rng.choice([1, 1, 2])
        flags['internals'] = 0
    elif mode in EXT:
        flags['regions'] = 0
        flags['internals'] = rng.choice([1, 2, 3])
    else:
        flags['regions'] = rng.choice([1, 2])
        flags['internals'] = rng.choice([1, 2])
    if hazard and mode in OUT and rng.random() < 0.5:
        flags['regions'] = 0         # the hazard region alone
    return mode, hazard, flags


class ParseFailure(Exception):
    """the frontend could not read the generated program (not the business of this property)"""


def transform(case, mode):
    """returns (before_files, after_files, number of new routines)"""
    from loki import Sourcefile
    from loki.transformations.extract import ExtractTransformation
    from loki.transformations.extract.outline import outline_pragma_regions
    from loki.transformations.extract.internal import extract_internal_procedures
    try:
        t = Sourcefile.from_source(case.files[0][1])
        o = Sourcefile.from_source(case.files[1][1], definitions=t.definitions)
    except Exception as e:  # pylint: disable=broad-except
        raise ParseFailure(f'{type(e).__name__}: {str(e)[:200]}') from e
    before = [(case.files[0][0], t.to_fortran()), (case.files[1][0], o.to_fortran())]
    if case.files[1][0] == 'kern.F90':
        nbefore = len(o.subroutines)
        ExtractTransformation(extract_internals=mode != 'outline_file', outline_regions=True).apply(o)
        after = [(case.files[0][0], t.to_fortran()), (case.files[1][0], o.to_fortran())]
        return before, after, len(o.subroutines) - nbefore
    mod = o['omod']
    nbefore = len(mod.subroutines)
    kern = o['kern']
    if mode == 'outline_fn':
        mod.contains.append(outline_pragma_regions(kern))
    elif mode == 'extract_fn':
        mod.contains.append(extract_internal_procedures(kern))
    elif mode == 'outline_tf':
        ExtractTransformation(extract_internals=False, outline_regions=True).apply(mod)
    elif mode == 'extract_tf':
        ExtractTransformation(extract_internals=True, outline_regions=False).apply(mod)
    elif mode == 'both_tf':
        ExtractTransformation(extract_internals=True, outline_regions=True).apply(mod)
    else:
        raise ValueError(mode)
    after = [(case.files[0][0], t.to_fortran()), (case.files[1][0], o.to_fortran())]
    return before, after, len(o['omod'].subroutines) - nbefore


def evaluate(case, mode, wd, counters):
    out = {'outcome': 'ok', 'symptom': None, 'detail': '', 'changed': False, 'after': None, 'exc': None, 'diff': None,
           'new': 0}
    try:
        before, after, nnew = transform(case, mode)
    except ParseFailure as e:
        out.update(outcome='inconclusive', detail=f'frontend failed on the generated program: {e}')
        return out
    except Exception as e:  # pylint: disable=broad-except
        out.update(outcome='violation', symptom='exception', exc=e,
                   detail=f'{type(e).__name__}: {str(e)[:300]} @{tfdiff.innermost_loki_frame(e)}')
        return out
    out['after'] = after
    out['new'] = nnew
    out['changed'] = [x for _, x in before] != [x for _, x in after]
    d = tfdiff.differential(wd / 'x', case.files, after, case.driver, case.stdins)
    counters['program_runs'] = counters.get('program_runs', 0) + 2 * d['runs']
    counters['sanitizer_builds'] = counters.get('sanitizer_builds', 0) + 2
    out['diff'] = d
    if d['status'] == 'orig_bad':
        out.update(outcome='inconclusive', detail='generator defect: ' + d['detail'][:400])
    elif d['status'] == 'new_timeout':
        out.update(outcome='inconclusive', detail='transformed program timed out')
    elif d['status'] != 'equal':
        out.update(outcome='violation', symptom=tfdiff.SYMPTOM[d['status']], detail=d['detail'][:600])
    return out


FAMILY = {'outline_fn': 'outline', 'outline_tf': 'outline', 'outline_file': 'outline', 'extract_fn': 'extract', 'extract_tf': 'extract',
          'both_tf': 'extract+outline'}


def generic_key(mode, ev):
    fam = FAMILY[mode]
    if ev['symptom'] == 'exception':
        e = ev['exc']
        return f'{fam}:exception:{type(e).__name__}@{tfdiff.innermost_loki_frame(e)}'
    if ev['symptom'] == 'compile':
        return f'{fam}:compile-error:{tfdiff.norm_compile_error(ev["detail"])}'
    if ev['symptom'] == 'runtime':
        return f'{fam}:runtime-error-in-transformed'
    return f'{fam}:output-differs'


def run_case(idx, rng, tier, ctx):
    mode, hazard, flags = plan(idx, rng)
    gseed = rng.getrandbits(60)
    case = OutGen(random.Random(gseed), flags, hazard).generate()
    feats = sorted(case.features | {'mode_' + mode})
    res = {'sig': sighash([case.units, mode]), 'nontrivial': False, 'violations': [], 'inconclusive': None,
           'features': feats, 'counters': {'cases_' + mode: 1}}
    wd = ctx['scratch'] / f'c{idx}'
    try:
        ev = evaluate(case, mode, wd, res['counters'])
        if ev['outcome'] == 'inconclusive':
            res['inconclusive'] = ev['detail']
        elif ev['outcome'] == 'violation':
            key = generic_key(mode, ev)
            wcase, wev = case, ev
            if hazard:
                bflags = dict(flags)
                if hazard == 'file_layout_extract':
                    # the hazard is the layout itself (kern as a free-standing subroutine: transform_file makes the
                    # extracted procedures external), the snippet only guarantees one host-associated variable; the
                    # ordinary internal procedures of the case trigger it just as well.  "The same program without
                    # the hazard" is therefore the same routine inside a module (same random stream).
                    bflags['layout'] = 'module'
                base = OutGen(random.Random(gseed), bflags, None).generate()
                bev = evaluate(base, mode, wd, res['counters'])
                res['counters']['hazard_attribution_runs'] = 1
                if bev['outcome'] == 'violation':
                    key, wcase, wev = generic_key(mode, bev), base, bev
                elif bev['outcome'] == 'ok':
                    key = f"{HAZ[hazard][1]}:{ev['symptom']}"
            res['violations'].append({
                'key': key, 'msg': f"mode={mode} hazard={hazard}: {wev['detail']}"[:700],
                'witness': {'mode': mode, 'hazard': hazard, 'files': wcase.files, 'transformed': wev['after'],
                            'driver': wcase.driver[1],
                            'diff': {k: v for k, v in (wev['diff'] or {}).items() if k != 'runs'}}})
        else:
            res['nontrivial'] = bool(ev['changed']) and ev['new'] > 0
            res['counters']['oracle_evals'] = 1
            res['counters']['new_routines'] = ev['new']
            if hazard:
                res['counters']['hazard_cases_without_violation'] = 1
            res['sample'] = {'mode': mode, 'hazard': hazard, 'features': feats[:14], 'new_routines': ev['new'],
                             'kern_lines': len(case.files[1][1].splitlines())}
    finally:
        shutil.rmtree(wd, ignore_errors=True)
    return res
