"""
Independent structural snapshot of Loki IR trees and expression trees as nested
tuples (s-expressions).  Uses only dataclass fields of IR nodes and
``init_arg_names`` of expression nodes -- never Loki's visitors, stringifiers or
``__eq__`` -- so it can serve as an oracle for C02/C14/C16-style comparisons.

    snap(node_or_tuple, types=False) -> nested tuple
    first_diff(a, b) -> path/description of the first difference or None
"""
import dataclasses

_SKIP_EXPR = {'scope', 'type', 'case_sensitive', 'source'}
_SKIP_NODE = {'source', '_source', 'label_source'}


def esnap(e):
    """snapshot of an expression tree"""
    # pylint: disable=import-outside-toplevel
    if e is None or isinstance(e, (bool, int, float)):
        return e
    if isinstance(e, str):
        return ('s', e.lower())
    if isinstance(e, (tuple, list)):
        return tuple(esnap(x) for x in e)
    if isinstance(e, dict):
        return ('dict',) + tuple((esnap(k), esnap(v)) for k, v in e.items())
    names = getattr(e, 'init_arg_names', None)
    cls = type(e).__name__
    if names is None:
        if dataclasses.is_dataclass(e):
            return snap(e)
        return (cls, str(e).lower())
    out = [cls]
    for n in names:
        if n in _SKIP_EXPR:
            continue
        try:
            v = getattr(e, n)
        except Exception:  # pylint: disable=broad-except
            continue
        if n == 'name' and isinstance(v, str):
            out.append(('name', v.lower()))
        elif n == 'value' and cls in ('FloatLiteral',):
            out.append(('value', str(v).lower()))
        elif n == 'value' and cls in ('StringLiteral', 'IntrinsicLiteral'):
            out.append(('value', v))
        else:
            out.append((n, esnap(v)))
    return tuple(out)


def snap(node, keep_trailing_blank=True):
    """snapshot of an IR node / tuple of nodes"""
    if node is None or isinstance(node, (bool, int, float)):
        return node
    if isinstance(node, str):
        return ('s', node)
    if isinstance(node, (tuple, list)):
        items = list(node)
        if not keep_trailing_blank:
            # blank lines (empty comments) at the very end of a body are not part of the structure
            while items and type(items[-1]).__name__ == 'Comment' and not (getattr(items[-1], 'text', None) or '').strip():
                items.pop()
        return tuple(snap(n, keep_trailing_blank) for n in items)
    if isinstance(node, dict):
        return ('dict',) + tuple((snap(k), snap(v)) for k, v in node.items())
    if dataclasses.is_dataclass(node) and not hasattr(node, 'init_arg_names'):
        out = [type(node).__name__]
        for f in dataclasses.fields(node):
            if f.name in _SKIP_NODE or f.name.startswith('_'):
                continue
            v = getattr(node, f.name, None)
            if f.name == 'symbol_attrs':
                continue
            if f.name == 'parent' or f.name == 'rescope_symbols':
                continue
            out.append((f.name, snap(v, keep_trailing_blank)))
        return tuple(out)
    if hasattr(node, 'init_arg_names'):
        return esnap(node)
    # program units and others
    cls = type(node).__name__
    if cls in ('Subroutine', 'Function', 'Module'):
        return (cls, node.name.lower(), ('spec', snap(getattr(node, 'spec', None), keep_trailing_blank)),
                ('body', snap(getattr(node, 'body', None), keep_trailing_blank)),
                ('contains', snap(getattr(node, 'contains', None), keep_trailing_blank)))
    if cls in ('DerivedType', 'BasicType', 'ProcedureType', 'SymbolAttributes'):
        return (cls, str(node).lower())
    return (cls, str(node))


def first_diff(a, b, path=''):
    if type(a) is not type(b):
        return f'{path}: {_short(a)} != {_short(b)}'
    if isinstance(a, tuple):
        if len(a) != len(b):
            # find first differing element for context
            for i, (x, y) in enumerate(zip(a, b)):
                d = first_diff(x, y, f'{path}/{_tag(a)}[{i}]')
                if d:
                    return d
            return f'{path}/{_tag(a)}: length {len(a)} != {len(b)}; extra {_short((a[len(b):] or b[len(a):])[0])}'
        for i, (x, y) in enumerate(zip(a, b)):
            d = first_diff(x, y, f'{path}/{_tag(a)}[{i}]' if i else path)
            if d:
                return d
        return None
    if a != b:
        return f'{path}: {_short(a)} != {_short(b)}'
    return None


def _tag(t):
    return t[0] if t and isinstance(t[0], str) else ''


def _short(x):
    s = repr(x)
    return s if len(s) < 160 else s[:157] + '...'
