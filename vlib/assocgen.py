"""
ASSOCIATE-centred program generator for C29 (associate resolution / merging preserves behaviour).

``AssocGen(rng, flags).generate()`` returns a fgenlab ``Case`` whose kernel is a ProgGen kernel in which ASSOCIATE
blocks (nested up to ``max_depth``) bind scalars, derived-type components (two nesting levels: ``t1%p``,
``o1%t%q``), array elements, whole arrays (also with lower bound /= 1) and full-extent array sections.  Inside a
block the associate names are ordinary variables of the generator's environment, so that every statement
generator of ProgGen (assignments, loops, WHERE, sections, reductions, calls, nested associates) uses them: as
assignment targets, operands, subscripts (``a2(1 + mod(abs(idx), n))``) and actual arguments.

Supported-by-design features (always on): nesting, selectors built from outer associate names, shadowing of an
outer associate name, names equal to host variables, read-only expression selectors over intent(in) data,
associates around loops and calls.

Hazards (each behind its own flag; at most one per case):
  section_lb        section selector that does not start at the lower bound 1 (``a2(2:n)``, ``d1(:)`` with d1(0:..))
  partial_range     partial section selector (``a2(1:k)``) referenced as ``z(:)``
  modified_operand  selector whose subscript / operand is modified inside the block
  merge_dep_sub     inner selector whose subscript is an associate name of the parent block         (merge)
  merge_loop_between  inner selector that depends on a loop variable of a loop between parent and child  (merge)
  merge_name_clash  inner associate name that is also used as a host variable in the parent block    (merge)
  merge_expr_selector  expression selector in a nested block                                        (merge)
  merge_all_moved   nested block all of whose associations are independent of the parent block       (merge)
"""
import re
from vlib.fgenlab import ProgGen, Var, Case

HAZARDS = ('section_lb', 'partial_range', 'modified_operand', 'merge_dep_sub', 'merge_loop_between',
           'merge_name_clash', 'merge_expr_selector', 'merge_all_moved')

ASSOC_FLAGS = dict(merge_safe=False, shadowing=True, host_names=True, expr_selectors=True, assoc_density=0.35,
                   **{h: False for h in HAZARDS})


class AssocGen(ProgGen):

    def __init__(self, rng, flags=None):
        f = dict(ASSOC_FLAGS)
        f.update(dict(io_in_kernel=False, mixed_case=False, named_cycle_exit=False, double_not=False,
                      associate=True, associate_expr_complex=False, internal=True, functions=True, calls=True,
                      max_stmts=9, max_depth=4, expr_depth=2, overlap=False, kinds_module=True, derived=True))
        if flags:
            f.update(flags)
        super().__init__(rng, f)
        self.depth_assoc = 0
        self.max_assoc_depth = 0
        self.nassoc = 0
        self.names_used = set()
        self.parent_names = []      # stack: names bound by enclosing associates (innermost last)
        self.loopmark = []          # len(env.loopvars) at entry of each enclosing associate
        self._top_seen = False

    # ------------------------------------------------------------------ variables
    def _setup_vars(self):
        super()._setup_vars()
        env = self.env
        if not self.has_derived:
            self.has_derived = True
            self.features.add('derived_type')
            env.add(Var('p', 'real', derived_of='t1'))
            env.add(Var('q', 'real', 1, (('1', '5', 5),), derived_of='t1'))
            env.add(Var('kk', 'int', derived_of='t1'))
        # second derived type with a nested component: o1%t%p, o1%t%q(5), o1%t%kk, o1%r(3)
        env.add(Var('p', 'real', derived_of='o1%t'))
        env.add(Var('q', 'real', 1, (('1', '5', 5),), derived_of='o1%t'))
        env.add(Var('kk', 'int', derived_of='o1%t'))
        env.add(Var('r', 'real', 1, (('1', '3', 3),), derived_of='o1'))

    # ------------------------------------------------------------------ helpers
    def _root(self, v):
        if v.kind and v.kind.startswith('alias:'):
            return v.kind[6:]
        return (v.derived_of or v.name).split('%')[0]

    def _fresh(self, base):
        k = 0
        while True:
            nm = f'{base}{self.nassoc}{k}'
            if nm not in self.names_used:
                self.names_used.add(nm)
                return nm
            k += 1

    def _inv_subscript(self, size):
        """subscript text in 1..size that cannot change inside the block"""
        rng, f, env = self.rng, self.flags, self.env
        opts = ['1', str(size)]
        if isinstance(size, int):
            opts = [str(rng.randint(1, size))]
        else:
            opts.append(f'1 + mod(abs(i1), {size})')
            if not f['merge_safe']:
                opts += [lv for lv, sz in env.loopvars if sz == size]
                # associate names / host integers that are read-only in this block
                for v in env.scalars('int'):
                    if v.intent == 'in' and v.name not in ('n', 'm', 'i1') and v.kind and v.kind.startswith('alias:'):
                        opts.append(f'1 + mod(abs({v.ref}), {size})')
        return rng.choice(opts)

    def _elem_inv(self, v):
        subs = []
        for lo, up, size in v.dims:
            s = self._inv_subscript(size)
            off = int(lo) - 1
            if off:
                s = f'{s} + {off}' if off > 0 else f'{s} - {-off}'
            subs.append(s)
        return f"{v.ref}({', '.join(subs)})"

    # ------------------------------------------------------------------ the associate statement
    def stmt_associate(self, ind, depth, loop_label=None):
        env, rng, f = self.env, self.rng, self.flags
        self.features.add('associate')
        self.nassoc += 1
        items = []       # (name, selector text)
        newvars = []     # temporary Vars visible inside the block
        hidden = []      # host / outer variables shadowed by a name of this block
        hazard_post = []  # statements placed at the start of the body (hazards)
        taken = set()
        nsel = rng.randint(1, 4)

        def pick_name(typ, rank):
            """associate name: fresh, equal to a host scalar of the same type, or shadowing an outer associate name"""
            c = rng.random()
            if rank == 0 and not f['merge_safe']:
                if f['host_names'] and c < 0.2:
                    cands = [v for v in env.scalars(typ) if not v.derived_of and v.intent != 'in'
                             and v.name not in env.readonly and v.name not in ('n', 'm') and v.name not in taken
                             and not (v.kind or '').startswith('alias:') and v.name not in self._locked()]
                    if cands:
                        hv = rng.choice(cands)
                        self.features.add('name_equals_host_variable')
                        return hv.name, hv
                if f['shadowing'] and c < 0.4:
                    cands = [v for v in env.scalars(typ) if (v.kind or '').startswith('alias:') and v.name not in taken
                             and v.name not in self._locked()]
                    if cands:
                        hv = rng.choice(cands)
                        self.features.add('shadowing')
                        return hv.name, hv
            nm = self._fresh('z' if rank == 0 else 'y')
            return nm, None

        if f['merge_safe'] and self.parent_names and not f['merge_all_moved']:
            # anchor: one association whose selector is a name of the parent block is never moved by the merge, so
            # the block cannot end up as 'ASSOCIATE ()' (known defect, exercised in the slice 'merge_all_moved')
            pv = [v for v in env.vars if v.name in self.parent_names[-1] and (v.kind or '').startswith('alias:')]
            if pv:
                tv = rng.choice(pv)
                nm = self._fresh('za' if tv.rank == 0 else 'ya')
                items.append((nm, tv.name))
                newvars.append(Var(nm, tv.typ, tv.rank, tv.dims, intent=tv.intent, bound=tv.bound, kind=tv.kind))
                taken.add(nm)
                self.features.add('selector_is_outer_associate_name')
        elif f['merge_all_moved'] and self.parent_names:
            self.features.add('hazard_merge_all_moved')
        for _ in range(nsel):
            kind = rng.choice(['scalar', 'scalar', 'comp', 'elem', 'array', 'array', 'section', 'expr', 'idx'])
            sel, var = None, None
            if kind in ('scalar', 'comp', 'idx'):
                typ = 'int' if kind == 'idx' else rng.choice(['real', 'real', 'int'])
                cands = [v for v in env.scalars(typ) if v.name not in ('n', 'm') and v.name not in taken
                         and v.name not in env.readonly and (kind != 'comp' or v.derived_of)]
                if not cands:
                    continue
                tv = rng.choice(cands)
                nm, hv = pick_name(typ, 0)
                if hv is tv:
                    continue
                sel = tv.ref
                var = Var(nm, typ, intent=tv.intent if tv.intent == 'in' else None, bound=tv.bound,
                          kind='alias:' + self._root(tv))
                if tv.derived_of:
                    self.features.add('selector_component')
                if (tv.kind or '').startswith('alias:'):
                    self.features.add('selector_is_outer_associate_name')
                if kind == 'idx':
                    self.features.add('int_associate_name')
            elif kind == 'elem':
                arrs = [v for v in env.arrays('real') if v.name not in taken]
                if not arrs:
                    continue
                tv = rng.choice(arrs)
                nm, hv = pick_name('real', 0)
                sel = self._elem_inv(tv)
                if hv is not None and hv.name in sel:
                    continue
                var = Var(nm, 'real', intent='in' if (tv.intent == 'in' or tv.name in env.readonly) else None,
                          kind='alias:' + self._root(tv))
                self.features.add('selector_array_element')
                if (tv.kind or '').startswith('alias:'):
                    self.features.add('selector_is_outer_associate_name')
            elif kind == 'array':
                arrs = [v for v in env.arrays('real', rank=1) if v.name not in taken]
                if not arrs:
                    continue
                tv = rng.choice(arrs)
                nm, hv = pick_name('real', 1)
                sel = tv.ref
                var = Var(nm, 'real', 1, tv.dims, intent='in' if (tv.intent == 'in' or tv.name in env.readonly) else 'inout',
                          kind='alias:' + self._root(tv))
                self.features.add('selector_whole_array')
                if tv.dims[0][0] != '1':
                    self.features.add('selector_whole_array_lbound')
                if tv.derived_of:
                    self.features.add('selector_component_array')
                if (tv.kind or '').startswith('alias:'):
                    self.features.add('selector_is_outer_associate_name')
            elif kind == 'section':
                a1 = [v for v in env.arrays('real', rank=1) if v.dims[0][0] == '1' and v.name not in taken]
                a2 = [v for v in env.arrays('real', rank=2) if v.name not in taken]
                c = rng.random()
                nm, hv = pick_name('real', 1)
                if a2 and c < 0.5:
                    tv = rng.choice(a2)
                    if rng.random() < 0.6:
                        j = self._inv_subscript('m')
                        sel = f"{tv.ref}({rng.choice([':', '1:n'])}, {j})"
                        dims = (('1', 'n', 'n'),)
                    else:
                        i = self._inv_subscript('n')
                        sel = f"{tv.ref}({i}, {rng.choice([':', '1:m'])})"
                        dims = (('1', 'm', 'm'),)
                    self.features.add('selector_section_2d')
                elif a1:
                    tv = rng.choice(a1)
                    lo, up, size = tv.dims[0]
                    sel = f"{tv.ref}({rng.choice([':', '1:' + str(up)])})"
                    dims = tv.dims
                    self.features.add('selector_section_1d')
                else:
                    continue
                var = Var(nm, 'real', 1, dims, intent='in' if (tv.intent == 'in' or tv.name in env.readonly) else 'inout',
                          kind='alias:' + self._root(tv))
                if (tv.kind or '').startswith('alias:'):
                    self.features.add('selector_is_outer_associate_name')
            elif kind == 'expr' and f['expr_selectors'] and not (f['merge_safe'] and self.depth_assoc >= 1):
                # read-only expression over intent(in) data only: its value cannot change inside the block
                ro = [v.ref for v in env.scalars('real') if v.intent == 'in' and not (v.kind or '').startswith('alias:')]
                if not ro:
                    continue
                nm = self._fresh('ze')
                a, b = rng.choice(ro), rng.choice(ro)
                sel = rng.choice([f'{a} + {b}*{self.ex.rlit()}', f'{a}*{self.ex.rlit()} - {b}', f'sin({a}) + {self.ex.rlit()}',
                                  f'{a} / (1.0_{self.rk} + abs({b}))', f'max({a}, {b})**2'])
                var = Var(nm, 'real', intent='in', kind='alias:#expr')
                hv = None
                self.features.add('selector_expression')
            if sel is None:
                continue
            if hv is not None:
                hidden.append(hv)
            taken.add(var.name)
            items.append((var.name, sel))
            newvars.append(var)

        # ---- hazards
        if f['section_lb']:
            cand = [v for v in env.arrays('real', rank=1) if v.dims[0][2] == 'n' and not (v.kind or '').startswith('alias:')]
            lbv = [v for v in cand if v.dims[0][0] != '1']
            if lbv and rng.random() < 0.5:
                tv = rng.choice(lbv)
                nm = self._fresh('yh')
                items.append((nm, f'{tv.ref}(:)'))
                newvars.append(Var(nm, 'real', 1, (('1', 'n', 'n'),), 'in' if tv.intent == 'in' else 'inout',
                                   kind='alias:' + self._root(tv)))
                self.features.add('hazard_section_lb')
            elif [v for v in cand if v.dims[0][0] == '1']:
                tv = rng.choice([v for v in cand if v.dims[0][0] == '1'])
                nm = self._fresh('yh')
                # the name is only used in the guarded statement placed at the start of the body
                items.append((nm, f'{tv.ref}(2:n)'))
                hazard_post.append(('elem1', nm, tv))
                self.features.add('hazard_section_lb')
        if f['partial_range']:
            cand = [v for v in env.arrays('real', rank=1, writable=True) if v.dims[0][2] == 'n' and v.dims[0][0] == '1'
                    and not (v.kind or '').startswith('alias:') and v.name not in env.readonly]
            if cand:
                tv = rng.choice(cand)
                nm = self._fresh('yp')
                items.append((nm, f'{tv.ref}(1:min(n, 2))'))
                hazard_post.append(('range', nm, tv))
                self.features.add('hazard_partial_range')
        if f['modified_operand']:
            ints = [v for v in env.scalars('int', writable=True) if not v.derived_of and v.name not in env.readonly
                    and v.name not in ('n', 'm') and not (v.kind or '').startswith('alias:') and v.name not in taken
                    and v.name not in self._locked()]
            arrs = [v for v in env.arrays('real', rank=1) if v.dims[0][2] == 'n' and v.dims[0][0] == '1'
                    and not (v.kind or '').startswith('alias:')]
            if ints and arrs:
                iv, tv = rng.choice(ints), rng.choice(arrs)
                nm = self._fresh('zm')
                items.append((nm, f'{tv.ref}(1 + mod(abs({iv.name}), n))'))
                hazard_post.append(('modsub', nm, iv))
                newvars.append(Var(nm, 'real', intent='in', kind='alias:' + self._root(tv)))
                self.features.add('hazard_modified_operand')
        if self.parent_names and f['merge_dep_sub']:
            pints = [v for v in env.scalars('int') if v.name in self.parent_names[-1]]
            arrs = [v for v in env.arrays('real', rank=1) if v.dims[0][2] == 'n' and v.dims[0][0] == '1'
                    and not (v.kind or '').startswith('alias:')]
            if pints and arrs:
                iv, tv = rng.choice(pints), rng.choice(arrs)
                nm = self._fresh('zd')
                items.append((nm, f'{tv.ref}(1 + mod(abs({iv.name}), n))'))
                newvars.append(Var(nm, 'real', intent='in', kind='alias:' + self._root(tv)))
                self.features.add('hazard_merge_dep_sub')
        if self.parent_names and f['merge_expr_selector']:
            ro = [v.ref for v in env.scalars('real') if v.intent == 'in' and not (v.kind or '').startswith('alias:')]
            if ro:
                nm = self._fresh('ze')
                items.append((nm, f'{rng.choice(ro)}*{self.ex.rlit()} + {rng.choice(ro)}'))
                newvars.append(Var(nm, 'real', intent='in', kind='alias:#expr'))
                self.features.add('hazard_merge_expr_selector')
        if self.parent_names and f['merge_loop_between'] and env.loopvars[self.loopmark[-1]:]:
            lv, size = env.loopvars[-1]
            arrs = [v for v in env.arrays('real', rank=1) if v.dims[0][2] == size and v.dims[0][0] == '1'
                    and not (v.kind or '').startswith('alias:')]
            if arrs:
                tv = rng.choice(arrs)
                nm = self._fresh('zl')
                items.append((nm, f'{tv.ref}({lv})'))
                newvars.append(Var(nm, 'real', intent='in', kind='alias:' + self._root(tv)))
                self.features.add('hazard_merge_loop_between')
        if self.parent_names and f['merge_name_clash'] and self._clash_candidates:
            hv = self._clash_candidates[-1]
            if hv is not None and hv.name not in taken:
                src = [v for v in env.scalars('real') if v.intent == 'in' and not (v.kind or '').startswith('alias:')]
                if src:
                    items.append((hv.name, rng.choice(src).ref))
                    newvars.append(Var(hv.name, 'real', intent='in', kind='alias:#clash'))
                    hidden.append(hv)
                    taken.add(hv.name)
                    self.features.add('hazard_merge_name_clash')
        if not items:
            return self.stmt_assign(ind)

        # ---- body
        saved = list(env.vars)
        env.vars = [v for v in env.vars if not any(v is h for h in hidden)] + newvars
        self.depth_assoc += 1
        self.max_assoc_depth = max(self.max_assoc_depth, self.depth_assoc)
        self.parent_names.append({nm for nm, _ in items})
        self.loopmark.append(len(env.loopvars))
        # a host scalar that the parent block uses before the child block (merge_name_clash)
        clash = None
        pre = []
        if f['merge_name_clash'] and self.depth_assoc == 1:
            cands = [v for v in env.scalars('real', writable=True) if not v.derived_of and v.name not in env.readonly
                     and not (v.kind or '').startswith('alias:')]
            if cands:
                clash = rng.choice(cands)
                pre.append(f'{ind}  {clash.name} = {self.ex.damp(clash.name + " + " + self.ex.rlit())}')
        self._clash_stack.append(clash)
        for hz in hazard_post:
            if hz[0] == 'elem1':
                _, nm, tv = hz
                sc = [v for v in env.scalars('real', writable=True) if v.name not in env.readonly]
                if sc:
                    s = rng.choice(sc)
                    pre.append(f'{ind}  if (n > 1) {s.ref} = {self.ex.damp(s.ref + " + " + nm + "(1)")}')
            elif hz[0] == 'range':
                _, nm, tv = hz
                pre.append(f'{ind}  {nm}(:) = {nm}(:)*0.5_{self.rk} + {self.ex.rlit()}')
            elif hz[0] == 'modsub':
                _, nm, iv = hz
                sc = [v for v in env.scalars('real', writable=True) if v.name not in env.readonly]
                pre.append(f'{ind}  {iv.name} = mod({iv.name} + 1, 7)')
                if sc:
                    s = rng.choice(sc)
                    pre.append(f'{ind}  {s.ref} = {self.ex.damp(s.ref + " + " + nm)}')
        body = self.block(ind + '  ', depth - 1, rng.randint(1, 4), loop_label)
        if pre and clash is not None:
            body = body + [f'{ind}  {clash.name} = {self.ex.damp(clash.name + "*" + self.ex.rlit())}']
        self._clash_stack.pop()
        self.loopmark.pop()
        self.parent_names.pop()
        self.depth_assoc -= 1
        env.vars = saved
        hdr = ', '.join(f'{nm} => {sel}' for nm, sel in items)
        return [f'{ind}associate ({hdr})'] + pre + body + [f'{ind}end associate']

    _clash_stack = []

    @property
    def _clash_candidates(self):
        return [c for c in self._clash_stack if c is not None]

    def _locked(self):
        """names that must not be rebound: loop variables and DO WHILE counters currently in use"""
        return {lv for lv, _ in self.env.loopvars} | set(self.env.readonly)

    # ------------------------------------------------------------------ statements that need alias awareness
    def stmt_while(self, ind, depth):
        # DO WHILE counters are plain host integers (ProgGen picks names starting with 'j'); an associate name that
        # shadows such a host name must not be taken as counter
        cnt = [v for v in self.env.scalars('int', writable=True) if v.name.startswith('j') and v.name not in self.env.readonly]
        if not cnt or (cnt[0].kind or '').startswith('alias:') or \
                any(v.kind == 'alias:' + cnt[0].name for v in self.env.vars):
            # the counter must not be reachable through an associate name (the loop body could change it)
            return self.stmt_assign(ind)
        return super().stmt_while(ind, depth)

    def stmt_idx_use(self, ind):
        """integer associate name used as a subscript (read and write)"""
        env, rng = self.env, self.rng
        idx = [v for v in env.scalars('int') if (v.kind or '').startswith('alias:')]
        arrs = [v for v in env.arrays('real', rank=1) if not isinstance(v.dims[0][2], int)]
        if not idx or not arrs:
            return self.stmt_assign(ind)
        self.features.add('associate_name_as_subscript')
        iv, a = rng.choice(idx), rng.choice(arrs)
        lo, up, size = a.dims[0]
        off = int(lo) - 1
        sub = f'1 + mod(abs({iv.ref}), {size})' + (f' + {off}' if off > 0 else (f' - {-off}' if off < 0 else ''))
        ref = f'{a.ref}({sub})'
        wr = a.intent != 'in' and a.name not in env.readonly
        if wr and rng.random() < 0.5:
            return [f'{ind}{ref} = {self.ex.damp(ref + " + " + self.ex.real_expr(env, 1))}']
        tgt, _ = self._assign_target('real')
        return [f'{ind}{tgt} = {self.ex.damp(ref + "*" + self.ex.rlit() + " + " + self.ex.real_expr(env, 1))}']

    def stmt_call(self, ind):
        """calls with associate names as actual arguments; no two actuals share a root entity"""
        rng, env = self.rng, self.env
        if not self.helper_sigs:
            return self.stmt_assign(ind)
        name, kind = rng.choice(self.helper_sigs)
        self.features.add('call_' + kind)
        if kind in ('sub', 'isub'):
            arrs = [v for v in env.arrays('real', rank=1) if v.dims[0][2] == 'n' and v.dims[0][0] == '1']
            sc = [v for v in env.scalars('real', writable=True) if v.name not in env.readonly]
            rng.shuffle(sc)
            rng.shuffle(arrs)
            for a in arrs:
                ra = self._root(a)
                pick = []
                for s in sc:
                    r = self._root(s)
                    if r != ra and r not in [self._root(x) for x in pick] and r != '#expr' and \
                            not (kind == 'isub' and r in ('s1', 'n')):
                        pick.append(s)
                    if len(pick) == 2:
                        break
                if len(pick) == 2:
                    if any((v.kind or '').startswith('alias:') for v in [a] + pick):
                        self.features.add('associate_name_as_actual')
                    if rng.random() < 0.3:
                        return [f'{ind}call {name}(n, {a.ref}, sout={pick[1].ref}, xio={pick[0].ref})']
                    return [f'{ind}call {name}(n, {a.ref}, {pick[0].ref}, {pick[1].ref})']
            return self.stmt_assign(ind)
        tgt, _ = self._assign_target('real')
        e = self.ex.real_expr(env, 1)
        if re.match(r'^[0-9.]+_?\w*$', e):
            # frontend defect outside C29: 'f(<real literal>, a%b%c)' is read like a complex constant and loses 'a%'
            e = f'({e})'
        i, b = self.ex.int_expr(env, 1)
        if b > 1000:
            i = f'mod({i}, 23)'
        return [f'{ind}{tgt} = {self.ex.damp(f"{name}({e}, {i}) + {self.ex.real_expr(env, 1)}")}']

    def block(self, ind, depth, nstmts, loop_label=None):
        out = []
        top = not self._top_seen
        self._top_seen = True
        for _ in range(nstmts):
            if depth > 0 and self.depth_assoc < 3 and self.rng.random() < self.flags['assoc_density']:
                self.stmt_count += 1
                out += self.stmt_associate(ind, depth, loop_label)
            elif self.depth_assoc > 0 and self.rng.random() < 0.15:
                self.stmt_count += 1
                out += self.stmt_idx_use(ind)
            else:
                out += super().block(ind, depth, 1, loop_label)
        if top:
            # every kernel has at least one ASSOCIATE nest of depth >= 2 (3 when blocks are merged)
            want = 3 if self.flags['merge_safe'] else 2
            dens = self.flags['assoc_density']
            self.flags['assoc_density'] = 0.9
            tries = 0
            while self.max_assoc_depth < want and tries < 4:
                out += self.stmt_associate(ind, max(depth, 3), loop_label)
                tries += 1
            self.flags['assoc_density'] = dens
        return out

    # ------------------------------------------------------------------ assembly: add the second derived type
    def generate(self):
        self._clash_stack = []
        case = super().generate()
        rk = self.rk
        u = case.units
        tdef = (f'  type :: otype\n    type(ttype) :: t\n    real(kind={rk}) :: r(3)\n  end type otype\n')
        u = u.replace('  end type ttype\n', '  end type ttype\n' + tdef, 1)
        u = re.sub(r'(subroutine kern\([^)]*)\)', r'\1, o1)', u, count=1)
        u = u.replace('    type(ttype), intent(inout) :: t1\n', '    type(ttype), intent(inout) :: t1\n'
                      '    type(otype), intent(inout) :: o1\n', 1)
        d = case.driver
        d = d.replace('  type(ttype) :: t1\n', '  type(ttype) :: t1\n  type(otype) :: o1\n', 1)
        fill = (f'  o1%t%p = 0.5_{rk}*real(sd, {rk}) - 1.0_{rk}\n  do i = 1, 5\n    o1%t%q(i) = sin(real(2*i + sd, {rk}))\n  end do\n'
                f'  o1%t%kk = sd + 1\n  do i = 1, 3\n    o1%r(i) = cos(real(3*i + sd, {rk}))\n  end do\n')
        d = re.sub(r'(  call kern\([^)]*)\)', lambda mo: fill + mo.group(1) + ', o1)', d, count=1)
        prt = ("  print '(A,ES24.15)', 'o1%t%p ', o1%t%p\n  do i = 1, 5\n    print '(A,I0,ES24.15)', 'o1%t%q ', i, o1%t%q(i)\n  end do\n"
               "  print '(A,I0)', 'o1%t%kk ', o1%t%kk\n  do i = 1, 3\n    print '(A,I0,ES24.15)', 'o1%r ', i, o1%r(i)\n  end do\n")
        d = d.replace('end program main', prt + 'end program main', 1)
        case.units, case.driver = u, d
        case.meta['max_assoc_depth'] = self.max_assoc_depth
        case.meta['nassoc'] = self.nassoc
        return case
