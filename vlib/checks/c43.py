"""C43 -- lint auto-fix changes only what the fixed rules target."""
import difflib
import os
import re
import shutil
from collections import Counter
from pathlib import Path

from vlib import diffexec, parlab
from vlib.checks.c42 import parse_junit
from vlib.core import sighash

PID = 'C43'
LEVEL = 'exploration'
TECHNIQUE = 'reference-model text oracle + re-lint + differential execution of original and fixed program'
LEVEL_TEXT = ('generated free-form kernels with violations of the fixable rules are fixed by the real '
              'lint_files(fix=True); the fixed file is compared statement-by-statement (tokens, strings, comments) '
              'with the file the generator expects, re-linted, and compiled and run next to the original '
              '(gfortran -fcheck=all, sanitizers) on several dimension sets')
LEVEL_NOTE = ('expected text comes from the generator (which knows the targeted UBOUND checks and declarations); '
              'actual arguments have exactly the checked extents, so removing the checks preserves behaviour; '
              'gfortran 12 -O0 is the reference semantics')
RULE = ('kernels (free subroutines, a slice inside modules) with assumed-shape arguments whose extents are tested by '
        'UBOUND checks (separate / combined / reversed / partial / mixed case), mixed with loops, block IFs, '
        'continuation lines, comments, strings that contain operator and UBOUND look-alikes, further routines in '
        'the file; slices add old-style relational operators (lower / upper / mixed case, next to .eqv./.not.), '
        'inline IF/WHERE, continued block headers, ";"-separated statements and other block constructs. '
        'Non-trivial = the check run reported a fixable violation, the fix changed the file and all three lint runs '
        'finished; distinct = hash of the generated sources.')
CASES = {'quick': 80, 'thorough': 1600}
MIN_NONTRIVIAL = {'quick': 30, 'thorough': 800}
ANCHORS = []
REQUIRED_COUNTERS = {'files_fixed': 15, 'statements_compared': 400, 'program_runs': 30}
ASSUMPTIONS = ['actual arguments have exactly the extents tested by the removed UBOUND checks',
               'interface blocks seen by the caller are regenerated from the fixed source (as IFS does)',
               'real outputs compared to relative 1e-11']
BUDGET_S = {'quick': 900, 'thorough': 3600}
CASE_TIMEOUT_S = 1500
WATCHDOG_S = {'quick': 3600, 'thorough': 9000}
MAX_INCONCLUSIVE_FRAC = 0.2    # job timeouts on a loaded machine are environmental
FIXABLE = ('Fortran90OperatorsRule', 'DynamicUboundCheckRule')

F77_TO_F90 = {'.eq.': '==', '.ne.': '/=', '.gt.': '>', '.lt.': '<', '.ge.': '>=', '.le.': '<='}


# --------------------------------------------------------------------------
# free-form Fortran statement splitter / normaliser (harness side, no Loki)
# --------------------------------------------------------------------------

def _split_comment(line):
    """-> (code, comment or None); '!' inside a character literal does not start a comment"""
    q = None
    for i, ch in enumerate(line):
        if q:
            if ch == q:
                q = None
        elif ch in '\'"':
            q = ch
        elif ch == '!':
            return line[:i], line[i + 1:]
    return line, None


def _norm_code(code):
    """lower-case and remove blanks outside character literals; map old-style operators"""
    out, q, buf = [], None, []

    def flush():
        s = ''.join(buf).lower()
        s = re.sub(r'\s+', '', s)
        for a, b in F77_TO_F90.items():
            s = s.replace(a, b)
        out.append(s)
        buf.clear()
    for ch in code:
        if q:
            out.append(ch)
            if ch == q:
                q = None
        elif ch in '\'"':
            flush()
            q = ch
            out.append(ch)
        else:
            buf.append(ch)
    flush()
    return ''.join(out)


def _split_semicolon(code):
    parts, q, cur = [], None, []
    for ch in code:
        if q:
            cur.append(ch)
            if ch == q:
                q = None
        elif ch in '\'"':
            q = ch
            cur.append(ch)
        elif ch == ';':
            parts.append(''.join(cur))
            cur = []
        else:
            cur.append(ch)
    parts.append(''.join(cur))
    return parts


def statements(text):
    """-> (list of normalised statements, list of comment texts)"""
    stmts, comments = [], []
    pending = None
    for line in text.splitlines():
        code, com = _split_comment(line)
        if com is not None:
            comments.append(com.strip())
        c = code.strip()
        if pending is not None:
            if c.startswith('&'):
                c = c[1:]
            c = pending + ' ' + c
            pending = None
        if not c.strip():
            if com is None or not code.strip():
                continue
        if c.rstrip().endswith('&'):
            pending = c.rstrip()[:-1]
            continue
        for part in _split_semicolon(c):
            n = _norm_code(part)
            if n:
                stmts.append(n)
    if pending:
        stmts.append(_norm_code(pending) + '&<dangling-continuation>')
    return stmts, comments


_DECL = re.compile(r'^(integer|real|logical|character|doubleprecision|complex|type\()')


def _top_split(s, sep=','):
    parts, depth, cur, q = [], 0, [], None
    for ch in s:
        if q:
            cur.append(ch)
            if ch == q:
                q = None
            continue
        if ch in '\'"':
            q = ch
        elif ch in '([':
            depth += 1
        elif ch in ')]':
            depth -= 1
        if ch == sep and depth == 0:
            parts.append(''.join(cur))
            cur = []
        else:
            cur.append(ch)
    parts.append(''.join(cur))
    return parts


def canon_decl(stmt):
    """normalised declaration statement -> list of (name, type, attrs, dims, init) or None"""
    if not _DECL.match(stmt) or '::' not in stmt:
        return None
    left, right = stmt.split('::', 1)
    lp = _top_split(left)
    typ, attrs, ddims = lp[0], [], None
    for a in lp[1:]:
        if a.startswith('dimension('):
            ddims = a[len('dimension('):-1]
        else:
            attrs.append(a)
    out = []
    for ent in _top_split(right):
        init = None
        if '=' in ent and '(' not in ent.split('=')[0][-1:]:
            pos = ent.find('=')
            if ent.find('(') == -1 or ent.find('(') > pos or ent.rfind(')') < pos:
                ent, init = ent[:pos], ent[pos:]
        m = re.match(r'^(\w+)(\((.*)\))?$', ent)
        if not m:
            out.append((ent, typ, tuple(sorted(attrs)), ddims, init))
            continue
        out.append((m.group(1), typ, tuple(sorted(attrs)), m.group(3) if m.group(2) else ddims, init))
    return out


def canon_program(text):
    """-> (ordered list of items, comments); declarations are exploded per variable"""
    stmts, comments = statements(text)
    items = []
    for s in stmts:
        d = canon_decl(s)
        if d is None:
            items.append(('stmt', s))
        else:
            items += [('decl',) + e for e in d]
    return items, comments


# --------------------------------------------------------------------------
# workload generator
# --------------------------------------------------------------------------

DIMS = ['klon', 'klev', 'nblk']


def _case(rng, word, p=0.25):
    if rng.random() < p:
        return ''.join(c.upper() if rng.random() < 0.5 else c for c in word)
    return word


class KernelGen:
    def __init__(self, rng, name, flags):
        self.rng, self.name, self.f = rng, name, flags
        self.features = set()

    def op(self, new):
        """relational operator token according to the old-style flags"""
        f = self.f
        if f.get('f77') and self.rng.random() < 0.7:
            old = {v: k for k, v in F77_TO_F90.items()}[new]
            if f['f77'] == 'upper':
                old = old.upper()
            elif f['f77'] == 'mixed' and self.rng.random() < 0.5:
                old = old.upper()
            self.features.add('old_style_operator_' + f['f77'])
            return f' {old} '
        return f' {new} ' if self.rng.random() < 0.8 else new

    def generate(self):
        rng, f = self.rng, self.f
        narr = rng.randrange(2, 5)
        arrays = []
        for a in range(narr):
            rank = rng.choice([1, 2, 2, 3])
            dims = DIMS[:rank] if rng.random() < 0.7 else sorted(rng.sample(DIMS, rank), key=DIMS.index)
            mode = rng.choice(['separate', 'separate', 'combined', 'partial', 'none', 'explicit'])
            if a == 0 and mode in ('partial', 'none', 'explicit'):
                mode = rng.choice(['separate', 'combined'])
            if mode == 'partial' and rank == 1:
                mode = 'none'
            arrays.append({'name': f'var{a}', 'rank': rank, 'dims': dims, 'mode': mode})
        self.arrays = arrays
        fixed = [a for a in arrays if a['mode'] in ('separate', 'combined')]
        name = self.name
        args = DIMS + [a['name'] for a in arrays] + ['res']
        ind = '' if rng.random() < 0.5 else '  '
        head = [f'subroutine {name}({", ".join(args)})']
        if rng.random() < 0.5:
            head = [f'subroutine {name}({", ".join(args[:4])}, &', f'  & {", ".join(args[4:])})']
            self.features.add('continued_subroutine_statement')
        O, E = [], []     # original / expected lines

        def both(*lines):
            O.extend(lines)
            E.extend(lines)
        if rng.random() < 0.4:
            both(f'! kernel {name}: checks like ubound(var0, 1) < klon .or. x .gt. y are removed by the fixer')
            self.features.add('lookalike_in_comment')
        both(*head)
        both(f'{ind}implicit none')
        both(f'{ind}integer, intent(in) :: {", ".join(DIMS)}   ! dims')
        # declarations: group arrays of equal rank in dimension(...) style with probability
        todo = list(arrays)
        while todo:
            a = todo.pop(0)
            colons = ','.join(':' * a['rank'])
            if a['mode'] == 'explicit':
                both(f'{ind}real, intent(inout) :: {a["name"]}({", ".join(a["dims"])})')
                continue
            group = [a]
            if rng.random() < 0.5:
                group += [b for b in todo if b['rank'] == a['rank'] and b['mode'] != 'explicit'][:1]
                for b in group[1:]:
                    todo.remove(b)
            if rng.random() < 0.5:
                O.append(f'{ind}real, dimension({colons}), intent(inout) :: {", ".join(b["name"] for b in group)}')
                self.features.add('dimension_attribute')
            else:
                O.append(f'{ind}real, intent(inout) :: ' + ', '.join(f'{b["name"]}({colons})' for b in group))
            if len(group) > 1:
                self.features.add('grouped_declaration')
            if any(b in fixed for b in group):
                for b in group:
                    d = ', '.join(b['dims']) if b in fixed else ', '.join(':' * b['rank'])
                    E.append(f'{ind}real, intent(inout) :: {b["name"]}({d})')
            else:
                E.append(O[-1])
        both(f'{ind}real, intent(out) :: res')
        both(f'{ind}integer :: i, j, k   ! loop indices')
        both(f'{ind}character(len=40) :: msg')
        both('')
        if rng.random() < 0.5:
            both(f"{ind}msg = 'ubound(var0, 1) < klon'   ! a string, not a check")
            self.features.add('lookalike_in_string')
        else:
            both(f"{ind}msg = 'ok'")
        # the checks
        for a in arrays:
            if a['mode'] in ('none', 'explicit'):
                continue
            checks = []
            dims = list(enumerate(a['dims']))
            if a['mode'] == 'partial':
                dims = dims[:-1] if rng.random() < 0.5 else dims[1:]
            for d, dn in dims:
                ub = f'{_case(rng, "ubound")}({_case(rng, a["name"])}, {d + 1})'
                checks.append(f'{ub} < {dn}' if rng.random() < 0.6 else f'{dn} > {ub}')
            blocks = []
            if a['mode'] == 'combined':
                blocks.append(' .or. '.join(checks) if rng.random() < 0.5 else ' .and. '.join(checks))
                self.features.add('combined_check')
            else:
                blocks = checks
            for cond in blocks:
                sp = '' if rng.random() < 0.5 else ' '
                lines = [f'{ind}if{sp}({cond}){sp}then']
                if rng.random() < 0.3:
                    lines.append(f'{ind}  ! too short')
                lines.append(f"{ind}  call abor1('{name}: {a['name']} too short')")
                lines.append(f'{ind}{rng.choice(["endif", "end if", "END IF"])}')
                O.extend(lines)
                if a not in fixed:
                    E.extend(lines)
            if a['mode'] == 'partial':
                self.features.add('partial_check_kept')
        both('')
        both(f'{ind}res = 0.')
        # the body
        body = self.body(ind)
        both(*body)
        both(f"{ind}print *, trim(msg), res")
        if rng.random() < 0.5:
            both(f"{ind}write(*, '(a,f12.4)') 'res .lt. ', res")
            self.features.add('lookalike_in_format_string')
        both(f'end subroutine {name}')
        if rng.random() < 0.3:
            both('', f'subroutine {name}_other(n, x)', '  integer, intent(in) :: n', '  real, intent(inout) :: x(n)   ! explicit',
                 '  if (n > 1) x(1) = 0.', f'end subroutine {name}_other')
            self.features.add('second_routine_in_file')
        self.fixed = fixed
        return O, E

    def ref(self, a, idx=('i', 'j', 'k')):
        m = {'klon': idx[0], 'klev': idx[1], 'nblk': idx[2]}
        return f'{a["name"]}({",".join(m[d] for d in a["dims"])})'

    def body(self, ind):
        rng, f = self.rng, self.f
        L = []
        arrs = [a for a in self.arrays]
        L.append(f'{ind}{_case(rng, "do")} k = 1, nblk')
        L.append(f'{ind}  do j=1,klev')
        if rng.random() < 0.5:
            L.append(f'{ind}    ! inner loop over klon')
        L.append(f'{ind}    {_case(rng, "do")} i = 1,klon')
        p = ind + '      '
        for _ in range(rng.randrange(2, 6)):
            a, b = rng.choice(arrs), rng.choice(arrs)
            c = f'0.{rng.randrange(1, 9)}'
            kind = rng.randrange(7)
            if kind == 0:
                L.append(f'{p}res = res + {self.ref(a)}*{c}')
            elif kind == 1:
                L += [f'{p}res = res + {self.ref(a)} * &', f'{p}   &  {self.ref(b)}   ! accumulate']
                self.features.add('continued_assignment')
            elif kind == 2:
                L += [f'{p}if ({self.ref(a)}{self.op(">")}{c}) then', f'{p}  res = res - {c}   ! minus',
                      f'{p}else if ({self.ref(b)}{self.op("==")}0.) then', f'{p}  res = res * 1.5', f'{p}else',
                      f'{p}  {self.ref(a)} = {self.ref(a)} + {c}', f'{p}end if']
                self.features.add('block_if')
            elif kind == 3:
                L += [f'{p}if ({self.ref(a)}{self.op(">=")}{c} .and. .not. ({self.ref(b)}{self.op("<")}{c})) then',
                      f'{p}  {self.ref(b)} = {self.ref(b)} * 0.5', f'{p}endif']
                self.features.add('block_if')
            elif kind == 4:
                L.append(f'{p}{self.ref(a)} = {self.ref(a)}*0.9 + {c}  ! update')
            elif kind == 5:
                L += [f'{p}if (({self.ref(a)}{self.op("<=")}{c}) .eqv. ({self.ref(b)}{self.op("/=")}{c})) then',
                      f'{p}  res = res + 1.', f'{p}end if']
                self.features.add('eqv_operator')
            else:
                L.append(f"{p}if (res{self.op('>')}1.e6) then")
                L.append(f"{p}  call abor1('res .gt. 1.e6')")
                L.append(f'{p}end if')
                self.features.add('lookalike_in_string')
            if f.get('inline_conditional') and rng.random() < 0.6:
                L.append(f'{p}if ({self.ref(a)} > 0.7) res = res + 0.25   ! inline')
                self.features.add('inline_if')
            if f.get('multiline_header') and rng.random() < 0.6:
                L += [f'{p}if ({self.ref(a)} < 0.2 .and. &', f'{p}  & {self.ref(b)} > 0.1) then',
                      f'{p}  res = res - 0.125', f'{p}end if']
                self.features.add('continued_block_header')
            if f.get('semicolon') and rng.random() < 0.6:
                L.append(f'{p}{self.ref(a)} = {self.ref(a)} + 0.5 ; res = res + 0.0625')
                self.features.add('semicolon_statements')
        L.append(f'{ind}    {_case(rng, "end do")}')
        L.append(f'{ind}  enddo')
        L.append(f'{ind}end do')
        if f.get('inline_conditional'):
            L.append(f'{ind}if (res > 100.) res = 100.')
            if rng.random() < 0.5:
                L.append(f'{ind}where ({arrs[0]["name"]} > 5.) {arrs[0]["name"]} = 5.')
                self.features.add('inline_where')
            self.features.add('inline_if')
        if f.get('string_trap'):
            # a new-style comparison and an old-style look-alike inside a character literal in one statement
            L.append(f"{ind}msg = merge('a .lt. b', 'a .ge. b', res < 1.)")
            self.features.add('old_style_lookalike_in_string_next_to_comparison')
        if f.get('other_blocks'):
            L += [f'{ind}i = 0', f'{ind}do while (i < klon)', f'{ind}  i = i + 1', f'{ind}end do',
                  f'{ind}select case (i)', f'{ind}case (1)', f'{ind}  res = res + 1.', f'{ind}case default',
                  f'{ind}  res = res + 2.', f'{ind}end select',
                  f'{ind}where ({arrs[0]["name"]} > 4.)', f'{ind}  {arrs[0]["name"]} = 4.', f'{ind}elsewhere',
                  f'{ind}  {arrs[0]["name"]} = {arrs[0]["name"]} + 0.125', f'{ind}end where']
            self.features.add('while_select_where_blocks')
        return L

    # interface module and driver --------------------------------------------------------
    def interface(self, fixed_version, in_module):
        if in_module:
            return None
        lines = ['module kern_intf', 'interface', f'subroutine {self.name}({", ".join(DIMS + [a["name"] for a in self.arrays] + ["res"])})',
                 f'integer, intent(in) :: {", ".join(DIMS)}']
        for a in self.arrays:
            explicit = a['mode'] == 'explicit' or (fixed_version and a in self.fixed)
            d = ', '.join(a['dims']) if explicit else ', '.join(':' * a['rank'])
            lines.append(f'real, intent(inout) :: {a["name"]}({d})')
        lines += ['real, intent(out) :: res', f'end subroutine {self.name}', 'end interface', 'end module kern_intf']
        return '\n'.join(lines) + '\n'

    def driver(self, in_module):
        L = ['program drv', f'  use {"kmod" if in_module else "kern_intf"}', '  implicit none',
             '  integer :: klon, klev, nblk, i, j, k', '  real :: res']
        for a in self.arrays:
            L.append(f'  real, allocatable :: {a["name"]}({",".join(":" * a["rank"])})')
        L.append('  read(*,*) klon, klev, nblk')
        for n, a in enumerate(self.arrays):
            L.append(f'  allocate({a["name"]}({",".join(a["dims"])}))')
        L += ['  do k = 1, nblk', '    do j = 1, klev', '      do i = 1, klon']
        for n, a in enumerate(self.arrays):
            L.append(f'        {self.ref(a)} = 0.05 + 0.083*real(mod(i*{7 + n} + j*{3 + 2 * n} + k*5 + {n}, 11))')
        L += ['      end do', '    end do', '  end do']
        L.append(f'  call {self.name}(klon, klev, nblk, {", ".join(a["name"] for a in self.arrays)}, res)')
        L.append("  print '(a,es22.14)', 'res ', res")
        for a in self.arrays:
            L.append(f"  print '(a,es22.14)', '{a['name']} ', sum({a['name']})")
            L.append(f"  print '(6es22.14)', {a['name']}")
        L.append('end program drv')
        return '\n'.join(L) + '\n'


ABOR1 = ("subroutine abor1(msg)\n  character(len=*), intent(in) :: msg\n  print *, 'ABOR1 ', msg\n  stop 3\n"
         "end subroutine abor1\n")


def case_flags(rng, idx):
    s = idx % 16
    f = {}
    if s == 8:
        f['string_trap'] = True
    elif s == 9:
        f['inline_conditional'] = True
    elif s == 10:
        f['multiline_header'] = True
    elif s == 11:
        f['semicolon'] = True
    elif s == 12:
        f['f77'] = 'lower'
    elif s == 13:
        f['f77'] = rng.choice(['upper', 'mixed'])
    elif s == 14:
        f['in_module'] = True
    elif s == 15:
        f['other_blocks'] = True
    return f


# --------------------------------------------------------------------------
# the case
# --------------------------------------------------------------------------

def run_case(idx, rng, tier, ctx):
    wd = ctx['scratch'] / f'c{idx}'
    shutil.rmtree(wd, ignore_errors=True)
    (wd / 'src').mkdir(parents=True)
    try:
        return _run_case(idx, rng, tier, wd)
    finally:
        if not os.environ.get('VERIF_KEEP'):
            shutil.rmtree(wd, ignore_errors=True)


def _symptoms(orig, fixed):
    s = []
    if re.search(r'^\s*(if|where)\s*\(.*\)\s*(if|where)\s*\(', fixed, re.I | re.M):
        s.append('inline-conditional-duplicated')
    if _cont_lost(orig, fixed):
        s.append('continued-block-header-truncated')
    o_semi = Counter(ln.strip() for ln in orig.splitlines() if ';' in _split_comment(ln)[0])
    f_semi = Counter(ln.strip() for ln in fixed.splitlines() if ';' in _split_comment(ln)[0])
    if any(f_semi[k] > o_semi[k] for k in o_semi):
        s.append('semicolon-line-duplicated')
    return s


def _cont_lost(orig, fixed):
    """a continued block header whose continuation line no longer follows it"""
    fl = [ln.strip() for ln in fixed.splitlines()]
    ol = orig.splitlines()
    for i, ln in enumerate(ol[:-1]):
        if re.match(r'^\s*(if|else\s*if)\b', ln, re.I) and _split_comment(ln)[0].rstrip().endswith('&') \
                and re.search(r'\bthen\s*$', _split_comment(ol[i + 1])[0], re.I):
            for k, g in enumerate(fl):
                if g == ln.strip() and (k + 1 >= len(fl) or fl[k + 1] != ol[i + 1].strip()):
                    return True
    return False


def _run_case(idx, rng, tier, wd):
    flags = case_flags(rng, idx)
    name = f'kern{rng.randrange(100, 999)}'
    gen = KernelGen(rng, name, flags)
    O, E = gen.generate()
    in_module = bool(flags.get('in_module'))
    if in_module:
        O = ['module kmod', 'implicit none', 'contains'] + O + ['end module kmod']
        E = ['module kmod', 'implicit none', 'contains'] + E + ['end module kmod']
        gen.features.add('routine_inside_module')
    orig, expected = '\n'.join(O) + '\n', '\n'.join(E) + '\n'
    fname = f'{name}.F90'
    src = wd / 'src'
    (src / fname).write_text(orig)
    # a second, clean file must stay byte-identical
    bystander = ('subroutine bystander(n, x)\n  integer, intent(in) :: n\n  real, intent(inout) :: x(n)\n'
                 f'  if (n > {rng.randrange(9)}) x(1) = 0.   ! keep me\nend subroutine bystander\n')
    (src / 'bystander.F90').write_text(bystander)
    features = set(gen.features) | {f'flag:{k}' for k in flags}
    res = {'sig': sighash(orig), 'nontrivial': False, 'violations': [], 'inconclusive': None, 'counters': Counter(),
           'features': sorted(features)}
    cnt, viol = res['counters'], res['violations']

    def add(key, msg, **extra):
        if any(v['key'] == key for v in viol):
            return
        w = {'file': fname, 'original': orig, 'flags': flags}
        w.update(extra)
        viol.append({'key': key, 'msg': msg, 'witness': w})

    fix_workers = rng.choice([1, 1, 2])
    use_backup = rng.random() < 0.5
    runs = [{'name': 'check', 'workers': 1, 'out': str(wd / 'r_check')},
            {'name': 'fix', 'workers': fix_workers, 'out': str(wd / 'r_fix'), 'fix': True,
             'backup_suffix': '.bak' if use_backup else None},
            {'name': 'relint', 'workers': 1, 'out': str(wd / 'r_relint')}]
    job = {'kind': 'lint', 'basedir': str(src), 'include': ['*.F90'], 'exclude': ['*.bak.F90'], 'rules': list(FIXABLE),
           'runs': runs}
    try:
        results = {r['run']: r for r in parlab.run_job(job, wd / 'job', timeout=900)}
    except (parlab.JobTimeout, parlab.JobCrashed) as e:
        res['inconclusive'] = f'lint job: {e}'
        return res
    fpath = str(src / fname)

    def reports(run):
        j = parlab.read_jsonl(Path(run['out']) / 'junit.jsonl')
        _, per_file = parse_junit(j[0] if j else '')
        return per_file
    for r in runs:
        if results[r['name']]['status'] != 'ok':
            add(f"lint:{r['name']}-run-raised:{results[r['name']].get('exc_type')}",
                f"lint_files raised in the {r['name']} run: {results[r['name']].get('exc_msg')}")
            res['counters'] = dict(cnt)
            return res
    rep_check, rep_fix, rep_relint = (reports(r).get(fpath, {}) for r in runs)
    cnt['lint_runs'] += 3

    def n_fixable(rep):
        return {r: sum(c for _, c in rep.get(r, [])) for r in FIXABLE}

    def errors(rep):
        return {r: m for r, m in rep.items() if not r.endswith('Rule')}
    fixed = (src / fname).read_text()
    has_old_upper = bool(re.search(r'\.(GT|LT|GE|LE|EQ|NE)\.', _strip_strings_comments(orig)))
    # --- the check run
    err = errors(rep_check)
    if err:
        et = sorted(err)[0]
        detail = ':upper-case-old-style-operator' if et == 'IndexError' and has_old_upper else ''
        add(f'check:rule-crash:{et}{detail}', f'check of {fname} failed: {et}: {err[et]}')
        if fixed != orig:
            add('fix:file-changed-although-check-failed', 'file differs after a failed check', fixed=fixed)
        res['counters'] = dict(cnt)
        res['sample'] = {'features': sorted(features), 'outcome': 'check crashed'}
        return res
    nv = n_fixable(rep_check)
    cnt['fixable_violations_reported'] += sum(nv.values())
    n_old = len(re.findall(r'\.(gt|lt|ge|le|eq|ne)\.', _strip_strings_comments(orig), re.I))
    if nv['Fortran90OperatorsRule'] and not n_old:
        add('check:false-positive:old-style-operator-inside-character-literal',
            f"Fortran90OperatorsRule reports {rep_check.get('Fortran90OperatorsRule')} although the file has no "
            'old-style operator outside character literals and comments')
    if not sum(nv.values()):
        res['inconclusive'] = 'generator defect: no fixable violation reported'
        return res
    # --- the fix run
    err = errors(rep_fix)
    bak = src / f'{name}.bak.F90'
    if use_backup and not err:
        cnt['backups_checked'] += 1
        if not bak.exists():
            add('backup:missing', 'backup_suffix given but no backup file written')
        elif bak.read_text() != orig:
            add('backup:differs-from-original', 'backup file differs from the original', backup=bak.read_text())
    if (src / 'bystander.F90').read_text() != bystander:
        add('fix:file-without-violations-rewritten', 'a file without fixable violations was modified',
            bystander_after=(src / 'bystander.F90').read_text())
    if err:
        et = sorted(err)[0]
        msg = str(err[et])
        detail = ':update_metadata' if 'update_metadata' in msg else ''
        add(f'fix:crash:{et}{detail}', f'fix of {fname} failed: {et}: {msg[:300]}')
        if fixed != orig:
            add('fix:file-changed-although-fix-failed', 'file differs after a failed fix', fixed=fixed)
        res['counters'] = dict(cnt)
        res['sample'] = {'features': sorted(features), 'outcome': 'fix crashed'}
        return res
    cnt['files_fixed'] += 1
    changed = fixed != orig
    symptoms = _symptoms(orig, fixed)
    # --- re-lint
    err = errors(rep_relint)
    broken = False
    if err:
        et = sorted(err)[0]
        broken = True
        if et == 'FortranSyntaxError' and symptoms:
            add(f'conservative-print:{symptoms[0]}', f'fixed file no longer parses: {str(err[et])[:300]}', fixed=fixed)
        else:
            add(f'relint:file-error:{et}', f're-lint of the fixed file failed: {et}: {str(err[et])[:300]}', fixed=fixed)
    else:
        left = n_fixable(rep_relint)
        for r, n in left.items():
            if n:
                where = ':routine-inside-module' if in_module else ''
                add(f'relint:violation-remains:{r}{where}', f'{n} violations of {r} remain after the fix '
                    f'({nv[r]} before): {rep_relint.get(r)}', fixed=fixed)
    # --- text oracle
    it_e, com_e = canon_program(expected)
    it_f, com_f = canon_program(fixed)
    cnt['statements_compared'] += len(it_e)
    text_ok = True
    if it_e != it_f and not in_module:
        text_ok = False
        sm = difflib.SequenceMatcher(a=[str(x) for x in it_e], b=[str(x) for x in it_f], autojunk=False)
        ops = [(tag, it_e[i1:i2], it_f[j1:j2]) for tag, i1, i2, j1, j2 in sm.get_opcodes() if tag != 'equal']
        tag, a, b = ops[0]
        if not broken or not symptoms:
            kind = {'delete': 'statement-lost', 'insert': 'statement-added', 'replace': 'statement-changed'}[tag]
            sym = [s for s in symptoms if s == 'semicolon-line-duplicated']
            if sym:
                add(f'conservative-print:{sym[0]}', f'statement stream differs from the expected fix: {tag} {a} -> {b}',
                    fixed=fixed, expected=expected)
            elif any(x[0] == 'decl' for x in a + b):
                add(f'text:declaration-{kind}', f'declarations differ from the expected fix: {a} -> {b}',
                    fixed=fixed, expected=expected)
            else:
                add(f'text:untargeted-{kind}', f'statement stream differs from the expected fix: {tag} {a} -> {b}',
                    fixed=fixed, expected=expected)
    ce, cf = Counter(com_e), Counter(com_f)
    if ce != cf and not broken and not in_module:
        lost, dup = ce - cf, cf - ce
        if lost:
            add('text:comment-lost', f'comments lost by the fix: {sorted(lost)[:3]}', fixed=fixed)
        if dup:
            add('text:comment-added-or-duplicated', f'comments duplicated by the fix: {sorted(dup)[:3]}', fixed=fixed)
    if in_module and changed:
        # nothing is fixed inside modules: any change is a change of untargeted text
        add('text:module-file-rewritten-without-fix', 'routine inside a module is not fixed but the file was rewritten: '
            + '; '.join(d for d in difflib.unified_diff(orig.splitlines(), fixed.splitlines(), lineterm='', n=0)
                        if d[0] in '+-' and d[:3] not in ('+++', '---'))[:300], fixed=fixed)
    # raw text: lines of the expected file that the fix had no reason to touch must survive byte-for-byte
    if text_ok and not broken and not in_module:
        targeted = {ln for ln in E if any(re.search(rf'\b{a["name"]}\b', ln) for a in gen.fixed) and '::' in ln}
        keep = [ln for ln in E if ln not in targeted and ln.strip()]
        fl = Counter(fixed.splitlines())
        touched = [ln for ln in keep if fl[ln] == 0]
        cnt['raw_lines_compared'] += len(keep)
        if touched:
            add('text:untargeted-lines-reformatted', f'{len(touched)} of {len(keep)} untargeted lines were re-cased / '
                f're-indented / re-spaced (same tokens), e.g. {touched[0]!r}', fixed=fixed)
    # --- behaviour
    if not in_module:
        o_src = [('abor1.F90', ABOR1), (fname, orig), ('intf.F90', gen.interface(False, False))]
        n_src = [('abor1.F90', ABOR1), (fname, fixed), ('intf.F90', gen.interface(True, False))]
    else:
        o_src = [('abor1.F90', ABOR1), (fname, orig)]
        n_src = [('abor1.F90', ABOR1), (fname, fixed)]
    stdins = ['4 3 2\n', '1 1 1\n', '5 2 3\n']
    d = diffexec.differential(wd / 'x', o_src, n_src, ('drv.F90', gen.driver(in_module)), stdins=stdins, timeout=120)
    cnt['program_runs'] += 2 * d['runs']
    if d['status'] == 'orig_bad':
        res['inconclusive'] = 'generator defect: ' + d['detail'][:300]
        return res
    if d['status'] == 'new_build_fail':
        if not broken:
            add('behaviour:fixed-file-does-not-compile', d['detail'][:400], fixed=fixed)
    elif d['status'] == 'differ':
        sym = [s for s in symptoms if s == 'semicolon-line-duplicated']
        add('behaviour:output-differs' + (':' + sym[0] if sym else ''), d['detail'][:400], fixed=fixed, diff=d)
    res['nontrivial'] = changed
    res['sample'] = {'features': sorted(features), 'fixable_violations': nv, 'fix_workers': fix_workers,
                     'statements': len(it_e), 'behaviour': d['status'],
                     'diff_head': [x for x in difflib.unified_diff(orig.splitlines(), fixed.splitlines(), lineterm='', n=0)
                                   if x[0] in '+-'][:8]}
    res['sample']['loki'] = parlab.LAST_LOKI_FILE
    res['counters'] = dict(cnt)
    return res


def _strip_strings_comments(text):
    out = []
    for line in text.splitlines():
        code, _ = _split_comment(line)
        out.append(re.sub(r"'[^']*'|\"[^\"]*\"", "''", code))
    return '\n'.join(out)
