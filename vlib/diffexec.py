"""
E2 -- differential executor: build Fortran (and C) sources with gfortran/gcc with
run-time checks and sanitizers on, run them, and compare outputs.
"""
import os
import re
import shutil
import subprocess
from pathlib import Path

FFLAGS = ['-O0', '-g', '-fcheck=all', '-fsanitize=address,undefined',
          '-ffpe-trap=invalid,zero,overflow', '-finit-real=snan', '-finit-integer=-99999',
          '-ffree-line-length-none', '-fno-sanitize-recover=all', '-w']
CFLAGS = ['-O0', '-g', '-fsanitize=address,undefined', '-fno-sanitize-recover=all', '-w']
RUN_ENV = {'ASAN_OPTIONS': 'detect_leaks=0:abort_on_error=0:halt_on_error=1',
           'UBSAN_OPTIONS': 'halt_on_error=1:print_stacktrace=0'}

_NUM = re.compile(r'^[+-]?(\d+\.?\d*|\.\d+)([EeDd][+-]?\d+)?$|^[+-]?(NaN|Infinity|Inf)$', re.I)


class BuildError(Exception):
    def __init__(self, stage, msg):
        super().__init__(f'{stage}: {msg}')
        self.stage = stage
        self.msg = msg


def _run(cmd, cwd, timeout=60, env=None, stdin=None):
    e = dict(os.environ)
    e.update(RUN_ENV)
    if env:
        e.update(env)
    try:
        p = subprocess.run(cmd, cwd=str(cwd), capture_output=True, text=True, timeout=timeout,
                           env=e, input=stdin, errors='replace')
        return p.returncode, p.stdout, p.stderr
    except subprocess.TimeoutExpired:
        return -999, '', 'TIMEOUT'


def build(workdir, sources, exe='a.out', fflags=None, extra=None, csources=None, cflags=None,
          timeout=600):
    """
    Compile ``sources`` (list of (filename, text) in dependency order) into ``exe``
    under ``workdir``.  Raises BuildError with the compiler message on failure.
    """
    workdir = Path(workdir)
    workdir.mkdir(parents=True, exist_ok=True)
    fflags = list(FFLAGS if fflags is None else fflags) + list(extra or [])
    objs = []
    for name, text in (csources or []):
        (workdir / name).write_text(text)
        rc, out, err = _run(['gcc'] + list(cflags or CFLAGS) + ['-c', name, '-o', name + '.o'], workdir, timeout)
        if rc == -999:
            raise BuildError('timeout', f'{name}: compiler timed out')
        if rc != 0:
            raise BuildError('cc', f'{name}: {err[-1500:]}')
        objs.append(name + '.o')
    names = []
    for name, text in sources:
        (workdir / name).write_text(text)
        names.append(name)
    for name in names:
        rc, out, err = _run(['gfortran'] + fflags + ['-c', name, '-o', name + '.o'], workdir, timeout)
        if rc == -999:
            raise BuildError('timeout', f'{name}: compiler timed out')
        if rc != 0:
            raise BuildError('fc', f'{name}: {err[-1500:]}')
        objs.append(name + '.o')
    rc, out, err = _run(['gfortran'] + fflags + objs + ['-o', exe], workdir, timeout)
    if rc == -999:
        raise BuildError('timeout', 'linker timed out')
    if rc != 0:
        raise BuildError('link', err[-1500:])
    return workdir / exe


def run(exe, stdin=None, timeout=60, args=()):
    rc, out, err = _run([str(exe)] + list(args), Path(exe).parent, timeout, stdin=stdin)
    return {'rc': rc, 'out': out, 'err': err, 'san': sanitizer_reports(err)}


def sanitizer_reports(err):
    reps = []
    for ln in err.splitlines():
        if ('AddressSanitizer' in ln or 'runtime error:' in ln or 'Fortran runtime error' in ln
                or 'SIGFPE' in ln or 'SIGSEGV' in ln):
            reps.append(ln.strip()[:300])
    return reps


def syntax_check(workdir, sources, extra=None, timeout=300):
    """gfortran -fsyntax-only over sources in order (module files written to workdir)."""
    workdir = Path(workdir)
    workdir.mkdir(parents=True, exist_ok=True)
    for name, text in sources:
        (workdir / name).write_text(text)
        rc, out, err = _run(['gfortran', '-fsyntax-only', '-ffree-line-length-none', '-w'] + list(extra or []) + [name],
                            workdir, timeout)
        if rc == -999:
            return False, f'{name}: TIMEOUT (compiler did not finish; not a verdict)'
        if rc != 0:
            return False, f'{name}: {err[-1500:]}'
    return True, ''


def _tok_equal(a, b, rtol, atol):
    if a == b:
        return True
    if _NUM.match(a) and _NUM.match(b):
        try:
            fa = float(a.replace('D', 'E').replace('d', 'e'))
            fb = float(b.replace('D', 'E').replace('d', 'e'))
        except ValueError:
            return False
        if fa != fa and fb != fb:
            return True
        if '.' not in a and '.' not in b and 'e' not in a.lower() and 'e' not in b.lower():
            return fa == fb   # integers: exact
        return abs(fa - fb) <= atol + rtol * max(abs(fa), abs(fb))
    return False


def outputs_equal(a, b, rtol=1e-11, atol=1e-300):
    """
    Compare two run results (dicts from ``run``).  Returns (equal, reason).
    Integer/logical/character tokens exact, real tokens to ``rtol``.
    """
    if a['rc'] != b['rc']:
        return False, f"exit status {a['rc']} vs {b['rc']}; stderr: {b['err'][-400:]}"
    if bool(a['san']) != bool(b['san']):
        return False, f"run-time check reports differ: {a['san'][:2]} vs {b['san'][:2]}"
    la, lb = a['out'].split('\n'), b['out'].split('\n')
    if len(la) != len(lb):
        return False, f'output has {len(la)} vs {len(lb)} lines'
    for i, (x, y) in enumerate(zip(la, lb)):
        if x == y:
            continue
        tx, ty = x.split(), y.split()
        if len(tx) != len(ty):
            return False, f'line {i + 1}: {x.strip()[:120]!r} vs {y.strip()[:120]!r}'
        for p, q in zip(tx, ty):
            if not _tok_equal(p, q, rtol, atol):
                return False, f'line {i + 1}: {p!r} vs {q!r} in {x.strip()[:100]!r} / {y.strip()[:100]!r}'
    return True, ''


def differential(workdir, orig_sources, new_sources, driver, stdins=(None,), extra=None,
                 rtol=1e-11, new_extra=None, timeout=60):
    """
    Build orig+driver and new+driver, run both on each stdin, compare.
    Returns dict(status= 'equal' | 'differ' | 'orig_bad' | 'new_build_fail', detail=..., runs=n)
    ``driver`` is (filename, text) and is compiled last in both builds.
    """
    workdir = Path(workdir)
    od, nd = workdir / 'orig', workdir / 'new'
    shutil.rmtree(od, ignore_errors=True)
    shutil.rmtree(nd, ignore_errors=True)
    try:
        oexe = build(od, list(orig_sources) + [driver], extra=extra)
    except BuildError as e:
        return {'status': 'orig_bad', 'detail': str(e), 'runs': 0}
    try:
        nexe = build(nd, list(new_sources) + [driver], extra=list(extra or []) + list(new_extra or []))
    except BuildError as e:
        if e.stage == 'timeout':
            # wall-clock effects are never a verdict: reported like an unusable original (=> inconclusive case)
            return {'status': 'orig_bad', 'detail': 'TIMEOUT while building the transformed program: ' + str(e), 'runs': 0}
        return {'status': 'new_build_fail', 'detail': str(e), 'runs': 0}
    nruns = 0
    for sin in stdins:
        ro = run(oexe, stdin=sin, timeout=timeout)
        if ro['rc'] == -999:
            return {'status': 'orig_bad', 'detail': 'original timed out', 'runs': nruns}
        if ro['san'] or ro['rc'] not in (0,):
            # original must run clean unless the check opts in to non-zero exits
            return {'status': 'orig_bad', 'detail': f"original rc={ro['rc']} {ro['san'][:2]} {ro['err'][-300:]}",
                    'runs': nruns}
        rn = run(nexe, stdin=sin, timeout=timeout)
        if rn['rc'] == -999:
            # a time-out of the transformed program is re-tried once with a generous limit; a program that still
            # does not finish is reported as a difference (possible non-termination), flagged as such
            rn = run(nexe, stdin=sin, timeout=max(300, timeout * 10))
            if rn['rc'] == -999:
                return {'status': 'orig_bad', 'detail': 'TIMEOUT: transformed program did not finish within '
                                                        f'{max(300, timeout * 10)} s (original finished)', 'runs': nruns}
        nruns += 1
        eq, why = outputs_equal(ro, rn, rtol=rtol)
        if not eq:
            return {'status': 'differ', 'detail': why, 'stdin': sin, 'orig_out': ro['out'][-1500:],
                    'new_out': rn['out'][-1500:], 'new_err': rn['err'][-800:], 'runs': nruns}
    return {'status': 'equal', 'detail': '', 'runs': nruns}
