"""sys.monitoring PY_START reach counters for the anchor files of a property."""
import sys

_counts = {}
_anchors = ()
_CAP = 2000
TOOL = 3


def _cb(code, offset):
    fn = code.co_filename
    for a in _anchors:
        if a in fn:
            key = f"{a.split('/')[-1]}:{code.co_qualname}"
            n = _counts.get(key, 0) + 1
            _counts[key] = n
            if n >= _CAP:
                return sys.monitoring.DISABLE
            return None
    return sys.monitoring.DISABLE


def start(anchor_files):
    global _anchors
    _anchors = tuple(anchor_files)
    mon = sys.monitoring
    try:
        mon.use_tool_id(TOOL, 'verif-reach')
    except ValueError:
        return
    mon.register_callback(TOOL, mon.events.PY_START, _cb)
    mon.set_events(TOOL, mon.events.PY_START)


def snapshot():
    return dict(_counts)
