"""
E6 -- scheduler lab: generated multi-file Fortran projects with a ground-truth dependency
model, scheduler configurations, an independent reference closure model and a probe
transformation.  Shared by the batch-processing checks (C21, C22, C23; reusable for C24/C25).

Public API
==========

Project generation
------------------
``gen_project(rng, flags=None) -> Project``
    Random call DAG over ``flags['n_routines']`` routines spread over modules and files.
    ``flags`` overrides entries of ``DEFAULT_PROJECT_FLAGS`` (all features documented there).
    The project is *spelling-free*: all names in the model are lower case.
``Project.write(root, speller=None, suffix_flip=False) -> {relpath: text}``
    Writes the sources below ``root`` (created), every name/keyword occurrence spelled by
    ``speller`` (``Speller(seed, mode)``; ``mode`` in ``lower|upper|random``).  ``suffix_flip``
    swaps ``.F90 <-> .f90`` on every file (C23 twin).  The sources are valid Fortran and
    compile with gfortran in ``Project.compile_order()`` when ``Project.compilable`` is true
    (no externals / case-twin files); ``Project.driver_source()`` is a PROGRAM (never give it
    to Loki) that calls the seeds-capable routines and prints the integer result.
``Project.truth() -> dict``  (plain Python data, the ground truth)
    ``{'items': {name: {'kind', 'file', 'recursive', 'function', 'ir', 'deps': [dep...]}},
       'files': {relpath: [top-level item names]}, 'internals': {proc item: [names]},
       'module_procs': {module: [proc names]}}``
    ``kind`` in ``ProcedureItem|ModuleItem|TypeDefItem|InterfaceItem|ProcedureBindingItem|ExternalItem``;
    a dep is ``{'target': qualified item name, 'local': name as written in the item's scope,
    'via': 'call'|'import'|'type'|'intf'|'bind'|'member', 'constrains_targets': bool}``
    (+ ``'symbol'``: ``module#variable`` for imports of module variables, ``'unqualified'``: call resolved
    through an import without only-list).
    Items that do not exist in the search path have kind ``ExternalItem`` and
    ``'origin'`` (``ProcedureItem`` / ``ModuleItem``).

Gated constructs (flags default to ``False``; each is a known finding of C21 or behaviour the docs leave
open, see ``known_findings/C21.json``): ``externals``, ``file_case_twins``, ``same_module_intf_call``,
``unq_intf_member``, ``inline_only_functions``, ``modlevel_intf_import``, ``renamed_type_imports``,
``dup_names_same_file``, ``multi_unit_file_internal_proc``; ``contiguous_modules=False`` allows cyclic
file graphs (``Scheduler(full_parse=True)`` then fails).  ``Project.features`` names the constructs that
were really generated; ``Project.config_features`` (set by ``gen_config``) the gated config constructs.

Configurations
--------------
``gen_config(rng, project, flags=None) -> (config_dict, seeds or None)``
    Scheduler config dict (``default`` / ``routines``) and the ``seed_routines`` argument
    (``None`` = implicit seeds from ``role='driver'`` / ``seed_routine``), names lower case.
``respell_config(config, seeds, speller)`` -> case-permuted copy (keys, list entries, seeds).

Reference model (independent of loki; implements only documented rules)
-----------------------------------------------------------------------
``match_keys(name, keys, patterns=False, parents=False)``; ``item_config(config, name)``;
``reference_closure(truth, config, seeds) -> Expected`` with ``.nodes {name: kind}``,
``.edges set((a, b))``, ``.ignored {name: True|False|None(=order dependent)}``,
``.cycle_edges`` (edges inside recursion cycles: which one is cut is left open),
``.error`` (``'RuntimeError'`` if strict and a free routine is missing) and ``.config(name)``.

Observation of the real scheduler
---------------------------------
``build_scheduler(root, config, seeds, full_parse, **kw)``; ``graph_summary(scheduler)``;
``ProbeTransformation(log=None, **manifest)`` -- every ``transform_*`` / ``plan_*`` call
appends a dict ``{'method','ir','item','cls','role','mode','targets','successors','items','depth'}``
to ``.log``; all manifest attributes (``reverse_traversal``, ``traverse_file_graph``,
``item_filter``, ``process_ignored_items``, ``recurse_to_modules``, ``recurse_to_procedures``,
``recurse_to_internal_procedures``, ``renames_items``, ``creates_items``) are settable.
"""
# pylint: disable=too-many-lines,too-many-branches,too-many-locals,too-many-statements
import copy
import fnmatch
import random
from pathlib import Path

__all__ = ['DEFAULT_PROJECT_FLAGS', 'DEFAULT_CONFIG_FLAGS', 'Speller', 'Project', 'gen_project',
           'gen_config', 'respell_config', 'match_keys', 'item_config', 'reference_closure',
           'build_scheduler', 'graph_summary', 'ProbeTransformation', 'ITEM_KINDS']

ITEM_KINDS = ('ProcedureItem', 'ModuleItem', 'TypeDefItem', 'InterfaceItem', 'ProcedureBindingItem',
              'ExternalItem')

DEFAULT_PROJECT_FLAGS = {
    'n_routines': 12,          # number of routines of the call DAG (5..40)
    'p_free': 0.3,             # share of routines outside modules
    'p_new_module': 0.35,      # probability to open a new module for the next module routine
    'contiguous_modules': True,  # free routines are not interleaved inside a module's index span
    'max_fanout': 3,
    'types': True,             # derived types with type-bound procedures (plain / renamed / generic)
    'nested_types': True,      # type members of derived type, calls v%mem%bnd
    'interfaces': True,        # generic interfaces in modules
    'intf_blocks': True,       # header-style interface blocks for free routines
    'functions': True,         # module functions called via qualified imports
    'internal_procs': True,
    'renamed_imports': True,
    'unqualified_imports': True,
    'module_level_imports': True,
    'globals': True,           # imports of module variables
    'recursion': True,         # RECURSIVE self calls and 2-cycles
    'dup_local_names': True,   # same procedure name in different modules
    'header_modules': True,    # modules with only types/globals
    'unused_imports': True,    # qualified import of a subroutine that is never called (no dependency)
    'subdirs': True,
    'suffix_mix': True,        # .F90 and .f90
    # features behind gates (known findings / behaviour the docs leave open)
    'externals': False,        # missing modules and missing free routines
    'file_case_twins': False,  # two files whose paths differ only in letter case
    'same_module_intf_call': False,   # module procedure calls a generic interface of its own module
    'unq_intf_member': False,  # unqualified import + call of a procedure that is listed in a generic interface
    'inline_only_functions': False,   # function calls visible only as inline calls (same module)
    'modlevel_intf_import': False,   # generic interface imported at module level, called from a module procedure
    'renamed_type_imports': False,   # use m, only: alias => some_type
    'dup_names_same_file': False,    # two modules with equally named procedures in one file
    'multi_unit_file_internal_proc': False,   # a unit with internal procedures shares its file with other units
}

DEFAULT_CONFIG_FLAGS = {
    'lists': True,             # disable / block / ignore lists
    'per_item_lists': True,
    'patterns': True,
    'scoped': True,
    'expand_false': True,
    'implicit_seeds': True,
    'nostar_patterns': True,   # pattern entries in fnmatch syntax without '*' ('?', '[seq]', '[!seq]', ranges)
    'ignore_patterns': False,  # gate: pattern entries in ignore lists
    'lists_vs_unqualified': False,   # gate: disable/block entries matching items reached via unqualified imports
    'strict': None,            # None = random
}

LIMIT = 2000


# ---------------------------------------------------------------------------------------------
# spelling
# ---------------------------------------------------------------------------------------------

class Speller:
    """Spells every occurrence of a name or keyword: ``lower``, ``upper`` or ``random`` case."""

    def __init__(self, seed=0, mode='lower'):
        self.rng = random.Random(seed)
        self.mode = mode

    def __call__(self, name):
        if self.mode == 'lower':
            return name.lower()
        if self.mode == 'upper':
            return name.upper()
        r = self.rng.random()
        if r < 0.3:
            return name.lower()
        if r < 0.5:
            return name.upper()
        if r < 0.7:
            return name.capitalize()
        return ''.join(c.upper() if self.rng.random() < 0.5 else c.lower() for c in name)


# ---------------------------------------------------------------------------------------------
# model
# ---------------------------------------------------------------------------------------------

class Use:
    def __init__(self, module, only=None):
        self.module = module
        self.only = only      # None = unqualified; else list of (local, remote)

    def __repr__(self):
        return f'Use({self.module}, {self.only})'


class Call:
    """kind: sub|fun|tb; local: name as written (``q1`` or ``v1%bnd``); target: qualified item name."""

    def __init__(self, kind, local, target, argkind='i', guard=False):
        self.kind, self.local, self.target, self.argkind, self.guard = kind, local, target, argkind, guard
        self.unqualified = False    # resolved through an unqualified import


class Proc:
    def __init__(self, idx, name, module):
        self.idx, self.name, self.module = idx, name, module
        self.is_function = False
        self.recursive = False
        self.argkind = 'i'
        self.bound_type = None      # name of the type (own module) whose binding this implements
        self.uses = []
        self.typevars = []          # (var, local type name, qualified type item name)
        self.calls = []
        self.intf_blocks = []       # names of free routines declared in an interface block
        self.internals = []         # (name, [Call...])
        self.globals_used = []      # local names of imported module variables used in the body
        self.inc = 1

    @property
    def qname(self):
        return f'{self.module or ""}#{self.name}'


class Binding:
    def __init__(self, name, kind, targets):
        self.name, self.kind, self.targets = name, kind, targets   # kind plain|renamed|generic


class TypeDef:
    def __init__(self, name, module):
        self.name, self.module = name, module
        self.members = []     # (member name, local type name, qualified type item)
        self.bindings = []


class Interface:
    def __init__(self, name, module, procs):
        self.name, self.module, self.procs = name, module, procs


class Module:
    def __init__(self, name, rank):
        self.name, self.rank = name, rank
        self.uses = []
        self.globals = []
        self.types = []
        self.interfaces = []
        self.procs = []       # Proc objects


class Project:
    def __init__(self):
        self.modules = {}      # name -> Module
        self.procs = []        # all Proc (module + free), by idx
        self.files = []        # (relpath, [('module', name) | ('proc', Proc)])
        self.externals = {}    # qualified name -> origin kind
        self.features = set()
        self.flags = {}
        self.compilable = True
        self.file_cycle = False
        self.entry_points = []  # Proc that can be seeds (plain integer signature)
        self.config_features = set()   # set by gen_config: gated config constructs that occur

    # -- lookup helpers -------------------------------------------------------------------
    def module_entity(self, module, name):
        """Kind of ``name`` in ``module``: typedef|interface|function|subroutine|global|None"""
        m = self.modules.get(module)
        if m is None:
            return None
        if any(t.name == name for t in m.types):
            return 'typedef'
        if any(i.name == name for i in m.interfaces):
            return 'interface'
        for p in m.procs:
            if p.name == name:
                return 'function' if p.is_function else 'subroutine'
        if name in m.globals:
            return 'global'
        return None

    def _import_deps(self, uses):
        deps = []
        for u in uses:
            if u.module not in self.modules:
                deps.append(_dep(u.module, u.module, 'import', False))
                continue
            if u.only is None:
                deps.append(_dep(u.module, u.module, 'import', False))
                continue
            for local, remote in u.only:
                kind = self.module_entity(u.module, remote)
                if kind in ('typedef', 'interface', 'function'):
                    deps.append(_dep(f'{u.module}#{remote}', local, 'import', True))
                elif kind == 'global':
                    d = _dep(u.module, local, 'import', False)
                    d['symbol'] = f'{u.module}#{remote}'   # exclusion entries are also matched against the variable
                    deps.append(d)
        return deps

    def truth(self):
        items = {}
        files = {}
        internals = {}
        module_procs = {}
        fileof = {}
        for relpath, units in self.files:
            files[relpath] = []
            for kind, u in units:
                if kind == 'module':
                    fileof[u] = relpath
                    files[relpath].append(u)
                else:
                    fileof[u.qname] = relpath
                    files[relpath].append(u.qname)
        for m in self.modules.values():
            f = fileof.get(m.name)
            items[m.name] = _item('ModuleItem', f, m.name, self._import_deps(m.uses))
            module_procs[m.name] = [p.name for p in m.procs]
            for t in m.types:
                deps = [_dep(tq, tl, 'member', True) for _, tl, tq in t.members]
                items[f'{m.name}#{t.name}'] = _item('TypeDefItem', f, m.name, deps)
                for b in t.bindings:
                    if b.kind == 'generic':
                        deps = [_dep(f'{m.name}#{t.name}%{x}', x, 'bind', True) for x in b.targets]
                    else:
                        deps = [_dep(f'{m.name}#{x}', x, 'bind', True) for x in b.targets]
                    items[f'{m.name}#{t.name}%{b.name}'] = _item('ProcedureBindingItem', f, m.name, deps)
                for mem, tl, tq in t.members:
                    # bindings reached through a member: <mod>#<type>%<mem>%<bnd> -> <tmod>#<mtype>%<bnd>
                    tmod, tname = tq.split('#')
                    for b in self._typedef(tmod, tname).bindings:
                        items[f'{m.name}#{t.name}%{mem}%{b.name}'] = _item(
                            'ProcedureBindingItem', f, m.name, [_dep(f'{tq}%{b.name}', f'{mem}%{b.name}', 'bind', True)])
            for i in m.interfaces:
                deps = [_dep(f'{m.name}#{x}', x, 'intf', True) for x in i.procs]
                items[f'{m.name}#{i.name}'] = _item('InterfaceItem', f, m.name, deps)
        for p in self.procs:
            deps = self._import_deps(p.uses)
            for ext in p.intf_blocks:
                deps.append(_dep(f'#{ext}', ext, 'intf', True))
            for _, tl, tq in p.typevars:
                deps.append(_dep(tq, tl, 'type', True))
            unq = {u.module for u in p.uses if u.only is None}
            for c in p.calls + [c for _, calls in p.internals for c in calls]:
                d = _dep(c.target, c.local, 'call', True)
                if c.kind == 'sub' and c.target.split('#')[0] in unq and c.local == c.target.split('#')[1] \
                        and not any(l == c.local for u in p.uses for l, _ in (u.only or [])):
                    d['unqualified'] = True
                deps.append(d)
            it = _item('ProcedureItem', fileof.get(p.module) if p.module else fileof.get(p.qname), p.name, deps)
            it['recursive'] = p.recursive
            it['function'] = p.is_function
            items[p.qname] = it
            internals[p.qname] = [n for n, _ in p.internals]
        for name, origin in self.externals.items():
            it = _item('ExternalItem', None, None, [])
            it['origin'] = origin
            items[name] = it
        # de-duplicate deps (one edge per dependency), keep order
        for it in items.values():
            seen, out = set(), []
            for d in it['deps']:
                k = (d['target'], d['local'], d['via'], d.get('symbol'))
                if k not in seen:
                    seen.add(k)
                    out.append(d)
            it['deps'] = out
        return {'items': items, 'files': files, 'internals': internals, 'module_procs': module_procs}

    def _typedef(self, module, name):
        for t in self.modules[module].types:
            if t.name == name:
                return t
        raise KeyError(name)

    # -- source emission ------------------------------------------------------------------
    def write(self, root, speller=None, suffix_flip=False):
        sp = speller or Speller()
        root = Path(root)
        out = {}
        for relpath, units in self.files:
            if suffix_flip:
                relpath = flip_suffix(relpath)
            text = '\n'.join(self._emit_unit(kind, u, sp) for kind, u in units) + '\n'
            path = root / relpath
            path.parent.mkdir(parents=True, exist_ok=True)
            path.write_text(text)
            out[relpath] = text
        return out

    def _emit_unit(self, kind, u, sp):
        if kind == 'module':
            return self._emit_module(self.modules[u], sp)
        return '\n'.join(self._emit_proc(u, sp, ''))

    def _emit_uses(self, uses, sp, ind):
        lines = []
        for u in uses:
            if u.only is None:
                lines.append(f'{ind}{sp("use")} {sp(u.module)}')
            else:
                parts = [sp(l) if l == r else f'{sp(l)} => {sp(r)}' for l, r in u.only]
                lines.append(f'{ind}{sp("use")} {sp(u.module)}, {sp("only")}: {", ".join(parts)}')
        return lines

    def _emit_module(self, m, sp):
        L = [f'{sp("module")} {sp(m.name)}']
        L += self._emit_uses(m.uses, sp, '  ')
        L.append(f'  {sp("implicit none")}')
        for k, g in enumerate(m.globals):
            L.append(f'  {sp("integer")} :: {sp(g)} = {k + 1}')
        for t in m.types:
            L.append(f'  {sp("type")} {sp(t.name)}')
            L.append(f'    {sp("integer")} :: {sp("tval")} = 1')
            for mem, tl, _ in t.members:
                L.append(f'    {sp("type")}({sp(tl)}) :: {sp(mem)}')
            if t.bindings:
                L.append(f'  {sp("contains")}')
                for b in t.bindings:
                    if b.kind == 'plain':
                        L.append(f'    {sp("procedure")} :: {sp(b.name)}')
                    elif b.kind == 'renamed':
                        L.append(f'    {sp("procedure")} :: {sp(b.name)} => {sp(b.targets[0])}')
                    else:
                        L.append(f'    {sp("generic")} :: {sp(b.name)} => {", ".join(sp(x) for x in b.targets)}')
            L.append(f'  {sp("end type")} {sp(t.name)}')
        for i in m.interfaces:
            L.append(f'  {sp("interface")} {sp(i.name)}')
            L.append(f'    {sp("module procedure")} {", ".join(sp(x) for x in i.procs)}')
            L.append(f'  {sp("end interface")} {sp(i.name)}')
        if m.procs:
            L.append(sp('contains'))
            for p in m.procs:
                L += self._emit_proc(p, sp, '  ')
        L.append(f'{sp("end module")} {sp(m.name)}')
        return '\n'.join(L)

    def _emit_call(self, c, sp, ind, xvar='x'):
        arg = sp(xvar) if c.argkind == 'i' else sp('xr')
        guard = f'{sp("if")} ({sp(xvar)} < {LIMIT}) ' if c.guard else ''
        local = '%'.join(sp(part) for part in c.local.split('%'))
        if c.kind == 'fun':
            return f'{ind}{guard}{sp(xvar)} = {sp(xvar)} + {sp("mod")}({local}({sp(xvar)}), 7)'
        return f'{ind}{guard}{sp("call")} {local}({arg})'

    def _emit_proc(self, p, sp, ind):
        i2 = ind + '  '
        xvar = 'y' if p.is_function else 'x'
        args = 'x'
        kw = 'function' if p.is_function else 'subroutine'
        prefix = (sp('recursive') + ' ') if p.recursive else ''
        if p.bound_type:
            args = 'this, x' if p.argkind == 'i' else 'this, xr'
        elif p.argkind == 'r':
            args = 'xr'
        args = ', '.join(sp(a) for a in args.split(', '))
        if p.is_function:
            L = [f'{ind}{prefix}{sp("integer")} {sp(kw)} {sp(p.name)}({args})']
        else:
            L = [f'{ind}{prefix}{sp(kw)} {sp(p.name)}({args})']
        L += self._emit_uses(p.uses, sp, i2)
        L.append(f'{i2}{sp("implicit none")}')
        if p.bound_type:
            L.append(f'{i2}{sp("class")}({sp(p.bound_type)}), {sp("intent")}({sp("inout")}) :: {sp("this")}')
        if p.is_function:
            L.append(f'{i2}{sp("integer")}, {sp("intent")}({sp("in")}) :: {sp("x")}')
            L.append(f'{i2}{sp("integer")} :: {sp("y")}')
            L.append(f'{i2}{sp("real")} :: {sp("xr")}')
        elif p.argkind == 'i':
            L.append(f'{i2}{sp("integer")}, {sp("intent")}({sp("inout")}) :: {sp("x")}')
            L.append(f'{i2}{sp("real")} :: {sp("xr")}')
        else:
            L.append(f'{i2}{sp("real")}, {sp("intent")}({sp("inout")}) :: {sp("xr")}')
            L.append(f'{i2}{sp("integer")} :: {sp("x")}')
        for v, tl, _ in p.typevars:
            if v != 'this':
                L.append(f'{i2}{sp("type")}({sp(tl)}) :: {sp(v)}')
        for ext in p.intf_blocks:
            L.append(f'{i2}{sp("interface")}')
            L.append(f'{i2}  {sp("subroutine")} {sp(ext)}({sp("x")})')
            L.append(f'{i2}    {sp("integer")}, {sp("intent")}({sp("inout")}) :: {sp("x")}')
            L.append(f'{i2}  {sp("end subroutine")} {sp(ext)}')
            L.append(f'{i2}{sp("end interface")}')
        # body
        if p.is_function:
            L.append(f'{i2}{sp("y")} = {sp("x")} + {p.inc}')
            L.append(f'{i2}{sp("xr")} = 1.0')
        elif p.argkind == 'i':
            L.append(f'{i2}{sp("x")} = {sp("x")} + {p.inc}')
            L.append(f'{i2}{sp("xr")} = 1.0')
        else:
            L.append(f'{i2}{sp("xr")} = {sp("xr")} + {p.inc}.0')
            L.append(f'{i2}{sp("x")} = 1')
        for g in p.globals_used:
            L.append(f'{i2}{sp(xvar)} = {sp(xvar)} + {sp(g)}')
        for c in p.calls:
            L.append(self._emit_call(c, sp, i2, xvar))
        for name, _ in p.internals:
            L.append(f'{i2}{sp("call")} {sp(name)}({sp(xvar)})')
        if p.argkind == 'i' and not p.is_function:
            L.append(f'{i2}{sp("x")} = {sp("x")} + {sp("int")}({sp("xr")})')
        if p.is_function:
            L.append(f'{i2}{sp(p.name)} = {sp("y")} + {sp("int")}({sp("xr")})')
        if p.internals:
            L.append(f'{ind}{sp("contains")}')
            for name, calls in p.internals:
                L.append(f'{i2}{sp("subroutine")} {sp(name)}({sp("z")})')
                L.append(f'{i2}  {sp("integer")}, {sp("intent")}({sp("inout")}) :: {sp("z")}')
                L.append(f'{i2}  {sp("z")} = {sp("z")} + 1')
                for c in calls:
                    L.append(self._emit_call(c, sp, i2 + '  ', 'z'))
                L.append(f'{i2}{sp("end subroutine")} {sp(name)}')
        L.append(f'{ind}{sp("end " + kw)} {sp(p.name)}')
        return L

    # -- compilation support ----------------------------------------------------------------
    def compile_order(self, suffix_flip=False):
        """File paths in an order in which gfortran can compile them (used modules first)."""
        mod_file = {}
        for relpath, units in self.files:
            for kind, u in units:
                if kind == 'module':
                    mod_file[u] = relpath
        needs = {relpath: set() for relpath, _ in self.files}
        for relpath, units in self.files:
            for kind, u in units:
                uses = []
                if kind == 'module':
                    m = self.modules[u]
                    uses += m.uses
                    for p in m.procs:
                        uses += p.uses
                else:
                    uses += u.uses
                for use in uses:
                    f = mod_file.get(use.module)
                    if f and f != relpath:
                        needs[relpath].add(f)
        order, done = [], set()
        self.file_cycle = False

        def visit(f, stack=()):
            if f in stack:
                self.file_cycle = True
            if f in done or f in stack:
                return
            for g in sorted(needs[f]):
                visit(g, stack + (f,))
            done.add(f)
            order.append(f)
        for relpath, _ in self.files:
            visit(relpath)
        return [flip_suffix(f) if suffix_flip else f for f in order]

    def driver_source(self, seeds=None):
        """A PROGRAM calling the entry points (plain names) and printing the accumulated integer."""
        eps = [p for p in self.entry_points if seeds is None or p.qname in seeds]
        L = ['program schedlab_driver']
        for k, p in enumerate(eps):
            if p.module:
                L.append(f'  use {p.module}, only: ep{k}_{p.name} => {p.name}')
        L += ['  implicit none', '  integer :: x', '  x = 1']
        for k, p in enumerate(eps):
            L.append(f'  call ep{k}_{p.name}(x)' if p.module else f'  call {p.name}(x)')
            L.append("  print '(i0)', x")
        L.append('end program schedlab_driver')
        return '\n'.join(L) + '\n'


def flip_suffix(relpath):
    if relpath.endswith('.F90'):
        return relpath[:-4] + '.f90'
    if relpath.endswith('.f90'):
        return relpath[:-4] + '.F90'
    return relpath


def _dep(target, local, via, constrains):
    return {'target': target, 'local': local, 'via': via, 'constrains_targets': constrains}


def _item(kind, file, ir, deps):
    return {'kind': kind, 'file': file, 'ir': ir, 'recursive': False, 'function': False, 'deps': deps}


# ---------------------------------------------------------------------------------------------
# project generator
# ---------------------------------------------------------------------------------------------

PREFIXES = ('ka_', 'kb_', 'ut_', 'zq_')


def gen_project(rng, flags=None):
    F = dict(DEFAULT_PROJECT_FLAGS)
    F.update(flags or {})
    P = Project()
    P.flags = F
    n = F['n_routines']
    feats = P.features

    # 1. routines -> modules (monotone rank) or free
    modules = []
    cur = None
    for i in range(n):
        pre = rng.choice(PREFIXES)
        name = f'{pre}r{i}'
        free = rng.random() < F['p_free']
        if free and cur is not None and F['contiguous_modules']:
            cur = None   # close the current module span
        if free:
            p = Proc(i, name, None)
        else:
            if cur is None or rng.random() < F['p_new_module']:
                cur = Module(f'{rng.choice(PREFIXES)}m{len(modules)}_mod', len(modules))
                modules.append(cur)
            p = Proc(i, name, cur.name)
            cur.procs.append(p)
        p.inc = rng.randint(1, 5)
        P.procs.append(p)
    if F['header_modules']:
        for _ in range(rng.randint(1, 2)):
            modules.append(Module(f'{rng.choice(PREFIXES)}h{len(modules)}_mod', len(modules)))
            feats.add('header_module')
    for m in modules:
        P.modules[m.name] = m
    modlist = modules

    # duplicate local names across modules
    dup_modules = set()
    if F['dup_local_names'] and len([m for m in modlist if m.procs]) >= 2 and rng.random() < 0.5:
        ms = rng.sample([m for m in modlist if m.procs], 2)
        a, b = rng.choice(ms[0].procs), rng.choice(ms[1].procs)
        b.name = a.name
        dup_modules = {ms[0].name, ms[1].name}
        feats.add('dup_local_name')
    dup_names = {p.name for p in P.procs if sum(q.name == p.name for q in P.procs) > 1}

    # 2. globals, types, interfaces, functions
    nglob = 0
    for m in modlist:
        if F['globals'] and rng.random() < (0.9 if not m.procs else 0.4):
            for _ in range(rng.randint(1, 2)):
                m.globals.append(f'gv{nglob}')
                nglob += 1
    ntype = 0
    if F['types']:
        for m in modlist:
            if rng.random() < (0.8 if not m.procs else 0.45):
                for _ in range(rng.randint(1, 2)):
                    t = TypeDef(f'{rng.choice(PREFIXES)}t{ntype}_type', m.name)
                    ntype += 1
                    m.types.append(t)
                    avail = [p for p in m.procs if not p.bound_type and p.name not in dup_names and p.idx > 0]
                    rng.shuffle(avail)
                    nb = 0
                    while avail and rng.random() < 0.75 and nb < 3:
                        kind = rng.choice(['plain', 'plain', 'renamed', 'generic'])
                        if kind == 'generic' and len(avail) >= 2:
                            a, b = avail.pop(), avail.pop()
                            a.bound_type = b.bound_type = t.name
                            b.argkind = 'r'
                            t.bindings.append(Binding(a.name, 'plain', [a.name]))
                            t.bindings.append(Binding(b.name, 'plain', [b.name]))
                            t.bindings.append(Binding(f'gb{nb}_{t.name[3:]}', 'generic', [a.name, b.name]))
                            feats.add('generic_binding')
                        elif kind == 'renamed':
                            a = avail.pop()
                            a.bound_type = t.name
                            t.bindings.append(Binding(f'bn{nb}_{a.name}', 'renamed', [a.name]))
                            feats.add('renamed_binding')
                        else:
                            a = avail.pop()
                            a.bound_type = t.name
                            t.bindings.append(Binding(a.name, 'plain', [a.name]))
                            feats.add('plain_binding')
                        nb += 1
    # nested members: type in module m gets a member of a type in the same module (declared earlier)
    # or of a later module (imported at module level, one symbol per use statement)
    if F['types'] and F['nested_types']:
        for m in modlist:
            for k, t in enumerate(m.types):
                if rng.random() < 0.35:
                    cands = [(m.name, u) for u in m.types[:k]]
                    cands += [(mm.name, u) for mm in modlist if mm.rank > m.rank for u in mm.types]
                    if cands:
                        tm, u = rng.choice(cands)
                        if tm != m.name and not any(us.module == tm and us.only == [(u.name, u.name)]
                                                    for us in m.uses):
                            m.uses.append(Use(tm, [(u.name, u.name)]))
                        t.members.append((f'mem{k}', u.name, f'{tm}#{u.name}'))
                        feats.add('nested_type_member')
    nintf = 0
    if F['interfaces']:
        for m in modlist:
            avail = [p for p in m.procs if not p.bound_type and p.name not in dup_names and p.idx > 0]
            if len(avail) >= 2 and rng.random() < 0.4:
                a, b = rng.sample(avail, 2)
                b.argkind = 'r'
                m.interfaces.append(Interface(f'{rng.choice(PREFIXES)}g{nintf}_if', m.name, [a.name, b.name]))
                nintf += 1
                feats.add('generic_interface')
    intf_members = {(i.module, x) for m in modlist for i in m.interfaces for x in i.procs}
    if F['functions']:
        for m in modlist:
            for p in m.procs:
                if (not p.bound_type and p.argkind == 'i' and (m.name, p.name) not in intf_members
                        and p.name not in dup_names and p.idx > 0 and rng.random() < 0.2):
                    p.is_function = True
                    feats.add('function')

    # 3. calls
    alias = [0]
    frozen = set()    # modules that are imported without only-list: their set of public names must not grow

    def visible_names(p):
        names = {'x', 'xr', 'y', 'this', p.name}
        if p.module:
            m = P.modules[p.module]
            names |= {q.name for q in m.procs} | {t.name for t in m.types} | set(m.globals)
            names |= {i.name for i in m.interfaces}
            for u in m.uses:
                names |= {l for l, _ in (u.only or [])}
        for u in p.uses:
            if u.only is None:
                mm = P.modules.get(u.module)
                if mm:
                    names |= {q.name for q in mm.procs} | {t.name for t in mm.types} | set(mm.globals)
                    names |= {i.name for i in mm.interfaces}
            else:
                names |= {l for l, _ in u.only}
        names |= {v for v, _, _ in p.typevars} | set(p.intf_blocks) | {nm for nm, _ in p.internals}
        names |= {c.local for c in p.calls if '%' not in c.local}
        return names

    def import_symbol(p, module, remote, allow_unq=True, allow_modlevel=True, want_rename=None):
        """Make ``remote`` of ``module`` visible in ``p``; return the local name."""
        # already visible through an existing import?
        scopes = [p.uses] + ([P.modules[p.module].uses] if p.module else [])
        for uses in scopes:
            for u in uses:
                if u.module == module:
                    if u.only is None:
                        if P.module_entity(module, remote) == 'subroutine':
                            return remote
                        continue
                    for l, r in u.only:
                        if r == remote:
                            return l
        vis = visible_names(p)
        kind = P.module_entity(module, remote)
        style = rng.random()
        rename = F['renamed_imports'] and rng.random() < 0.2 if want_rename is None else want_rename
        if kind == 'typedef' and not F['renamed_type_imports']:
            rename = False
        if remote in vis:
            rename = True
        if rename and kind == 'typedef':
            feats.add('renamed_type_import')
        local = remote
        if rename:
            alias[0] += 1
            local = f'al{alias[0]}_{remote}'
            feats.add('renamed_import')
        mm = P.modules.get(module)
        unq_ok = (allow_unq and F['unqualified_imports'] and not rename and mm is not None
                  and module not in dup_modules and kind in ('subroutine',)
                  and not any(u.only is None for u in p.uses)
                  and not ({q.name for q in mm.procs} | {t.name for t in mm.types} | set(mm.globals)
                           | {i.name for i in mm.interfaces}) & vis
                  and (F['unq_intf_member'] or not mm.interfaces)
                  and not mm.uses)    # no re-exported names (module-level imports are frozen afterwards)
        if unq_ok and style < 0.15:
            if F['unq_intf_member'] and (module, remote) in intf_members:
                feats.add('unq_intf_member')
            p.uses.append(Use(module, None))
            frozen.add(module)
            feats.add('unqualified_import')
            return remote
        modlevel_kind_ok = (kind in ('subroutine', 'typedef') or (kind == 'interface' and F['modlevel_intf_import'])
                            or (kind == 'function' and F['inline_only_functions']))
        if (allow_modlevel and F['module_level_imports'] and p.module and p.module not in frozen
                and style > 0.8 and modlevel_kind_ok
                ):
            m = P.modules[p.module]
            mvis = set()
            for q in m.procs:
                mvis |= visible_names(q)
            if local not in mvis:
                # one symbol per module-level use statement
                m.uses.append(Use(module, [(local, remote)]))
                feats.add('module_level_import')
                if kind == 'interface':
                    feats.add('modlevel_intf_import')
                if kind == 'function':
                    feats.add('inline_only_function')
                if rename:
                    feats.add('module_level_renamed_import')
                return local
        # routine-level qualified import, appended to an existing statement half of the time
        for u in p.uses:
            if u.module == module and u.only is not None and rng.random() < 0.5:
                u.only.append((local, remote))
                return local
        p.uses.append(Use(module, [(local, remote)]))
        return local

    def type_var(p, tmod, tname):
        """Declare (or reuse) a variable of type ``tmod#tname`` in ``p``; return the variable name."""
        tq = f'{tmod}#{tname}'
        for v, _, q in p.typevars:
            if q == tq:
                return v
        if p.module == tmod:
            local = tname
        else:
            local = import_symbol(p, tmod, tname, allow_unq=False)
        v = f'v{len(p.typevars)}'
        p.typevars.append((v, local, tq))
        return v

    binding_of = {}    # proc qname -> (module, type, [binding names that reach it])
    for m in modlist:
        for t in m.types:
            for b in t.bindings:
                for x in b.targets:
                    if b.kind == 'generic':
                        binding_of.setdefault(f'{m.name}#{x}', (m.name, t.name, []))[2].append(b.name)
                    else:
                        binding_of.setdefault(f'{m.name}#{x}', (m.name, t.name, []))[2].append(b.name)
    member_paths = {}  # (tmod, tname) -> [(owner module, owner type, member name)]
    for m in modlist:
        for t in m.types:
            for mem, _, tq in t.members:
                member_paths.setdefault(tuple(tq.split('#')), []).append((m.name, t.name, mem))

    def rank_of(p):
        return P.modules[p.module].rank if p.module else -1

    for p in P.procs:
        if p.bound_type:
            # implementation of a binding depends on its own type (class(t) :: this)
            p.typevars.append(('this', p.bound_type, f'{p.module}#{p.bound_type}'))
        later = [q for q in P.procs if q.idx > p.idx]
        k = rng.randint(0, F['max_fanout']) if later else 0
        if p.idx == 0 and later:
            k = max(k, 2)
        weights = [1.0 / (1 + 0.3 * (q.idx - p.idx)) for q in later]
        chosen = []
        for _ in range(k):
            q = rng.choices(later, weights)[0]
            if q not in chosen:
                chosen.append(q)
        for q in chosen:
            if p.module and q.module and P.modules[q.module].rank < rank_of(p):
                continue    # would need a module cycle
            add_call(P, p, q, rng, F, feats, import_symbol, type_var, binding_of, member_paths, intf_members)
    # remove the temporary 'this' typevar marker from emission (class(..) :: this is emitted separately)
    for p in P.procs:
        p.typevars = [tv for tv in p.typevars if tv[0] != 'this'] + [tv for tv in p.typevars if tv[0] == 'this']

    # 4. globals imports
    if F['globals']:
        for p in P.procs:
            if rng.random() < 0.3:
                cands = [m for m in modlist if m.globals and m.name != p.module
                         and (m.rank > rank_of(p) if p.module
                              else min([q.idx for q in m.procs] or [n]) > p.idx)]
                if cands:
                    m = rng.choice(cands)
                    g = rng.choice(m.globals)
                    local = import_symbol(p, m.name, g, allow_unq=False, allow_modlevel=False)
                    if local not in p.globals_used:
                        p.globals_used.append(local)
                    feats.add('global_import')

    # imported but never called subroutines (not a dependency: "dependencies on subroutines are introduced via calls")
    if F['unused_imports']:
        for p in P.procs:
            for u in p.uses:
                if u.only is not None and u.module in P.modules and rng.random() < 0.15:
                    cands = [q for q in P.modules[u.module].procs if not q.is_function and not q.bound_type
                             and q.name not in visible_names(p) and q.name not in dup_names
                             and not any(r == q.name for _, r in u.only)]
                    if cands:
                        q = rng.choice(cands)
                        u.only.append((q.name, q.name))
                        feats.add('unused_subroutine_import')

    if F['globals'] and F['module_level_imports']:
        for m in modlist:
            if rng.random() < 0.2 and m.name not in frozen:
                cands = [mm for mm in modlist if mm.globals and mm.rank > m.rank]
                if cands:
                    mm = rng.choice(cands)
                    g = rng.choice(mm.globals)
                    taken = set()
                    for q in m.procs:
                        taken |= visible_names(q)
                    taken |= {l for u in m.uses for l, _ in (u.only or [])}
                    if g not in taken:
                        m.uses.append(Use(mm.name, [(g, g)]))
                        feats.add('module_level_global_import')

    # 5. recursion: self calls and 2-cycles p <-> q (same module or both free) where p, q are the
    #    only members of the cycle; every member is RECURSIVE, back edges are guarded
    if F['recursion']:
        for p in P.procs:
            if not p.is_function and not p.bound_type and p.argkind == 'i' and rng.random() < 0.12:
                p.recursive = True
                p.calls.append(Call('sub', p.name, p.qname, 'i', guard=True))
                feats.add('self_recursion')
        for p in P.procs:
            if p.is_function or p.bound_type or p.argkind != 'i' or rng.random() > 0.2:
                continue
            for c in list(p.calls):
                q = next((q for q in P.procs if q.qname == c.target), None)
                if (q and q is not p and c.kind == 'sub' and c.local == q.name and q.module == p.module
                        and not q.is_function and not q.bound_type and q.argkind == 'i'
                        and p.name not in dup_names and q.name not in dup_names
                        and p.name not in visible_but_not_self(P, q)
                        and not _between(P, p.qname, q.qname)):
                    q.calls.append(Call('sub', p.name, p.qname, 'i', guard=True))
                    p.recursive = q.recursive = True
                    feats.add('mutual_recursion')
                    break

    # 6. internal procedures (call a subset of what the host calls directly)
    if F['internal_procs']:
        for p in P.procs:
            if rng.random() < 0.25:
                sub = [c for c in p.calls if c.kind == 'sub' and c.argkind == 'i' and '%' not in c.local
                       and c.target != p.qname and not c.guard]
                calls = [Call(c.kind, c.local, c.target, c.argkind, c.guard) for c in sub if rng.random() < 0.6]
                p.internals.append((f'in{p.idx}_proc', calls))
                feats.add('internal_procedure')

    # 7. externals (gated)
    if F['externals']:
        nx_ = 0
        for p in P.procs:
            if rng.random() < 0.2 and not p.is_function:
                if rng.random() < 0.5:
                    xm = f'xm{nx_ % 2}_mod'
                    p.uses.append(Use(xm, [(f'xgv{nx_}', f'xgv{nx_}'), (f'xs{nx_}', f'xs{nx_}')]))
                    p.calls.append(Call('sub', f'xs{nx_}', f'{xm}#xs{nx_}', 'i'))
                    P.externals[xm] = 'ModuleItem'
                    P.externals[f'{xm}#xs{nx_}'] = 'ProcedureItem'
                    feats.add('external_module')
                else:
                    p.calls.append(Call('sub', f'miss{nx_}', f'#miss{nx_}', 'i'))
                    P.externals[f'#miss{nx_}'] = 'ProcedureItem'
                    feats.add('missing_free_routine')
                nx_ += 1
                P.compilable = False

    # 8. files
    units = []
    seen_mod = set()
    for p in P.procs:
        if p.module:
            if p.module not in seen_mod:
                seen_mod.add(p.module)
                units.append(('module', p.module))
        else:
            units.append(('proc', p))
    for m in modlist:
        if m.name not in seen_mod:
            units.append(('module', m.name))
    files = []
    used_paths = set()
    k = 0
    while k < len(units):
        take = 1
        while k + take < len(units) and rng.random() < 0.25:
            take += 1
        def has_internal(ku):
            ps = P.modules[ku[1]].procs if ku[0] == 'module' else [ku[1]]
            return any(q.internals for q in ps)
        if not F['multi_unit_file_internal_proc']:
            # REGEX frontend gate: a unit with internal procedures is not followed by another unit in its file
            while take > 1 and any(has_internal(ku) for ku in units[k:k + take]):
                take -= 1
        elif take > 1 and any(has_internal(ku) for ku in units[k:k + take]):
            feats.add('multi_unit_file_internal')
        if not F['dup_names_same_file']:
            while take > 1 and len({ku[1] for ku in units[k:k + take] if ku[0] == 'module'} & dup_modules) > 1:
                take -= 1
        elif len({ku[1] for ku in units[k:k + take] if ku[0] == 'module'} & dup_modules) > 1:
            feats.add('dup_names_same_file')
        group = units[k:k + take]
        k += take
        first = group[0]
        stem = first[1] if first[0] == 'module' else first[1].name
        if rng.random() < 0.3:
            stem = f'src{len(files)}'
        sub = rng.choice(['', '', 'sub1/', 'sub2/inner/']) if F['subdirs'] else ''
        suf = rng.choice(['.F90', '.f90']) if F['suffix_mix'] else '.F90'
        relpath = f'{sub}{stem}{suf}'
        while relpath.lower() in used_paths:
            stem += 'x'
            relpath = f'{sub}{stem}{suf}'
        used_paths.add(relpath.lower())
        # inside a file: used modules first (higher rank first), free routines last
        group = sorted(group, key=lambda ku: (0, -P.modules[ku[1]].rank) if ku[0] == 'module' else (1, ku[1].idx))
        files.append((relpath, group))
    if F['file_case_twins'] and len(files) >= 2:
        # make two files differ only in letter case (stem or suffix)
        i, j = rng.sample(range(len(files)), 2)
        pa = files[i][0]
        d, _, base = pa.rpartition('/')
        stem, suf = base[:-4], base[-4:]
        if rng.random() < 0.5:
            twin = f'{stem.upper() if stem != stem.upper() else stem.lower()}{suf}'
            feats.add('file_twin_stem_case')
        else:
            twin = f'{stem}{flip_suffix(suf)}'
            feats.add('file_twin_suffix_case')
        files[j] = ((d + '/' if d else '') + twin, files[j][1])
        P.compilable = False
    P.files = files

    P.compile_order()
    if P.file_cycle:
        P.compilable = False     # module use cycle between files (only with interleaved modules)
    P.entry_points = [p for p in P.procs if not p.bound_type and not p.is_function and p.argkind == 'i']
    feats.add(f'routines_{min(n // 10 * 10, 40)}')
    if any(not p.module for p in P.procs):
        feats.add('free_routine')
    if any(p.module for p in P.procs):
        feats.add('module_procedure')
    return P


def _between(P, a, b):
    """Items other than a, b that lie on a dependency path a -> ... -> b or b -> ... -> a."""
    items = P.truth()['items']

    def reach(x):
        seen, todo = set(), [x]
        while todo:
            y = todo.pop()
            for d in items.get(y, {'deps': []})['deps']:
                if d['target'] not in seen:
                    seen.add(d['target'])
                    todo.append(d['target'])
        return seen
    ra, rb = reach(a), reach(b)
    on_ab = {n for n in ra if n not in (a, b) and b in reach(n)}
    on_ba = {n for n in rb if n not in (a, b) and a in reach(n)}
    return on_ab | on_ba


def visible_but_not_self(P, q):
    """Names that are already taken in ``q``'s scope other than procedures of its own module."""
    names = set(q.intf_blocks) | {v for v, _, _ in q.typevars} | {n for n, _ in q.internals}
    for u in q.uses:
        names |= {l for l, _ in (u.only or [])}
    return names


def add_call(P, p, q, rng, F, feats, import_symbol, type_var, binding_of, member_paths, intf_members):
    """Add a call p -> q in one of the styles that are legal for the pair."""
    if any(c.target == q.qname for c in p.calls):
        return
    same_mod = p.module is not None and p.module == q.module
    if q.bound_type:
        # only callable through a binding of its type
        tmod, tname, bnames = binding_of[q.qname]
        # a generic binding is only used when all its implementations come later in the DAG order
        idx_of = {x.name: x.idx for x in P.modules[tmod].procs}
        ok = []
        for bn in bnames:
            b = next(b for b in P._typedef(tmod, tname).bindings if b.name == bn)
            if b.kind != 'generic' or all(idx_of[x] > p.idx for x in b.targets):
                ok.append(bn)
        bname = rng.choice(ok)
        nested = member_paths.get((tmod, tname))
        if nested and F['nested_types'] and rng.random() < 0.4:
            omod, otype, mem = rng.choice(nested)
            if p.module and P.modules[omod].rank < P.modules[p.module].rank:
                return
            v = type_var(p, omod, otype)
            p.calls.append(Call('tb', f'{v}%{mem}%{bname}', f'{omod}#{otype}%{mem}%{bname}', _argkind(P, tmod, tname, bname, q)))
            feats.add('nested_binding_call')
            return
        v = type_var(p, tmod, tname)
        p.calls.append(Call('tb', f'{v}%{bname}', f'{tmod}#{tname}%{bname}', _argkind(P, tmod, tname, bname, q)))
        feats.add('typebound_call')
        return
    if q.is_function:
        if same_mod:
            if not F['inline_only_functions']:
                return
            feats.add('inline_only_function')
            p.calls.append(Call('fun', q.name, q.qname, 'i'))
            return
        local = import_symbol(p, q.module, q.name, allow_unq=False)
        p.calls.append(Call('fun', local, q.qname, 'i'))
        feats.add('function_call')
        return
    # generic interface?
    intf = None
    if q.module:
        for i in P.modules[q.module].interfaces:
            if q.name in i.procs:
                intf = i
    if intf and any(x.idx <= p.idx for x in P.modules[q.module].procs if x.name in intf.procs):
        intf = None     # all implementations must come later in the DAG order
    if intf and rng.random() < 0.6:
        if same_mod:
            if not F['same_module_intf_call']:
                intf = None
            else:
                feats.add('same_module_intf_call')
                p.calls.append(Call('sub', intf.name, f'{q.module}#{intf.name}', q.argkind))
                return
        else:
            local = import_symbol(p, q.module, intf.name, allow_unq=False)
            p.calls.append(Call('sub', local, f'{q.module}#{intf.name}', q.argkind))
            feats.add('interface_call')
            return
    if same_mod:
        p.calls.append(Call('sub', q.name, q.qname, q.argkind))
        feats.add('same_module_call')
        return
    if q.module:
        local = import_symbol(p, q.module, q.name)
        p.calls.append(Call('sub', local, q.qname, q.argkind))
        feats.add('module_call')
        return
    # free routine
    if q.name in visible_but_not_self(P, p):
        return
    if F['intf_blocks'] and q.argkind == 'i' and rng.random() < 0.3:
        p.intf_blocks.append(q.name)
        feats.add('interface_block')
    p.calls.append(Call('sub', q.name, q.qname, q.argkind))
    feats.add('free_call')


def _argkind(P, tmod, tname, bname, q):
    return q.argkind


# ---------------------------------------------------------------------------------------------
# configuration generator
# ---------------------------------------------------------------------------------------------

def gen_config(rng, project, flags=None):
    F = dict(DEFAULT_CONFIG_FLAGS)
    F.update(flags or {})
    truth = project.truth()
    names = sorted(truth['items'])
    strict = F['strict'] if F['strict'] is not None else rng.random() < 0.6
    default = {'role': 'kernel', 'mode': rng.choice(['idem', 'scc', 'plain']), 'expand': True,
               'strict': strict, 'replicate': rng.random() < 0.2,
               'enable_imports': rng.random() < 0.5}
    routines = {}
    eps = project.entry_points
    nseed = rng.choice([1, 1, 2, 3])
    seed_procs = [eps[0]] if eps and eps[0].idx == 0 else []
    others = [p for p in eps if p not in seed_procs]
    rng.shuffle(others)
    seed_procs += others[:max(0, nseed - len(seed_procs))]
    seed_q = [p.qname for p in seed_procs]
    local_count = {}
    for nm in names:
        local_count[_local(nm)] = local_count.get(_local(nm), 0) + 1
    # items reached through unqualified imports (gate: exclusion lists are not applied to them consistently)
    unq_targets = {d['target'] for it in truth['items'].values() for d in it['deps'] if d.get('unqualified')}
    cfeats = set()

    def key_for(qname):
        """A config key for an item: the plain local name when unique in the project, else scoped."""
        scope, local = (qname.split('#', 1) + [''])[:2] if '#' in qname else ('', qname)
        if local_count.get(local, 0) != 1:
            return qname
        if scope and F['scoped'] and rng.random() < 0.4:
            return qname
        return local

    def taken(target, key):
        """Would ``key`` give some item two matching config entries (behaviour left open)?"""
        for o in names:
            if match_keys(o, [key]) and any(match_keys(o, [kk]) for kk in routines):
                return True
        return bool(any(match_keys(target, [kk]) for kk in routines))

    def list_entries(kmax=3, patterns=True, exclusion=True):
        out = []
        for _ in range(rng.randint(1, kmax)):
            target = rng.choice(names)
            r = rng.random()
            scope, local = target.split('#', 1) if '#' in target else ('', target)
            if patterns and F['patterns'] and r < 0.25:
                if not exclusion:
                    cfeats.add('cfg_ignore_patterns')
                base = local.split('%')[-1]
                if F['nostar_patterns'] and rng.random() < 0.4:
                    # fnmatch syntax without '*': '?', '[seq]', '[!seq]', '[a-z]' in a local name, a member
                    # path, a module name or a scoped name
                    rr = rng.random()
                    if scope and F['scoped'] and rr < 0.3:
                        text = scope + '#' + _nostar_pattern(rng, local)
                    elif scope and rr < 0.45:
                        text = _nostar_pattern(rng, scope)          # module name pattern
                    elif scope and F['scoped'] and rr < 0.55:
                        text = _nostar_pattern(rng, target)
                    elif '%' in local and rr < 0.7:
                        text = _nostar_pattern(rng, local)
                    else:
                        text = _nostar_pattern(rng, base)
                    cfeats.add('cfg_nostar_patterns')
                    out.append(text)
                elif rng.random() < 0.5:
                    out.append(base[:rng.randint(2, max(2, min(5, len(base) - 1)))] + '*')
                else:
                    out.append('*' + base[-rng.randint(2, max(2, min(4, len(base) - 1))):])
            elif F['scoped'] and scope and r < 0.5:
                out.append(target)
            elif scope and r < 0.6:
                out.append(scope)          # a whole module
            elif '%' in local and r < 0.75:
                out.append(local.split('%')[0])   # a whole type
            else:
                out.append(local)
        # entries that match a seed are dropped: exclusion of seeds is left open by the docs
        out = [e for e in out if not any(match_keys(s, [e], patterns=True, parents=True) for s in seed_q)]
        if exclusion and not F['lists_vs_unqualified']:
            out = [e for e in out if not any(match_keys(u, [e], patterns=True, parents=True) for u in unq_targets)]
        elif exclusion and any(match_keys(u, [e], patterns=True, parents=True) for u in unq_targets for e in out):
            cfeats.add('cfg_lists_vs_unqualified')
        return out

    implicit = F['implicit_seeds'] and rng.random() < 0.3
    for p in seed_procs:
        if implicit or rng.random() < 0.7:
            entry = {'seed_routine': True} if implicit and rng.random() < 0.3 else {'role': 'driver'}
            routines[key_for(p.qname)] = entry
    if F['lists']:
        if rng.random() < 0.45:
            default['disable'] = list_entries()
        if rng.random() < 0.45:
            default['block'] = list_entries()
        if rng.random() < 0.45:
            default['ignore'] = list_entries(patterns=F['ignore_patterns'], exclusion=False)
    procs = [nm for nm in names if truth['items'][nm]['kind'] == 'ProcedureItem']
    for _ in range(rng.randint(0, 3)):
        target = rng.choice(procs)
        k = key_for(target)
        if taken(target, k):
            continue
        entry = {}
        if F['expand_false'] and rng.random() < 0.3 and target not in seed_q:
            entry['expand'] = False
        if rng.random() < 0.3:
            entry['mode'] = rng.choice(['idem', 'scc', 'other'])
        if rng.random() < 0.2 and not implicit:
            entry['role'] = rng.choice(['driver', 'kernel'])
        if rng.random() < 0.2:
            entry['replicate'] = True
        if entry:
            routines[k] = entry
    if F['lists'] and F['per_item_lists']:
        for k, entry in routines.items():
            if rng.random() < 0.3:
                entry['block'] = list_entries(2)
            if rng.random() < 0.3:
                entry['ignore'] = list_entries(2, patterns=F['ignore_patterns'], exclusion=False)
            if rng.random() < 0.2:
                entry['disable'] = list_entries(2)
    config = {'default': default, 'routines': routines}
    project.config_features = cfeats
    if implicit:
        return config, None
    seeds_arg = []
    for p in seed_procs:
        unique = local_count.get(p.name, 0) == 1
        if p.module and (not unique or rng.random() < 0.5):
            seeds_arg.append(p.qname)
        else:
            seeds_arg.append(p.name)
    return config, seeds_arg


def _nostar_pattern(rng, text):
    """An fnmatch pattern without '*' that matches ``text`` (lower case): one or two alphanumeric characters
    are replaced by '?', a character class containing the character, a negated class or a range."""
    chars = list(text)
    pos = [i for i, c in enumerate(chars) if c.isalnum()]
    for i in rng.sample(pos, min(len(pos), rng.choice([1, 1, 2]))):
        c = chars[i]
        pool = '0123456789' if c.isdigit() else 'abcdefghijklmnopqrstuvwxyz'
        other = rng.choice([x for x in pool if x != c])
        r = rng.random()
        if r < 0.4:
            chars[i] = '?'
        elif r < 0.65:
            chars[i] = '[' + ''.join(sorted({c, other})) + ']'
        elif r < 0.8:
            chars[i] = '[!' + other + ']'
        else:
            chars[i] = '[0-9]' if c.isdigit() else '[a-z]'
    return ''.join(chars)


def _name_clash(truth, local):
    """A plain seed name must not also be the name of a type (the seed lookup also scans typedefs)."""
    return any(_local(nm) == local and it['kind'] != 'ProcedureItem' for nm, it in truth['items'].items())


def _local(qname):
    return qname.partition('#')[2] if '#' in qname else qname


def respell_config(config, seeds, speller):
    """Case-permuted copy of a config dict and seed list (keys, name-valued entries)."""
    cfg = copy.deepcopy(config)
    for scope in [cfg['default']] + list(cfg['routines'].values()):
        for key in ('disable', 'block', 'ignore'):
            if key in scope:
                scope[key] = [speller(e) for e in scope[key]]
    cfg['routines'] = {speller(k): v for k, v in cfg['routines'].items()}
    return cfg, (None if seeds is None else [speller(s) for s in seeds])


# ---------------------------------------------------------------------------------------------
# reference model: only what the SchedulerConfig / ItemConfig / Item docstrings and
# docs/source/transform.rst ("Pruning the dependency graph") state
# ---------------------------------------------------------------------------------------------

def match_keys(name, keys, patterns=False, parents=False):
    """Config keys matching an item name: the fully-qualified and the local name are matched,
    optionally the parent scopes (module name, type name and partial member paths), optionally
    with fnmatch patterns; always case-insensitively."""
    name = name.lower()
    scope, sep, local = name.partition('#')
    if not sep:
        scope, local = '', name
    cands = {name, local}
    if parents:
        if scope:
            cands.add(scope)
        if '%' in local:
            parts = local.split('%')
            for k in range(1, len(parts) + 1):
                partial = '%'.join(parts[:k])
                cands.add(partial)
                cands.add(f'{scope}#{partial}')
    out = []
    for key in keys or ():
        kl = key.lower()
        if patterns:
            if any(fnmatch.fnmatchcase(c, kl) for c in cands):
                out.append(kl)
        elif kl in cands:
            out.append(kl)
    return tuple(out)


def item_config(config, name):
    """Default values plus the overrides of the ``routines`` entries that match the item."""
    conf = dict(config.get('default', {}))
    routines = config.get('routines', {})
    lowered = {k.lower(): v for k, v in routines.items()}
    for key in match_keys(name, list(routines)):
        conf.update(lowered[key])
    return conf


class Expected:
    def __init__(self):
        self.nodes = {}
        self.edges = set()
        self.ignored = {}
        self.cycle_edges = set()
        self.error = None
        self.seeds = []
        self._config = None

    def config(self, name):
        return item_config(self._config, name)


def resolve_seeds(truth, config, seeds):
    """Qualified names of the seed items (seed names are plain or fully qualified)."""
    if seeds is None:
        seeds = [k for k, e in config.get('routines', {}).items()
                 if item_config(config, k).get('role') == 'driver' or item_config(config, k).get('seed_routine')]
    out = []
    for s in seeds:
        s = s.lower()
        if '#' in s:
            out.append(s)
            continue
        hits = [nm for nm, it in truth['items'].items()
                if it['kind'] == 'ProcedureItem' and _local(nm) == s]
        out += hits
    return out


def reference_closure(truth, config, seeds):
    exp = Expected()
    exp._config = config
    items = truth['items']
    default = config.get('default', {})
    gdisable = list(default.get('disable', []) or [])
    strict = default.get('strict', True)
    exp.seeds = resolve_seeds(truth, config, seeds)
    queue = []
    for s in exp.seeds:
        if s in items and s not in exp.nodes:
            exp.nodes[s] = items[s]['kind']
            queue.append(s)
    contrib = {s: [] for s in exp.nodes}     # name -> list of (parent or None, matched-ignore)
    while queue:
        name = queue.pop(0)
        conf = exp.config(name)
        if not conf.get('expand', False):
            continue
        disable = gdisable + list(conf.get('disable', []) or [])
        block = list(conf.get('block', []) or [])
        ignore = list(conf.get('ignore', []) or [])
        for dep in items[name]['deps']:
            tgt = dep['target']
            if any(match_keys(nm, disable + block, patterns=True, parents=True)
                   for nm in [tgt] + ([dep['symbol']] if dep.get('symbol') else [])):
                continue
            kind = items[tgt]['kind'] if tgt in items else 'ExternalItem'
            if kind == 'ExternalItem' and items.get(tgt, {}).get('origin') == 'ProcedureItem' \
                    and tgt.startswith('#') and strict:
                exp.error = 'RuntimeError'
            if tgt == name:
                # a RECURSIVE routine is its own dependency: no edge; its effect on the ignore flag is left open
                contrib.setdefault(tgt, []).append((name, bool(match_keys(tgt, ignore, patterns=True, parents=True))))
                continue
            new = tgt not in exp.nodes
            exp.nodes.setdefault(tgt, kind)
            exp.edges.add((name, tgt))
            contrib.setdefault(tgt, []).append((name, bool(match_keys(tgt, ignore, patterns=True, parents=True))))
            if new and kind != 'ExternalItem':
                queue.append(tgt)
    # ignored flags: least fixpoint over sets of possible values
    vals = {n: ({False} if n in exp.seeds else set()) for n in exp.nodes}
    changed = True
    while changed:
        changed = False
        for n, cs in contrib.items():
            for parent, matched in cs:
                add = {True} if matched else vals[parent]
                if not add <= vals[n]:
                    vals[n] |= add
                    changed = True
    for n, v in vals.items():
        exp.ignored[n] = next(iter(v)) if len(v) == 1 else None
    # edges inside recursion cycles (which one is removed to break the cycle is left open)
    exp.cycle_edges = _cycle_edges(exp.nodes, exp.edges)
    return exp


def _cycle_edges(nodes, edges):
    succ = {n: set() for n in nodes}
    for a, b in edges:
        succ[a].add(b)

    def reach(a):
        seen, todo = set(), [a]
        while todo:
            x = todo.pop()
            for y in succ[x]:
                if y not in seen:
                    seen.add(y)
                    todo.append(y)
        return seen
    r = {n: reach(n) for n in nodes}
    return {(a, b) for a, b in edges if a in r[b]}


# ---------------------------------------------------------------------------------------------
# observation of the real scheduler
# ---------------------------------------------------------------------------------------------

def build_scheduler(root, config, seeds, full_parse, **kwargs):
    from loki.batch import Scheduler, SchedulerConfig   # pylint: disable=import-outside-toplevel
    cfg = SchedulerConfig.from_dict(copy.deepcopy(config))
    return Scheduler(paths=[str(root)], config=cfg, seed_routines=seeds, full_parse=full_parse, **kwargs)


def graph_summary(scheduler, root=None):
    """Plain-data summary of the scheduler graph: nodes, edges, ignored flags, files, duplicates."""
    from loki.batch import ExternalItem   # pylint: disable=import-outside-toplevel
    nodes, ignored, files, origin = {}, {}, {}, {}
    names = []
    for it in scheduler.items:
        names.append(it.name)
        nm = it.name.lower()
        nodes[nm] = type(it).__name__
        ignored[nm] = bool(it.is_ignored)
        if isinstance(it, ExternalItem):
            origin[nm] = it.origin_cls.__name__ if it.origin_cls else None
            files[nm] = None
        else:
            p = str(it.source.path) if it.source is not None else None
            if p and root:
                try:
                    p = str(Path(p).relative_to(root))
                except ValueError:
                    pass
            files[nm] = p
    edges = {(a.name.lower(), b.name.lower()) for a, b in scheduler.dependencies}
    return {'nodes': nodes, 'edges': edges, 'ignored': ignored, 'files': files, 'origin': origin,
            'raw_names': names, 'n_edges_raw': len(scheduler.dependencies)}


def _make_probe_class():
    from loki.batch import Transformation   # pylint: disable=import-outside-toplevel

    class _Probe(Transformation):
        """Records every transform_* / plan_* invocation."""

        def __init__(self, log=None, tag=None, **manifest):
            self.log = [] if log is None else log
            self.tag = tag
            for k, v in manifest.items():
                if not hasattr(Transformation, k):
                    raise AttributeError(f'unknown manifest attribute {k}')
                setattr(self, k, v)

        def _rec(self, method, ir, kwargs):
            item = kwargs.get('item')
            sub = kwargs.get('sub_sgraph')
            succ = None
            if sub is not None and item is not None:
                try:
                    succ = sorted(s.name.lower() for s in sub.successors(item))
                except Exception as e:  # pylint: disable=broad-except
                    succ = f'error:{type(e).__name__}'
            depths = kwargs.get('depths')
            depth = None
            if depths is not None and item is not None:
                depth = depths.get(item)
            items = kwargs.get('items')
            targets = kwargs.get('targets')
            self.log.append({
                'method': method, 'tag': self.tag,
                'ir': str(getattr(ir, 'name', None) or getattr(ir, 'path', None)).lower(),
                'item': item.name.lower() if item is not None else None,
                'cls': type(item).__name__ if item is not None else None,
                'role': kwargs.get('role'), 'mode': kwargs.get('mode'),
                'targets': None if targets is None else sorted(str(t).lower() for t in targets),
                'successors': succ,
                'items': None if items is None else [i.name.lower() for i in items],
                'depth': depth,
            })

        def transform_subroutine(self, routine, **kwargs):
            self._rec('transform_subroutine', routine, kwargs)

        def transform_module(self, module, **kwargs):
            self._rec('transform_module', module, kwargs)

        def transform_file(self, sourcefile, **kwargs):
            self._rec('transform_file', sourcefile, kwargs)

        def plan_subroutine(self, routine, **kwargs):
            self._rec('plan_subroutine', routine, kwargs)

        def plan_module(self, module, **kwargs):
            self._rec('plan_module', module, kwargs)

        def plan_file(self, sourcefile, **kwargs):
            self._rec('plan_file', sourcefile, kwargs)

    return _Probe


_PROBE = []


def ProbeTransformation(log=None, tag=None, **manifest):   # pylint: disable=invalid-name
    """Factory (loki is imported lazily): returns a probe :any:`Transformation` instance."""
    if not _PROBE:
        _PROBE.append(_make_probe_class())
    return _PROBE[0](log=log, tag=tag, **manifest)
